"""Self-test of a property's rule set (thorough tier).

Replays, on scratch copies of the analysed tree's src/ (mktemp, removed at once):
  * selftest/mutants/<pid>.json : AST-located edits; `expect: violation` mutants must be reported
    (optionally by a given rule), `expect: silent` twins (behaviour-preserving edits) must not be;
  * seeded/<pid>/*/patch.diff   : independently written breakages (see seeded/*/meta.json); those
    marked "detected_by" containing <pid> must be reported.
A mutant whose anchor text no longer exists in the analysed tree is *stale* (the tree changed) and is
skipped.  An undetected mutant or an alarming twin means the machinery is broken: exit 2.
"""
from __future__ import annotations

import ast
import concurrent.futures as cf
import json
import os
import shutil
import subprocess
import sys
import tempfile

HERE = os.path.dirname(os.path.abspath(__file__))
VERIF = os.path.dirname(HERE)


def _func_span(source: str, qual: str):
    tree = ast.parse(source)
    parts = qual.split(".")

    def find(body, parts):
        for st in body:
            if isinstance(st, (ast.FunctionDef, ast.AsyncFunctionDef, ast.ClassDef)) and st.name == parts[0]:
                if len(parts) == 1:
                    return st
                return find(st.body, parts[1:])
        return None

    node = find(tree.body, parts)
    if node is None:
        return None
    lines = source.splitlines(keepends=True)
    start = sum(len(l) for l in lines[: node.lineno - 1])
    end = sum(len(l) for l in lines[: node.end_lineno])
    return start, end


def apply_edit(root: str, spec: dict) -> bool:
    """edit = {file, function?, find, replace, count?}; returns False when stale"""
    for ed in spec.get("edits") or [spec]:
        path = os.path.join(root, ed["file"])
        if not os.path.exists(path):
            return False
        src = open(path, encoding="utf8").read()
        lo, hi = 0, len(src)
        if ed.get("function") and path.endswith(".py"):
            span = _func_span(src, ed["function"])
            if span is None:
                return False
            lo, hi = span
        elif ed.get("function"):
            # C: from the line that defines the function to the next line starting with '}'
            i = src.find("\n" + ed["function"] + "(")
            if i < 0:
                return False
            lo = i
            j = src.find("\n}\n", lo)
            hi = j if j > 0 else len(src)
        seg = src[lo:hi]
        if seg.count(ed["find"]) < 1:
            return False
        if ed.get("unique", True) and seg.count(ed["find"]) != 1:
            return False
        seg = seg.replace(ed["find"], ed["replace"], 1)
        new = src[:lo] + seg + src[hi:]
        if path.endswith(".py"):
            try:
                ast.parse(new)
            except SyntaxError:
                raise RuntimeError(f"mutant {spec.get('name')} does not parse")
        open(path, "w", encoding="utf8").write(new)
    return True


def _scratch(repo_root: str) -> str:
    tmp = tempfile.mkdtemp(prefix="verif-st.")
    shutil.copytree(os.path.join(repo_root, "src"), os.path.join(tmp, "src"), ignore=shutil.ignore_patterns("*.so", "__pycache__", "*.pyc"))
    return tmp


def _run_check(pid: str, root: str):
    r = subprocess.run([os.path.join(VERIF, "check"), pid, "--repo", root, "--no-evidence", "--no-selftest"], capture_output=True, text=True)
    return r.returncode, r.stdout + r.stderr


def run_variant(pid: str, repo_root: str, spec: dict):
    tmp = _scratch(repo_root)
    try:
        if "patch" in spec:
            p = subprocess.run(["git", "apply", "--whitespace=nowarn", spec["patch"]], cwd=tmp, capture_output=True, text=True)
            if p.returncode != 0:
                return spec, "stale", ""
        else:
            if not apply_edit(tmp, spec):
                return spec, "stale", ""
        rc, out = _run_check(pid, tmp)
        return spec, rc, out
    finally:
        shutil.rmtree(tmp, ignore_errors=True)


def load_specs(pid: str) -> list[dict]:
    specs = []
    f = os.path.join(HERE, "mutants", pid + ".json")
    if os.path.exists(f):
        for s in json.load(open(f))["mutants"]:
            specs.append(s)
    sroot = os.path.join(VERIF, "seeded")
    if os.path.isdir(sroot):
        for dp, dn, fn in sorted(os.walk(sroot)):
            if "patch.diff" in fn and "meta.json" in fn:
                meta = json.load(open(os.path.join(dp, "meta.json")))
                if pid in (meta.get("detected_by") or []):
                    specs.append({"name": "seeded/" + os.path.relpath(dp, sroot), "patch": os.path.join(dp, "patch.diff"), "expect": "violation"})
    # behaviour-preserving refactorings written by independent agents for this property: must stay silent
    troot = os.path.join(VERIF, "twins", pid)
    if os.path.isdir(troot):
        for dp, dn, fn in sorted(os.walk(troot)):
            if "patch.diff" in fn:
                specs.append({"name": "twins/" + os.path.relpath(dp, os.path.join(VERIF, "twins")), "patch": os.path.join(dp, "patch.diff"), "expect": "silent"})
    return specs


def run_for_property(pid: str, repo_root: str) -> int:
    specs = load_specs(pid)
    if not specs:
        print(f"{pid}: self-test corpus empty")
        return 0
    bad = []
    stale = 0
    ok = 0
    with cf.ThreadPoolExecutor(max_workers=min(16, os.cpu_count() or 4)) as ex:
        for spec, rc, out in ex.map(lambda s: run_variant(pid, repo_root, s), specs):
            name = spec.get("name")
            if rc == "stale":
                stale += 1
                continue
            want = spec.get("expect", "violation")
            if want == "violation":
                good = rc == 1 and (not spec.get("rule") or any(spec["rule"] in l for l in out.splitlines() if l.startswith("  ")))
            else:
                good = rc == 0
            if good:
                ok += 1
            else:
                first = next((l.strip() for l in out.splitlines() if l.startswith("  ") or "ANALYSIS-ERROR" in l), "")
                bad.append(f"{name}: expected {want}" + (f" by {spec['rule']}" if spec.get("rule") else "") + f", got exit {rc} {first[:160]}")
    print(f"{pid}: self-test {ok} variants behaved as expected, {stale} stale (anchor text changed), {len(bad)} unexpected")
    for b in bad:
        print("  SELFTEST", b)
    if bad:
        print(f"ANALYSIS-ERROR {pid}: the rule set failed its own mutant corpus (machinery broken, not a verdict about the tree)")
        return 2
    return 0


if __name__ == "__main__":
    sys.exit(run_for_property(sys.argv[1].upper(), sys.argv[2] if len(sys.argv) > 2 else "/repo"))
