"""E3 - statement-level control-flow graph with exception edges and dominators.

Every simple statement S is two nodes: begin(S) and done(S).  Exception edges
leave begin(S); the normal successor leaves done(S).  So "done(A) dominates
begin(B)" means: on every path to B, statement A *completed normally* before.
Branching statements get a test node and synthetic 'T' / 'F' nodes, so a rule
can ask "B is only reachable through the true edge of test t".

Edges are over-approximated (every statement that contains a call, subscript,
attribute access, arithmetic or assert may raise into every enclosing handler
and out of the function).  Extra edges can only *remove* dominators, so every
positive dominance answer is sound.
"""
from __future__ import annotations

import ast
from typing import Iterable, Optional


class Node:
    __slots__ = ("id", "kind", "ast", "succ", "pred", "label")

    def __init__(self, id, kind, astnode=None, label=""):
        self.id = id
        self.kind = kind  # entry exit raise begin done test T F handler with_exit finally
        self.ast = astnode
        self.succ: list[int] = []
        self.pred: list[int] = []
        self.label = label

    def __repr__(self):
        ln = getattr(self.ast, "lineno", "")
        return f"<{self.id}:{self.kind}:{ln}>"


def may_raise(node: ast.AST) -> bool:
    for n in ast.walk(node):
        if isinstance(
            n,
            (
                ast.Call,
                ast.Subscript,
                ast.Attribute,
                ast.BinOp,
                ast.Assert,
                ast.Raise,
                ast.Compare,
                ast.Await,
                ast.Yield,
                ast.YieldFrom,
                ast.Delete,
                ast.Starred,
                ast.For,
                ast.comprehension,
            ),
        ):
            return True
    return False


class CFG:
    def __init__(self, fn: ast.AST):
        self.fn = fn
        self.nodes: list[Node] = []
        self.begin: dict[ast.AST, int] = {}  # stmt -> begin node
        self.done: dict[ast.AST, int] = {}  # stmt -> done node (normal completion)
        self.tedge: dict[ast.AST, int] = {}  # If/While/For stmt -> 'T' node
        self.fedge: dict[ast.AST, int] = {}
        self.handler_node: dict[ast.ExceptHandler, int] = {}
        self.entry = self._new("entry")
        self.exit = self._new("exit")
        self.raise_exit = self._new("raise")
        self._loops: list[tuple[int, list[int]]] = []  # (continue target, break frontier list)
        self._exc: list[list[int]] = [[self.raise_exit]]  # stack of exception targets
        self._finally: list = []
        out = self._block(fn.body, [self.entry])
        for o in out:
            self._edge(o, self.exit)
        self._idom: Optional[dict[int, int]] = None
        self._ipdom: Optional[dict[int, int]] = None

    # ---- construction ----------------------------------------------------
    def _new(self, kind, astnode=None, label="") -> int:
        n = Node(len(self.nodes), kind, astnode, label)
        self.nodes.append(n)
        return n.id

    def _edge(self, a: int, b: int):
        if b not in self.nodes[a].succ:
            self.nodes[a].succ.append(b)
            self.nodes[b].pred.append(a)

    def _exc_edges(self, n: int):
        for t in self._exc[-1]:
            self._edge(n, t)

    def _block(self, stmts: Iterable[ast.stmt], preds: list[int]) -> list[int]:
        cur = list(preds)
        for st in stmts:
            cur = self._stmt(st, cur)
        return cur

    def _simple(self, st: ast.stmt, preds: list[int]) -> list[int]:
        b = self._new("begin", st)
        self.begin[st] = b
        for p in preds:
            self._edge(p, b)
        if may_raise(st):
            self._exc_edges(b)
        d = self._new("done", st)
        self.done[st] = d
        self._edge(b, d)
        return [d]

    def _stmt(self, st: ast.stmt, preds: list[int]) -> list[int]:
        if isinstance(st, (ast.FunctionDef, ast.AsyncFunctionDef, ast.ClassDef)):
            return self._simple_noraise(st, preds)
        if isinstance(st, ast.Return):
            out = self._simple(st, preds)
            tgt = self._finally_target()
            for o in out:
                self._edge(o, tgt if tgt is not None else self.exit)
            return []
        if isinstance(st, ast.Raise):
            b = self._new("begin", st)
            self.begin[st] = b
            for p in preds:
                self._edge(p, b)
            self._exc_edges(b)
            return []
        if isinstance(st, ast.Break):
            out = self._simple_noraise(st, preds)
            if self._loops:
                self._loops[-1][1].extend(out)
            return []
        if isinstance(st, ast.Continue):
            out = self._simple_noraise(st, preds)
            if self._loops:
                for o in out:
                    self._edge(o, self._loops[-1][0])
            return []
        if isinstance(st, ast.If):
            t = self._new("test", st)
            self.begin[st] = t
            for p in preds:
                self._edge(p, t)
            if may_raise(st.test):
                self._exc_edges(t)
            tn = self._new("T", st)
            fn_ = self._new("F", st)
            self.tedge[st], self.fedge[st] = tn, fn_
            self._edge(t, tn)
            self._edge(t, fn_)
            out = self._block(st.body, [tn]) + self._block(st.orelse, [fn_])
            d = self._new("done", st)
            self.done[st] = d
            for o in out:
                self._edge(o, d)
            return [d] if out else []
        if isinstance(st, (ast.While, ast.For, ast.AsyncFor)):
            t = self._new("test", st)
            self.begin[st] = t
            for p in preds:
                self._edge(p, t)
            if isinstance(st, ast.While):
                if may_raise(st.test):
                    self._exc_edges(t)
            else:
                self._exc_edges(t)
            tn = self._new("T", st)
            fn_ = self._new("F", st)
            self.tedge[st], self.fedge[st] = tn, fn_
            self._edge(t, tn)
            infinite = isinstance(st, ast.While) and isinstance(st.test, ast.Constant) and bool(st.test.value)
            if not infinite:
                self._edge(t, fn_)
            breaks: list[int] = []
            self._loops.append((t, breaks))
            body_out = self._block(st.body, [tn])
            self._loops.pop()
            for o in body_out:
                self._edge(o, t)
            out = self._block(st.orelse, [fn_]) if not infinite else []
            out = out + breaks
            d = self._new("done", st)
            self.done[st] = d
            for o in out:
                self._edge(o, d)
            return [d] if out else []
        if isinstance(st, ast.Try) or (hasattr(ast, "TryStar") and isinstance(st, ast.TryStar)):
            return self._try(st, preds)
        if isinstance(st, (ast.With, ast.AsyncWith)):
            b = self._new("begin", st)
            self.begin[st] = b
            for p in preds:
                self._edge(p, b)
            self._exc_edges(b)  # __enter__ may raise
            inner = self._new("T", st)  # entered
            self.tedge[st] = inner
            self._edge(b, inner)
            out = self._block(st.body, [inner])
            x = self._new("with_exit", st)
            for o in out:
                self._edge(o, x)
            if out:
                self._exc_edges(x)  # __exit__ / generator tail may raise
            d = self._new("done", st)
            self.done[st] = d
            self._edge(x, d)
            return [d] if out else []
        if hasattr(ast, "Match") and isinstance(st, ast.Match):
            t = self._new("test", st)
            self.begin[st] = t
            for p in preds:
                self._edge(p, t)
            self._exc_edges(t)
            out = []
            for c in st.cases:
                cn = self._new("T", c)
                self._edge(t, cn)
                out += self._block(c.body, [cn])
            fn_ = self._new("F", st)
            self._edge(t, fn_)
            out.append(fn_)
            d = self._new("done", st)
            self.done[st] = d
            for o in out:
                self._edge(o, d)
            return [d]
        return self._simple(st, preds)

    def _simple_noraise(self, st, preds):
        b = self._new("begin", st)
        self.begin[st] = b
        for p in preds:
            self._edge(p, b)
        d = self._new("done", st)
        self.done[st] = d
        self._edge(b, d)
        return [d]

    def _finally_target(self):
        return self._finally[-1] if self._finally else None

    def _try(self, st, preds):
        t = self._new("begin", st)
        self.begin[st] = t
        for p in preds:
            self._edge(p, t)
        fin_entry = None
        if st.finalbody:
            fin_entry = self._new("finally", st)
        hnodes = []
        for h in st.handlers:
            hn = self._new("handler", h)
            self.handler_node[h] = hn
            hnodes.append(hn)
        outer = self._exc[-1]
        # exceptions in the body go to every handler, and (type may not match) outward
        body_targets = list(hnodes) + ([fin_entry] if fin_entry is not None else list(outer))
        catch_all = any(
            h.type is None or (isinstance(h.type, ast.Name) and h.type.id in ("BaseException",)) for h in st.handlers
        )
        if catch_all:
            body_targets = list(hnodes)
        self._exc.append(body_targets)
        if fin_entry is not None:
            self._finally.append(fin_entry)
        body_out = self._block(st.body, [t])
        self._exc.pop()
        # handlers and else run with exceptions going outward (through finally)
        self._exc.append([fin_entry] if fin_entry is not None else list(outer))
        else_out = self._block(st.orelse, body_out) if st.orelse else body_out
        h_out = []
        for h, hn in zip(st.handlers, hnodes):
            h_out += self._block(h.body, [hn])
        self._exc.pop()
        if fin_entry is not None:
            self._finally.pop()
        out = else_out + h_out
        if fin_entry is not None:
            for o in out:
                self._edge(o, fin_entry)
            fout = self._block(st.finalbody, [fin_entry])
            # after finally: continue normally, or re-raise / complete a pending
            # return / break / continue (over-approximated by edges to all of them)
            for o in fout:
                for tgt in outer:
                    self._edge(o, tgt)
                ft = self._finally_target()
                self._edge(o, ft if ft is not None else self.exit)
                if self._loops:
                    self._edge(o, self._loops[-1][0])
                    self._loops[-1][1].append(o)
            out = fout
        d = self._new("done", st)
        self.done[st] = d
        for o in out:
            self._edge(o, d)
        return [d] if out else []

    # ---- dominators --------------------------------------------------------
    def _rpo(self, start: int, succ) -> list[int]:
        seen = set()
        order = []
        stack = [(start, iter(succ(start)))]
        seen.add(start)
        while stack:
            n, it = stack[-1]
            adv = False
            for s in it:
                if s not in seen:
                    seen.add(s)
                    stack.append((s, iter(succ(s))))
                    adv = True
                    break
            if not adv:
                order.append(n)
                stack.pop()
        order.reverse()
        return order

    def _dominators(self, start, succ, pred) -> dict[int, int]:
        order = self._rpo(start, succ)
        idx = {n: i for i, n in enumerate(order)}
        idom = {start: start}

        def intersect(a, b):
            while a != b:
                while idx[a] > idx[b]:
                    a = idom[a]
                while idx[b] > idx[a]:
                    b = idom[b]
            return a

        changed = True
        while changed:
            changed = False
            for n in order[1:]:
                ps = [p for p in pred(n) if p in idom]
                if not ps:
                    continue
                new = ps[0]
                for p in ps[1:]:
                    new = intersect(p, new)
                if idom.get(n) != new:
                    idom[n] = new
                    changed = True
        return idom

    def idom(self):
        if self._idom is None:
            self._idom = self._dominators(
                self.entry, lambda n: self.nodes[n].succ, lambda n: self.nodes[n].pred
            )
        return self._idom

    def ipdom(self):
        """post-dominators w.r.t. the *normal* exit."""
        if self._ipdom is None:
            self._ipdom = self._dominators(
                self.exit, lambda n: self.nodes[n].pred, lambda n: self.nodes[n].succ
            )
        return self._ipdom

    def dominates(self, a: int, b: int) -> bool:
        """node a dominates node b (b unreachable => True is NOT returned; unreachable b gives False)."""
        idom = self.idom()
        if b not in idom or a not in idom:
            return False
        n = b
        while True:
            if n == a:
                return True
            if idom[n] == n:
                return False
            n = idom[n]

    def postdominates(self, a: int, b: int) -> bool:
        """every path from b to the normal exit passes through a."""
        ip = self.ipdom()
        if b not in ip or a not in ip:
            return False
        n = b
        while True:
            if n == a:
                return True
            if ip[n] == n:
                return False
            n = ip[n]

    def reachable(self, n: int) -> bool:
        return n in self.idom()

    def reaches(self, src: int, dst: int, avoid: Iterable[int] = ()) -> bool:
        avoid = set(avoid)
        if src in avoid:
            return False
        seen = {src}
        stack = [src]
        while stack:
            n = stack.pop()
            if n == dst:
                return True
            for s in self.nodes[n].succ:
                if s not in seen and s not in avoid:
                    seen.add(s)
                    stack.append(s)
        return dst in seen

    # ---- statement level helpers --------------------------------------------
    def stmt_of(self, node: ast.AST) -> ast.stmt:
        """the CFG statement that contains an expression node"""
        n = node
        while n is not None:
            if n in self.begin:
                # an If/While test expression belongs to the test node
                return n  # type: ignore[return-value]
            n = getattr(n, "_parent", None)
        raise KeyError("node not in this CFG")

    def node_of(self, node: ast.AST) -> int:
        """begin node of the statement containing `node`; for expressions inside an
        if/while test this is the test node."""
        return self.begin[self.stmt_of(node)]

    def done_of(self, node: ast.AST) -> int:
        st = self.stmt_of(node)
        if isinstance(st, (ast.If, ast.While)) and _inside(node, st.test):
            return self.begin[st]  # test evaluated
        if isinstance(st, (ast.For, ast.AsyncFor)) and _inside(node, st.iter):
            return self.begin[st]
        if isinstance(st, (ast.With, ast.AsyncWith)) and any(_inside(node, i) for i in st.items):
            return self.tedge[st]
        return self.done.get(st, self.begin[st])

    def completed_before(self, a: ast.AST, b: ast.AST) -> bool:
        """statement/expression a completed normally on every path to b"""
        return self.dominates(self.done_of(a), self.node_of(b))

    def guarded_by_true(self, test_stmt: ast.stmt, b: ast.AST) -> bool:
        return self.dominates(self.tedge[test_stmt], self.node_of(b))

    def guarded_by_false(self, test_stmt: ast.stmt, b: ast.AST) -> bool:
        return self.dominates(self.fedge[test_stmt], self.node_of(b))

    def always_followed_by(self, a: ast.AST, b: ast.AST) -> bool:
        """every normal path from a to the function's normal exit passes through b"""
        return self.postdominates(self.node_of(b), self.done_of(a))


def _inside(node: ast.AST, root: ast.AST) -> bool:
    n = node
    while n is not None:
        if n is root:
            return True
        n = getattr(n, "_parent", None)
    return False


_cache: dict[int, CFG] = {}


def cfg_of(fn: ast.AST) -> CFG:
    c = _cache.get(id(fn))
    if c is None or c.fn is not fn:
        c = CFG(fn)
        _cache[id(fn)] = c
    return c
