"""E1 - program facts: modules, classes, functions, annotations, light type inference.

Nothing under the analysed repository is imported or executed; everything is
derived from `ast` trees of the files on disk.
"""
from __future__ import annotations

import ast
import os
from typing import Iterator, Optional

from .report import AnalysisError, digest_files

PKG = "aioquic"


def norm(node: ast.AST) -> str:
    """Normalised source text of a node (position independent)."""
    return ast.unparse(node)


class Module:
    def __init__(self, name: str, path: str, tree: ast.Module, source: str):
        self.name = name  # e.g. "quic.connection"
        self.path = path
        self.tree = tree
        self.source = source
        self.classes: dict[str, ast.ClassDef] = {}
        self.functions: dict[str, ast.AST] = {}  # qualname within module -> def
        self.imports: dict[str, str] = {}  # local name -> "module:Name" or "module"
        self.assigns: dict[str, ast.expr] = {}  # module level NAME = expr
        self._index()

    def _index(self):
        for node in ast.walk(self.tree):
            for child in ast.iter_child_nodes(node):
                child._parent = node  # type: ignore[attr-defined]
        self.tree._parent = None  # type: ignore[attr-defined]

        def visit(body, prefix, cls):
            for st in body:
                if isinstance(st, (ast.FunctionDef, ast.AsyncFunctionDef)):
                    q = prefix + st.name
                    st._qualname = q  # type: ignore[attr-defined]
                    st._module = self  # type: ignore[attr-defined]
                    st._class = cls  # type: ignore[attr-defined]
                    self.functions[q] = st
                    visit_nested(st, q + ".<locals>.", cls)
                elif isinstance(st, ast.ClassDef):
                    st._module = self  # type: ignore[attr-defined]
                    self.classes[prefix + st.name] = st
                    visit(st.body, prefix + st.name + ".", st)

        def visit_nested(fn, prefix, cls):
            for st in ast.walk(fn):
                if st is fn:
                    continue
                if isinstance(st, (ast.FunctionDef, ast.AsyncFunctionDef)) and enclosing_function(st) is fn:
                    q = prefix + st.name
                    st._qualname = q  # type: ignore[attr-defined]
                    st._module = self  # type: ignore[attr-defined]
                    st._class = None  # type: ignore[attr-defined]
                    self.functions[q] = st
                    visit_nested(st, q + ".<locals>.", None)

        visit(self.tree.body, "", None)
        base = self.name.split(".")
        for st in self.tree.body:
            if isinstance(st, ast.ImportFrom):
                if st.level:
                    parts = base[: len(base) - st.level] if st.level <= len(base) else []
                    mod = ".".join(parts + ([st.module] if st.module else []))
                else:
                    mod = st.module or ""
                    if mod == PKG:
                        mod = ""
                    elif mod.startswith(PKG + "."):
                        mod = mod[len(PKG) + 1 :]
                    else:
                        mod = "ext:" + mod
                for a in st.names:
                    self.imports[a.asname or a.name] = f"{mod}:{a.name}"
            elif isinstance(st, ast.Import):
                for a in st.names:
                    self.imports[a.asname or a.name.split(".")[0]] = "ext:" + a.name
            elif isinstance(st, ast.Assign) and len(st.targets) == 1 and isinstance(st.targets[0], ast.Name):
                self.assigns[st.targets[0].id] = st.value
            elif isinstance(st, ast.AnnAssign) and isinstance(st.target, ast.Name) and st.value is not None:
                self.assigns[st.target.id] = st.value


def enclosing_function(node: ast.AST):
    p = getattr(node, "_parent", None)
    while p is not None and not isinstance(p, (ast.FunctionDef, ast.AsyncFunctionDef, ast.Lambda)):
        p = getattr(p, "_parent", None)
    return p


def enclosing_stmt(node: ast.AST) -> ast.stmt:
    while not isinstance(node, ast.stmt):
        node = node._parent  # type: ignore[attr-defined]
    return node


def parents(node: ast.AST) -> Iterator[ast.AST]:
    p = getattr(node, "_parent", None)
    while p is not None:
        yield p
        p = getattr(p, "_parent", None)


class Repo:
    def __init__(self, root: str):
        self.root = root
        self.src = os.path.join(root, "src", PKG)
        if not os.path.isdir(self.src):
            raise AnalysisError(f"source directory {self.src} not found")
        self.modules: dict[str, Module] = {}
        self.files: list[str] = []
        self.alpha_log: dict = {}
        for dirpath, dirnames, filenames in os.walk(self.src):
            dirnames[:] = [d for d in dirnames if d != "__pycache__"]
            for f in sorted(filenames):
                if f.endswith(".py") or f.endswith(".pyi"):
                    path = os.path.join(dirpath, f)
                    rel = os.path.relpath(path, self.src)
                    name = rel[: rel.rindex(".")].replace(os.sep, ".")
                    if name.endswith("__init__"):
                        name = name[: -len("__init__")].rstrip(".")
                    if f.endswith(".pyi"):
                        name = name  # _buffer / _crypto stubs
                    with open(path, encoding="utf8") as fp:
                        source = fp.read()
                    try:
                        tree = ast.parse(source, filename=path)
                    except SyntaxError as exc:
                        raise AnalysisError(f"cannot parse {path}: {exc}")
                    if f.endswith(".py"):
                        from . import alpha

                        lg = alpha.normalise_module(name, tree, source)
                        if lg:
                            self.alpha_log[name] = lg
                    self.modules[name] = Module(name, path, tree, source)
                    self.files.append(path)
                elif f.endswith(".c"):
                    self.files.append(os.path.join(dirpath, f))
        self.digest = digest_files(self.files)

    # ---- lookups (anchors: a missing one is an analysis error) ----------
    def mod(self, name: str) -> Module:
        if name not in self.modules:
            raise AnalysisError(f"anchor module {name} not found")
        return self.modules[name]

    def func(self, ref: str) -> ast.FunctionDef:
        """ref = 'quic.connection:QuicConnection.receive_datagram'"""
        m, q = ref.split(":")
        mod = self.mod(m)
        if q not in mod.functions:
            raise AnalysisError(f"anchor function {ref} not found")
        return mod.functions[q]  # type: ignore[return-value]

    def has_func(self, ref: str) -> bool:
        m, q = ref.split(":")
        return m in self.modules and q in self.modules[m].functions

    def cls(self, ref: str) -> ast.ClassDef:
        m, q = ref.split(":")
        mod = self.mod(m)
        if q not in mod.classes:
            raise AnalysisError(f"anchor class {ref} not found")
        return mod.classes[q]

    def loc(self, node: ast.AST, mod: Optional[Module] = None) -> str:
        if mod is None:
            n = node
            while n is not None and not hasattr(n, "_module"):
                n = getattr(n, "_parent", None)
            mod = getattr(n, "_module", None) if n is not None else None
        path = os.path.relpath(mod.path, self.root) if mod else "?"
        return f"{path}:{getattr(node, 'lineno', 0)}"

    def all_functions(self):
        for m in self.modules.values():
            for q, fn in m.functions.items():
                yield m, q, fn

    # ---- constant folding (E7) -----------------------------------------
    def const(self, mod: Module, expr: ast.expr, depth: int = 0):
        """Fold an expression to a Python constant using module-level
        assignments, imported constants and IntEnum members.  Returns
        `Unknown` when it cannot."""
        if depth > 12:
            return Unknown
        if isinstance(expr, ast.Constant):
            return expr.value
        if isinstance(expr, ast.Name):
            if expr.id in mod.assigns:
                return self.const(mod, mod.assigns[expr.id], depth + 1)
            if expr.id in mod.imports:
                tgt = mod.imports[expr.id]
                if not tgt.startswith("ext:"):
                    m, n = tgt.split(":")
                    if m in self.modules and n in self.modules[m].assigns:
                        return self.const(self.modules[m], self.modules[m].assigns[n], depth + 1)
            return Unknown
        if isinstance(expr, ast.Attribute):
            # Enum member: Class.MEMBER  or module.Class.MEMBER / module.CONST
            tgt = self.resolve_name(mod, expr.value)
            if tgt is not None and tgt[0] == "class":
                members = self.enum_members(tgt[1], tgt[2])
                if expr.attr in members:
                    return members[expr.attr]
            if tgt is not None and tgt[0] == "module":
                m = tgt[1]
                if expr.attr in m.assigns:
                    return self.const(m, m.assigns[expr.attr], depth + 1)
            return Unknown
        if isinstance(expr, ast.UnaryOp):
            v = self.const(mod, expr.operand, depth + 1)
            if v is Unknown:
                return Unknown
            try:
                if isinstance(expr.op, ast.USub):
                    return -v
                if isinstance(expr.op, ast.Not):
                    return not v
                if isinstance(expr.op, ast.Invert):
                    return ~v
            except Exception:
                return Unknown
            return Unknown
        if isinstance(expr, ast.BinOp):
            a = self.const(mod, expr.left, depth + 1)
            b = self.const(mod, expr.right, depth + 1)
            if a is Unknown or b is Unknown:
                return Unknown
            try:
                op = expr.op
                if isinstance(op, ast.Add):
                    return a + b
                if isinstance(op, ast.Sub):
                    return a - b
                if isinstance(op, ast.Mult):
                    return a * b
                if isinstance(op, ast.FloorDiv):
                    return a // b
                if isinstance(op, ast.Div):
                    return a / b
                if isinstance(op, ast.LShift):
                    return a << b
                if isinstance(op, ast.RShift):
                    return a >> b
                if isinstance(op, ast.BitOr):
                    return a | b
                if isinstance(op, ast.BitAnd):
                    return a & b
                if isinstance(op, ast.Pow):
                    return a**b
                if isinstance(op, ast.Mod):
                    return a % b
            except Exception:
                return Unknown
            return Unknown
        if isinstance(expr, (ast.Tuple, ast.List, ast.Set)):
            vals = [self.const(mod, e, depth + 1) for e in expr.elts]
            if any(v is Unknown for v in vals):
                return Unknown
            if isinstance(expr, ast.Tuple):
                return tuple(vals)
            if isinstance(expr, ast.Set):
                return frozenset(vals)
            return vals
        if isinstance(expr, ast.Dict):
            out = {}
            for k, v in zip(expr.keys, expr.values):
                if k is None:
                    return Unknown
                kk = self.const(mod, k, depth + 1)
                vv = self.const(mod, v, depth + 1)
                if kk is Unknown:
                    return Unknown
                out[kk] = vv
            return out
        if isinstance(expr, ast.Call):
            fname = norm(expr.func)
            if fname in ("frozenset", "set", "tuple", "list") and len(expr.args) <= 1 and not expr.keywords:
                if not expr.args:
                    return frozenset() if fname in ("frozenset", "set") else ([] if fname == "list" else ())
                v = self.const(mod, expr.args[0], depth + 1)
                if v is Unknown:
                    return Unknown
                try:
                    return {"frozenset": frozenset, "set": frozenset, "tuple": tuple, "list": list}[fname](v)
                except Exception:
                    return Unknown
            if fname in ("binascii.unhexlify", "bytes.fromhex") and len(expr.args) == 1:
                v = self.const(mod, expr.args[0], depth + 1)
                if isinstance(v, str):
                    try:
                        return bytes.fromhex(v)
                    except ValueError:
                        return Unknown
            if fname == "bytes" and len(expr.args) == 1:
                v = self.const(mod, expr.args[0], depth + 1)
                if isinstance(v, int) and 0 <= v < 1 << 20:
                    return bytes(v)
            if fname in ("min", "max") and expr.args and not expr.keywords:
                vals = [self.const(mod, a, depth + 1) for a in expr.args]
                if all(v is not Unknown for v in vals):
                    try:
                        return (min if fname == "min" else max)(*vals)
                    except Exception:
                        return Unknown
            if fname == "int" and len(expr.args) == 1:
                v = self.const(mod, expr.args[0], depth + 1)
                if isinstance(v, (int, float)):
                    return int(v)
            return Unknown
        return Unknown

    def resolve_name(self, mod: Module, expr: ast.expr):
        """Resolve a Name / dotted Attribute to ('class', Module, ClassDef) or
        ('module', Module) or ('func', Module, def) inside the package."""
        if isinstance(expr, ast.Name):
            n = expr.id
            if n in mod.classes:
                return ("class", mod, mod.classes[n])
            if n in mod.functions:
                return ("func", mod, mod.functions[n])
            if n in mod.imports:
                tgt = mod.imports[n]
                if tgt.startswith("ext:"):
                    return None
                m, name = tgt.split(":")
                sub = (m + "." + name).strip(".")
                if sub in self.modules:
                    return ("module", self.modules[sub])
                if m in self.modules:
                    mm = self.modules[m]
                    if name in mm.classes:
                        return ("class", mm, mm.classes[name])
                    if name in mm.functions:
                        return ("func", mm, mm.functions[name])
                    if name in mm.imports and depth_ok(mm, name):
                        return self.resolve_name(mm, ast.Name(id=name))
            return None
        if isinstance(expr, ast.Attribute):
            base = self.resolve_name(mod, expr.value)
            if base is None:
                return None
            if base[0] == "module":
                m = base[1]
                if expr.attr in m.classes:
                    return ("class", m, m.classes[expr.attr])
                if expr.attr in m.functions:
                    return ("func", m, m.functions[expr.attr])
                sub = m.name + "." + expr.attr
                if sub in self.modules:
                    return ("module", self.modules[sub])
            if base[0] == "class":
                q = base[2].name + "." + expr.attr
                m = base[1]
                if q in m.classes:
                    return ("class", m, m.classes[q])
            return None
        return None

    def enum_members(self, mod: Module, cls: ast.ClassDef) -> dict:
        out = {}
        for st in cls.body:
            if isinstance(st, ast.Assign) and len(st.targets) == 1 and isinstance(st.targets[0], ast.Name):
                v = self.const(mod, st.value)
                if v is not Unknown:
                    out[st.targets[0].id] = v
        return out


def depth_ok(mm, name):
    # guard against import cycles resolving to themselves
    return mm.imports.get(name, "").split(":")[-1] != name or True


class _Unknown:
    def __repr__(self):
        return "Unknown"

    def __bool__(self):
        return False


Unknown = _Unknown()


# ---- small AST helpers -----------------------------------------------------


def attr_chain(expr: ast.AST) -> Optional[str]:
    """'self._loss.spaces' for Attribute/Name chains, None otherwise."""
    parts = []
    while isinstance(expr, ast.Attribute):
        parts.append(expr.attr)
        expr = expr.value
    if isinstance(expr, ast.Name):
        parts.append(expr.id)
        return ".".join(reversed(parts))
    return None


def calls_in(node: ast.AST) -> Iterator[ast.Call]:
    for n in ast.walk(node):
        if isinstance(n, ast.Call):
            yield n


def call_name(call: ast.Call) -> str:
    return attr_chain(call.func) or norm(call.func)


def stmts_of(fn: ast.AST) -> Iterator[ast.stmt]:
    """All statements lexically inside fn, excluding nested function bodies."""
    stack = list(reversed(fn.body))
    while stack:
        st = stack.pop()
        yield st
        if isinstance(st, (ast.FunctionDef, ast.AsyncFunctionDef, ast.ClassDef)):
            continue
        for field in ("body", "orelse", "finalbody"):
            stack.extend(reversed(getattr(st, field, []) or []))
        if isinstance(st, ast.Try):
            for h in st.handlers:
                stack.extend(reversed(h.body))
        if hasattr(ast, "Match") and isinstance(st, ast.Match):
            for c in st.cases:
                stack.extend(reversed(c.body))


def walk_no_nested(node: ast.AST) -> Iterator[ast.AST]:
    """ast.walk that does not descend into nested function/lambda/class bodies."""
    stack = [node]
    first = True
    while stack:
        n = stack.pop()
        if not first and isinstance(n, (ast.FunctionDef, ast.AsyncFunctionDef, ast.Lambda, ast.ClassDef)):
            continue
        first = False
        yield n
        stack.extend(ast.iter_child_nodes(n))


def get_kw(call: ast.Call, name: str, pos: Optional[int] = None) -> Optional[ast.expr]:
    for k in call.keywords:
        if k.arg == name:
            return k.value
    if pos is not None and len(call.args) > pos:
        return call.args[pos]
    return None


def names_in(node: ast.AST) -> set:
    return {n.id for n in ast.walk(node) if isinstance(n, ast.Name)}


def chains_in(node: ast.AST) -> set:
    """All maximal attribute chains read in node (e.g. {'self._loss', 'now'})."""
    out = set()
    for n in ast.walk(node):
        if isinstance(n, (ast.Attribute, ast.Name)):
            p = getattr(n, "_parent", None)
            if isinstance(p, ast.Attribute) and p.value is n:
                continue
            c = attr_chain(n)
            if c:
                out.add(c)
    return out
