"""Linear expressions over integer symbols and a small constraint store whose
entailment check is Fourier-Motzkin elimination (rational relaxation, sound
for proving: if the negated goal is infeasible over Q it is infeasible over Z).

This is the relational abstract domain used by the C bounds analysis (E6).
"""
from __future__ import annotations

from fractions import Fraction
from typing import Optional


class Lin:
    """sum(coef * sym) + const"""

    __slots__ = ("terms", "const")

    def __init__(self, terms=None, const=0):
        self.terms = {k: Fraction(v) for k, v in (terms or {}).items() if v != 0}
        self.const = Fraction(const)

    @staticmethod
    def sym(name: str) -> "Lin":
        return Lin({name: 1}, 0)

    @staticmethod
    def c(v) -> "Lin":
        return Lin({}, v)

    def is_const(self) -> bool:
        return not self.terms

    def __add__(self, o):
        o = _lin(o)
        t = dict(self.terms)
        for k, v in o.terms.items():
            t[k] = t.get(k, 0) + v
        return Lin(t, self.const + o.const)

    __radd__ = __add__

    def __neg__(self):
        return Lin({k: -v for k, v in self.terms.items()}, -self.const)

    def __sub__(self, o):
        return self + (-_lin(o))

    def __rsub__(self, o):
        return _lin(o) - self

    def scale(self, k) -> "Lin":
        k = Fraction(k)
        return Lin({s: v * k for s, v in self.terms.items()}, self.const * k)

    def syms(self):
        return set(self.terms)

    def __repr__(self):
        parts = []
        for k, v in sorted(self.terms.items()):
            if v == 1:
                parts.append(k)
            elif v == -1:
                parts.append("-" + k)
            else:
                parts.append(f"{v}*{k}")
        if self.const != 0 or not parts:
            parts.append(str(self.const))
        return " + ".join(parts).replace("+ -", "- ")

    def key(self):
        return (tuple(sorted(self.terms.items())), self.const)


def _lin(x) -> Lin:
    return x if isinstance(x, Lin) else Lin({}, x)


class Store:
    """conjunction of constraints  e <= 0"""

    def __init__(self, cons=None):
        self.cons: list[Lin] = list(cons or [])
        self._keys = {c.key() for c in self.cons}

    def copy(self) -> "Store":
        s = Store()
        s.cons = list(self.cons)
        s._keys = set(self._keys)
        return s

    def add_le(self, a, b):
        """a <= b"""
        e = _lin(a) - _lin(b)
        if e.is_const():
            if e.const > 0:
                self.cons.append(e)  # inconsistent store (dead path)
                self._keys.add(e.key())
            return
        k = e.key()
        if k not in self._keys:
            self._keys.add(k)
            self.cons.append(e)

    def add_lt(self, a, b):
        self.add_le(_lin(a) + 1, b)

    def add_eq(self, a, b):
        self.add_le(a, b)
        self.add_le(b, a)

    def infeasible(self, extra: Optional[list] = None, focus=None) -> bool:
        cons = list(self.cons) + list(extra or [])
        return _fm_infeasible(cons, focus)

    def entails_le(self, a, b) -> bool:
        """store |= a <= b   (integers: refute a >= b + 1)"""
        goal = _lin(b) - _lin(a) + 1  # b - a + 1 <= 0  <=>  a >= b+1
        if goal.is_const():
            # a - b is constant
            return (_lin(a) - _lin(b)).const <= 0 or self.infeasible()
        return self.infeasible([goal], focus=goal.syms())

    def entails_lt(self, a, b) -> bool:
        return self.entails_le(_lin(a) + 1, b)

    def entails_eq(self, a, b) -> bool:
        return self.entails_le(a, b) and self.entails_le(b, a)

    def is_dead(self) -> bool:
        return self.infeasible()

    def bounds(self, e: Lin):
        """(lo, hi) of e when provable by single-constraint reasoning, via FM on a fresh symbol."""
        lo = hi = None
        # try to find constant bounds by bisection-free approach: eliminate all syms
        cons = list(self.cons)
        t = "__t"
        cons.append(Lin.sym(t) - e)  # t - e <= 0
        cons.append(e - Lin.sym(t))  # e - t <= 0
        res = _fm_project(cons, keep=t)
        for c in res:
            co = c.terms.get(t, 0)
            if co > 0:  # co*t + k <= 0 -> t <= -k/co
                v = -c.const / co
                hi = v if hi is None else min(hi, v)
            elif co < 0:
                v = -c.const / co  # t >= ...
                lo = v if lo is None else max(lo, v)
        return lo, hi


def _connected(cons, focus):
    if focus is None:
        return cons
    focus = set(focus)
    changed = True
    chosen = [False] * len(cons)
    while changed:
        changed = False
        for i, c in enumerate(cons):
            if not chosen[i] and (c.syms() & focus or not c.terms):
                chosen[i] = True
                if not c.syms() <= focus:
                    focus |= c.syms()
                changed = True
    return [c for i, c in enumerate(cons) if chosen[i]]


def _dedup(cons):
    out = {}
    for c in cons:
        if c.is_const():
            if c.const > 0:
                return None  # contradiction
            continue
        # normalise by gcd-free scaling: divide by abs of first coef
        first = sorted(c.terms.items())[0][1]
        k = abs(first)
        n = Lin({s: v / k for s, v in c.terms.items()}, c.const / k)
        tk = tuple(sorted(n.terms.items()))
        # keep the tightest (largest const)
        if tk not in out or out[tk].const < n.const:
            out[tk] = n
    return list(out.values())


def _eliminate(cons, var):
    pos, neg, rest = [], [], []
    for c in cons:
        co = c.terms.get(var, 0)
        if co > 0:
            pos.append(c)
        elif co < 0:
            neg.append(c)
        else:
            rest.append(c)
    for p in pos:
        for n in neg:
            cp = p.terms[var]
            cn = -n.terms[var]
            rest.append(p.scale(cn) + n.scale(cp))
    return rest


def _fm_infeasible(cons, focus=None) -> bool:
    cons = _connected(cons, focus)
    cons = _dedup(cons)
    if cons is None:
        return True
    while True:
        syms = set()
        for c in cons:
            syms |= c.syms()
        if not syms:
            return False
        # pick the variable minimising pos*neg products
        best = None
        for s in syms:
            p = sum(1 for c in cons if c.terms.get(s, 0) > 0)
            n = sum(1 for c in cons if c.terms.get(s, 0) < 0)
            score = p * n - p - n
            if best is None or score < best[0]:
                best = (score, s)
        cons = _eliminate(cons, best[1])
        cons = _dedup(cons)
        if cons is None:
            return True
        if len(cons) > 4000:
            return False  # give up: not proven


def _fm_project(cons, keep):
    cons = _connected(cons, {keep})
    cons = _dedup(cons)
    if cons is None:
        return [Lin({}, 1)]
    while True:
        syms = set()
        for c in cons:
            syms |= c.syms()
        syms.discard(keep)
        if not syms:
            return cons
        best = None
        for s in syms:
            p = sum(1 for c in cons if c.terms.get(s, 0) > 0)
            n = sum(1 for c in cons if c.terms.get(s, 0) < 0)
            score = p * n - p - n
            if best is None or score < best[0]:
                best = (score, s)
        cons = _eliminate(cons, best[1])
        cons = _dedup(cons)
        if cons is None:
            return [Lin({}, 1)]
        if len(cons) > 4000:
            return []
