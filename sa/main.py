"""Driver: ./check <property> [--tier quick|thorough] [--repo DIR] [--explain FILE]"""
from __future__ import annotations

import argparse
import importlib
import json
import os
import sys

HERE = os.path.dirname(os.path.abspath(__file__))
VERIF = os.path.dirname(HERE)
sys.path.insert(0, VERIF)

from sa.report import AnalysisError, Check, run_guarded  # noqa: E402


def self_check() -> int:
    """setup_cmd: nothing to build; verify the tools the checks need are present."""
    import subprocess

    from sa.cbounds import find_python_include

    def run():
        inc = find_python_include()
        p = subprocess.run(["clang", "--version"], capture_output=True, text=True)
        if p.returncode != 0:
            raise AnalysisError("clang not runnable")
        print("python", sys.version.split()[0], "| clang", p.stdout.splitlines()[0], "| Python.h in", inc)
        print("setup ok: nothing to build, checks analyse /repo sources directly")
        return 0

    return run_guarded(run)


def main() -> int:
    if len(sys.argv) > 1 and sys.argv[1] == "--self-check":
        return self_check()
    ap = argparse.ArgumentParser()
    ap.add_argument("property")
    ap.add_argument("--tier", default=os.environ.get("VERIF_TIER") or "quick", choices=["quick", "thorough"])
    ap.add_argument("--repo", default=os.environ.get("VERIF_REPO", "/repo"))
    ap.add_argument("--explain", default=None)
    ap.add_argument("--replay", default=None)
    ap.add_argument("--no-selftest", action="store_true")
    ap.add_argument("--no-evidence", action="store_true", help="do not write evidence/violation files (scratch runs)")
    args = ap.parse_args()
    pid = args.property.upper()

    def run() -> int:
        try:
            mod = importlib.import_module(f"rules.{pid.lower()}")
        except ModuleNotFoundError as exc:
            raise AnalysisError(f"no rule set for {pid}: {exc}")
        from sa.pyfacts import Repo

        repo = Repo(args.repo)
        chk = Check(pid, getattr(mod, "LEVEL", "other"), args.tier, args.repo)
        chk.count("source_digest", repo.digest)
        chk.count("python_modules", len(repo.modules))
        # functions whose local vocabulary was normalised before the rules ran (sa/alpha.py); empty on the reference tree
        chk.count("vocabulary_normalised_functions", {f"{m}:{q}": e for m, lg in sorted(repo.alpha_log.items()) for q, e in sorted(lg.items())})
        chk.count("python_functions", sum(len(m.functions) for m in repo.modules.values()))
        mod.run(repo, chk)
        explain = args.explain or args.replay
        if explain:
            with open(explain) as fp:
                want = json.load(fp)["obligation"]
            for o in chk.obligations:
                if o.rule == want["rule"] and o.key == want["key"]:
                    print(json.dumps(o.as_dict(), indent=1, default=str))
                    print("rule:", chk.rules.get(o.rule.split(".")[0], ""))
                    return 0 if o.ok else 1
            print("obligation no longer generated (construct vanished)")
            return 1
        rc = chk.finish(write=not args.no_evidence)
        if rc == 0 and args.tier == "thorough" and not args.no_selftest:
            from selftest.runner import run_for_property

            rc = run_for_property(pid, args.repo)
        return rc

    return run_guarded(run)


if __name__ == "__main__":
    sys.exit(main())
