"""Obligation bookkeeping, evidence writer and the exit-code contract.

exit 0  every obligation discharged (known findings are printed as KNOWN-FINDING lines)
exit 1  at least one obligation failed and is not listed in known_findings.json
exit 2  the analysis itself could not run (missing anchor, unsupported syntax, traceback)
"""
from __future__ import annotations

import hashlib
import json
import os
import sys
import time
import traceback

VERIF = os.path.dirname(os.path.dirname(os.path.abspath(__file__)))
EVIDENCE_DIR = os.path.join(VERIF, "evidence")
KNOWN_FINDINGS = os.path.join(VERIF, "known_findings.json")


class AnalysisError(Exception):
    """The analysis cannot be carried out (anchor vanished, unsupported construct)."""


class Obligation:
    __slots__ = ("rule", "key", "ok", "msg", "loc", "detail")

    def __init__(self, rule, key, ok, msg, loc, detail):
        self.rule, self.key, self.ok, self.msg, self.loc, self.detail = (
            rule,
            key,
            ok,
            msg,
            loc,
            detail,
        )

    def as_dict(self):
        d = {"rule": self.rule, "key": self.key, "ok": self.ok, "msg": self.msg}
        if self.loc:
            d["loc"] = self.loc
        if self.detail is not None:
            d["detail"] = self.detail
        return d


def load_known_findings():
    if not os.path.exists(KNOWN_FINDINGS):
        return []
    with open(KNOWN_FINDINGS) as fp:
        return json.load(fp)["findings"]


class Check:
    """One run of one property's rule set."""

    def __init__(self, property_id: str, level: str, tier: str, repo_root: str):
        self.pid = property_id
        self.level = level
        self.tier = tier
        self.repo_root = repo_root
        self.obligations: list[Obligation] = []
        self.assumptions: list[str] = []
        self.not_decided: list[str] = []
        self.trusted_base: list[str] = []
        self.analysed: dict = {}
        self.rules: dict[str, str] = {}
        self.notes: list[str] = []
        self.t0 = time.time()
        self._keys: set = set()

    # ---- recording -----------------------------------------------------
    def rule(self, rid: str, text: str):
        self.rules[rid] = text

    def ob(self, rule: str, key: str, ok: bool, msg: str = "", loc: str = "", detail=None):
        """Record one decided obligation.  `key` identifies the construct
        (function + normalised statement / table cell), never a line number."""
        full = f"{rule}|{key}"
        n = 2
        while full in self._keys:  # same construct twice in one function
            full = f"{rule}|{key}#{n}"
            n += 1
        self._keys.add(full)
        if full != f"{rule}|{key}":
            key = full.split("|", 1)[1]
        self.obligations.append(Obligation(rule, key, bool(ok), msg, loc, detail))
        return bool(ok)

    def count(self, name: str, value):
        self.analysed[name] = value

    def assume(self, text: str):
        if text not in self.assumptions:
            self.assumptions.append(text)

    def decline(self, text: str):
        if text not in self.not_decided:
            self.not_decided.append(text)

    def trust(self, text: str):
        if text not in self.trusted_base:
            self.trusted_base.append(text)

    # ---- finishing -----------------------------------------------------
    def finish(self, write: bool = True) -> int:
        known = [k for k in load_known_findings() if k.get("property") == self.pid]
        open_known = {
            (k["rule"], k["key"]): k for k in known if k.get("status", "open") == "open"
        }
        failed = [o for o in self.obligations if not o.ok]
        violations = []
        known_hits = []
        for o in failed:
            k = open_known.get((o.rule, o.key))
            if k is not None:
                known_hits.append((o, k))
            else:
                violations.append(o)

        vdir = os.path.join(EVIDENCE_DIR, "violations")
        if not write:
            for o, k in known_hits:
                print(f"KNOWN-FINDING: property={self.pid} {o.rule} {o.key}: {k.get('what', o.msg)}")
            for o in violations:
                print(f"  {o.rule} {o.key} @ {o.loc}: {o.msg}")
                print(f"VIOLATION property={self.pid} replay=-")
            print(f"{self.pid}: {len(self.obligations)} obligations, {len(violations)} violations (scratch run, no evidence written)")
            return 1 if violations else 0
        # clear stale violation files of this property
        if os.path.isdir(vdir):
            for f in os.listdir(vdir):
                if f.startswith(self.pid + "-"):
                    os.unlink(os.path.join(vdir, f))
        for o, k in known_hits:
            print(f"KNOWN-FINDING: property={self.pid} {o.rule} {o.key}: {k.get('what', o.msg)}")
        for i, o in enumerate(violations):
            os.makedirs(vdir, exist_ok=True)
            path = os.path.join(vdir, f"{self.pid}-{i}.json")
            with open(path, "w") as fp:
                json.dump(
                    {
                        "property_id": self.pid,
                        "obligation": o.as_dict(),
                        "rule_text": self.rules.get(o.rule.split(".")[0], self.rules.get(o.rule, "")),
                        "repo_root": self.repo_root,
                    },
                    fp,
                    indent=1,
                )
            print(f"  {o.rule} {o.key} @ {o.loc}: {o.msg}")
            print(f"VIOLATION property={self.pid} replay={path}")

        self._write_evidence(violations, known_hits)
        n = len(self.obligations)
        print(
            f"{self.pid}: {n} obligations, {n - len(failed)} discharged, "
            f"{len(known_hits)} known findings, {len(violations)} violations "
            f"[{time.time() - self.t0:.2f}s]"
        )
        return 1 if violations else 0

    def _write_evidence(self, violations, known_hits):
        os.makedirs(EVIDENCE_DIR, exist_ok=True)
        obs = self.obligations
        discharged = [o for o in obs if o.ok]
        distinct = {(o.rule, o.key) for o in obs}
        by_rule: dict[str, list[int]] = {}
        for o in obs:
            r = by_rule.setdefault(o.rule, [0, 0])
            r[0] += 1
            r[1] += 1 if o.ok else 0
        # samples: a few real obligations per rule, failing ones first
        samples = []
        seen_rules: dict[str, int] = {}
        for o in sorted(obs, key=lambda o: o.ok):
            c = seen_rules.get(o.rule, 0)
            if c < 2 or not o.ok:
                samples.append(o.as_dict())
                seen_rules[o.rule] = c + 1
            if len(samples) >= 60:
                break
        level = self.level
        if level == "proof" and (len(discharged) != len(obs)):
            # a proof-level claim needs every obligation discharged; with listed
            # findings open the run is reported at level "other"
            level = "other"
        try:
            from .q import Fn as _Fn

            self.analysed["functions_consulted"] = len(_Fn.consulted)
        except Exception:
            pass
        cov = {
            "explanation": (
                "Static analysis of the current working tree under %s: every rule below is "
                "evaluated on the AST / CFG / call graph of the sources; nothing is executed. "
                "Declined clauses are listed under not_decided." % self.repo_root
            ),
            "rule": "; ".join(f"{k}: {v}" for k, v in self.rules.items()),
            "obligations": len(obs),
            "discharged": len(discharged),
            "evaluations": max(len(obs), 1),
            "distinct_nontrivial": len(distinct),
            "exhaustive": True,
            "per_rule": {k: {"obligations": v[0], "discharged": v[1]} for k, v in sorted(by_rule.items())},
            "samples": samples or [{"note": "no obligations generated"}],
            "analysed": self.analysed,
            "checker_cmd": f"./check {self.pid} --tier {self.tier}",
            "trusted_base": self.trusted_base,
            "not_decided": self.not_decided,
            "known_findings_present": [
                {"rule": o.rule, "key": o.key, "what": k.get("what", "")} for o, k in known_hits
            ],
            "notes": self.notes,
            "source_digest": self.analysed.get("source_digest", ""),
        }
        ev = {
            "property_id": self.pid,
            "tier": self.tier,
            "seed": int(os.environ.get("VERIF_SEED", "0") or 0),
            "level": level,
            "coverage": cov,
            "assumptions": self.assumptions,
            "wall_s": round(time.time() - self.t0, 3),
            "violations": len(violations),
        }
        with open(os.path.join(EVIDENCE_DIR, f"{self.pid}.json"), "w") as fp:
            json.dump(ev, fp, indent=1, default=str)


def digest_files(paths) -> str:
    h = hashlib.sha256()
    for p in sorted(paths):
        h.update(p.encode())
        with open(p, "rb") as fp:
            h.update(fp.read())
    return h.hexdigest()[:16]


def run_guarded(fn) -> int:
    """Run fn(); map AnalysisError / unexpected tracebacks to exit code 2."""
    try:
        return fn()
    except AnalysisError as exc:
        print(f"ANALYSIS-ERROR {exc}")
        return 2
    except SystemExit:
        raise
    except BaseException:
        traceback.print_exc()
        print("ANALYSIS-ERROR unexpected exception in the analysis (see traceback)")
        return 2
