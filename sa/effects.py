"""E5 - effects: store targets, calls of a statement, purity / freshness summaries over the
resolved call graph (sa/flow.py)."""
from __future__ import annotations

import ast

from .flow import FuncRef, Program
from .pyfacts import attr_chain, norm, stmts_of, walk_no_nested

PURE_BUILTINS = {
    "len", "str", "int", "float", "bool", "hex", "repr", "sorted", "list", "dict", "tuple", "min", "max", "sum", "any", "all",
    "isinstance", "enumerate", "zip", "range", "round", "abs", "bytes", "set", "frozenset", "reversed", "map", "filter", "type", "id",
}
PURE_METHODS = {"hex", "decode", "encode", "join", "format", "get", "items", "keys", "values", "copy", "upper", "lower", "startswith", "endswith", "split", "strip", "to_bytes", "total_seconds", "isoformat"}
PURE_EXT = {"binascii.hexlify", "binascii.unhexlify", "time.time", "os.getpid", "json.dumps", "datetime.now"}
MUTATORS = {"append", "add", "pop", "clear", "subtract", "shift", "insert", "extend", "update", "remove", "popleft", "appendleft", "discard", "setdefault", "sort", "reverse", "write", "flush", "close", "send", "put"}


def _store_targets(st):
    if isinstance(st, ast.Assign):
        for t in st.targets:
            yield from _flat(t)
    elif isinstance(st, (ast.AugAssign, ast.AnnAssign)):
        yield from _flat(st.target)
    elif isinstance(st, (ast.For, ast.AsyncFor)):
        yield from _flat(st.target)
    elif isinstance(st, (ast.With, ast.AsyncWith)):
        for it in st.items:
            if it.optional_vars is not None:
                yield from _flat(it.optional_vars)


def _flat(t):
    if isinstance(t, (ast.Tuple, ast.List)):
        for e in t.elts:
            yield from _flat(e)
    elif isinstance(t, ast.Starred):
        yield from _flat(t.value)
    else:
        yield t


def _own_exprs(st):
    if isinstance(st, (ast.FunctionDef, ast.AsyncFunctionDef, ast.ClassDef)):
        return
    for field, value in ast.iter_fields(st):
        if field in ("body", "orelse", "finalbody", "handlers", "cases"):
            continue
        vals = value if isinstance(value, list) else [value]
        for v in vals:
            if isinstance(v, ast.AST):
                yield v


def _calls_of(st):
    for v in _own_exprs(st):
        for n in walk_no_nested(v):
            if isinstance(n, ast.Call):
                yield n



class Purity:
    """a function is pure when, transitively, it stores to no attribute/subscript of self, a
    parameter or a global, calls no mutator method on them, and calls only pure callees"""

    def __init__(self, prog: Program, l_class_funcs=frozenset()):
        self.prog = prog
        self.memo: dict[int, tuple] = {}
        self.l_class_funcs = l_class_funcs

    def ctor_pure(self, cls: str):
        m = self.prog.classes.get(cls)
        if m is None:
            return True, ""
        for fr in self.prog.class_methods(cls, "__init__", with_subclasses=False):
            return self.pure(fr, ctor=True)
        return True, ""

    def pure(self, fr: FuncRef, ctor=False, depth=0, params_ok=False):
        """params_ok: writes through the function's own (non-self) parameters are tolerated - the
        caller decides whether the objects it passes are its own fresh locals"""
        k = (id(fr.node), params_ok)
        if k in self.memo:
            return self.memo[k]
        self.memo[k] = (True, "")  # optimistic for recursion
        self._params_ok = params_ok
        res = self._pure(fr, ctor, depth)
        self.memo[k] = res
        return res

    def callees(self, fr, c):
        """resolved callees, including super().m()"""
        f = c.func
        if isinstance(f, ast.Attribute) and isinstance(f.value, ast.Call) and isinstance(f.value.func, ast.Name) and f.value.func.id == "super":
            cls = getattr(fr.node, "_class", None)
            out = []
            if cls is not None:
                for b in cls.bases:
                    bn = attr_chain(b)
                    if bn:
                        out += self.prog.class_methods(bn.split(".")[-1], f.attr, with_subclasses=False)
            return out
        return self.prog.resolve_call(fr, c)

    def returns_fresh(self, fr, depth=0) -> bool:
        """every value returned is a container literal or a fresh local"""
        if depth > 4:
            return False
        fresh = self.fresh_locals(fr, depth + 1)
        rets = [st for st in stmts_of(fr.node) if isinstance(st, ast.Return) and st.value is not None]
        if not rets:
            return False
        for r in rets:
            v = r.value
            if isinstance(v, (ast.List, ast.Dict, ast.Set, ast.ListComp, ast.DictComp, ast.SetComp, ast.JoinedStr, ast.Constant)):
                continue
            if isinstance(v, ast.Name) and v.id in fresh:
                continue
            return False
        return True

    def fresh_locals(self, fr, depth=0) -> set:
        key = ("fresh", id(fr.node))
        if key in self.memo:
            return self.memo[key]
        self.memo[key] = set()
        node = fr.node
        a = node.args
        params = [x.arg for x in a.posonlyargs + a.args + a.kwonlyargs]
        fresh = set()
        multi = {}
        for st in stmts_of(node):
            tv = None
            if isinstance(st, ast.Assign):
                for t in st.targets:
                    for n in ast.walk(t):
                        if isinstance(n, ast.Name) and isinstance(n.ctx, ast.Store):
                            multi[n.id] = multi.get(n.id, 0) + 1
                if len(st.targets) == 1 and isinstance(st.targets[0], ast.Name):
                    tv = (st.targets[0].id, st.value)
            elif isinstance(st, ast.AnnAssign) and isinstance(st.target, ast.Name) and st.value is not None:
                multi[st.target.id] = multi.get(st.target.id, 0) + 1
                tv = (st.target.id, st.value)
            elif isinstance(st, (ast.For, ast.AsyncFor)):
                for n in ast.walk(st.target):
                    if isinstance(n, ast.Name):
                        multi[n.id] = multi.get(n.id, 0) + 2
            if tv is None:
                continue
            name, v = tv
            if isinstance(v, (ast.List, ast.Dict, ast.Set, ast.ListComp, ast.DictComp, ast.SetComp, ast.Constant, ast.JoinedStr, ast.Tuple, ast.BinOp)) or (isinstance(v, ast.Call) and isinstance(v.func, ast.Name) and (v.func.id in PURE_BUILTINS)):
                fresh.add(name)
            elif isinstance(v, ast.Call):
                cals = self.callees(fr, v)
                if cals and all((isinstance(c, FuncRef) and self.returns_fresh(c, depth + 1)) or (not isinstance(c, FuncRef) and c[0] == "ctor") for c in cals):
                    fresh.add(name)
        fresh = {x for x in fresh if multi.get(x, 0) == 1 and x not in params}
        self.memo[key] = fresh
        return fresh

    def param_effects(self, fr: FuncRef, depth=0):
        """(why_impure_beyond_params | None, set of own parameter names written through).
        A function with (None, W) only changes objects reachable from the parameters in W."""
        k = ("pe", id(fr.node))
        if k in self.memo:
            return self.memo[k]
        self.memo[k] = (None, set())
        if depth > 8:
            self.memo[k] = ("call depth", set())
            return self.memo[k]
        node = fr.node
        a = node.args
        params = [x.arg for x in a.posonlyargs + a.args + a.kwonlyargs]
        fresh = self.fresh_locals(fr)
        why = None
        written: set = set()

        def root_of(e):
            n = e
            while isinstance(n, (ast.Attribute, ast.Subscript, ast.Starred)):
                n = n.value
            return n

        def touch(e, what):
            nonlocal why
            r = root_of(e)
            if isinstance(r, ast.Name):
                if r.id in fresh:
                    return
                if r.id in params and r.id not in ("self", "cls"):
                    written.add(r.id)
                    return
                why = why or f"{what} `{norm(e)[:50]}`"
            elif not isinstance(r, (ast.Call, ast.Constant, ast.List, ast.Dict, ast.Tuple)):
                why = why or f"{what} `{norm(e)[:50]}`"

        for st in stmts_of(node):
            for t in _store_targets(st):
                if not isinstance(t, ast.Name):
                    touch(t, "writes")
            if isinstance(st, (ast.Global, ast.Nonlocal)):
                why = why or "global/nonlocal"
            if isinstance(st, ast.Delete):
                for t in st.targets:
                    if not isinstance(t, ast.Name):
                        touch(t, "deletes")
            for c in _calls_of(st):
                f = c.func
                cals = self.callees(fr, c)
                if isinstance(f, ast.Attribute) and f.attr in MUTATORS and not any(isinstance(x, FuncRef) for x in cals):
                    touch(f.value, "mutates")
                for cal in cals:
                    if isinstance(cal, FuncRef):
                        if cal.node is node:
                            continue
                        if cal.node.name == "__init__" and not (isinstance(f, ast.Attribute) and f.attr == "__init__"):
                            # constructor call: writes to the new object are not effects
                            if not self._self_only(cal, depth + 1)[0]:
                                why = why or f"constructs through {cal.ref} with outside effects"
                            continue
                        w2, wr2 = self.param_effects(cal, depth + 1)
                        if w2:
                            # a method that writes its own object: an effect on the receiver
                            if getattr(cal.node, "_class", None) is not None and isinstance(f, ast.Attribute) and w2.startswith(("writes `self.", "mutates `self.", "deletes `self.")):
                                touch(f.value, "mutates")
                                sub, _ = self._self_only(cal, depth + 1)
                                if not sub:
                                    why = why or f"calls {cal.ref} ({w2})"
                            else:
                                why = why or f"calls {cal.ref} ({w2})"
                        ca = cal.node.args
                        cps = [x.arg for x in ca.posonlyargs + ca.args]
                        if cps and cps[0] in ("self", "cls") and isinstance(f, ast.Attribute):
                            cps = cps[1:]
                        for q in wr2:
                            arg = None
                            if q in cps and cps.index(q) < len(c.args):
                                arg = c.args[cps.index(q)]
                            for kw in c.keywords:
                                if kw.arg == q:
                                    arg = kw.value
                            if arg is not None:
                                touch(arg, "passes for writing")
                    elif cal[0] == "ctor":
                        p_, w_ = self.ctor_pure(cal[1])
                        if not p_:
                            why = why or f"constructs {cal[1]} ({w_})"
                    elif cal[0] == "c" and cal[1].split(".")[-1].startswith(("pull_", "push_", "seek")) and isinstance(f, ast.Attribute):
                        touch(f.value, "advances")
        self.memo[k] = (why, written)
        return self.memo[k]

    def _self_only(self, fr, depth):
        """the method's effects beyond its parameters are confined to its own object (self.*)"""
        k = ("so", id(fr.node))
        if k in self.memo:
            return self.memo[k]
        self.memo[k] = (True, "")
        ok = True
        for st in stmts_of(fr.node):
            for t in _store_targets(st):
                if isinstance(t, ast.Name):
                    continue
                r = t
                while isinstance(r, (ast.Attribute, ast.Subscript)):
                    r = r.value
                if not (isinstance(r, ast.Name) and (r.id == "self" or r.id in self.fresh_locals(fr))):
                    a = fr.node.args
                    if not (isinstance(r, ast.Name) and r.id in [x.arg for x in a.args]):
                        ok = False
            for c in _calls_of(st):
                for cal in self.callees(fr, c):
                    if isinstance(cal, FuncRef) and cal.node is not fr.node:
                        w2, _ = self.param_effects(cal, depth + 1)
                        if w2 and not (isinstance(c.func, ast.Attribute) and isinstance(c.func.value, ast.Name) and c.func.value.id == "self" and self._self_only(cal, depth + 1)[0]):
                            if not (isinstance(c.func, ast.Attribute) and norm(c.func.value).startswith("self.") and self._self_only(cal, depth + 1)[0]):
                                ok = False
        self.memo[k] = (ok, "")
        return self.memo[k]

    @staticmethod
    def _args_local(call, fresh, params):
        """every argument of the call is a constant, a fresh local or one of the caller's own parameters"""
        for a in list(call.args) + [k.value for k in call.keywords]:
            root = a
            while isinstance(root, (ast.Attribute, ast.Subscript, ast.Starred)):
                root = root.value
            if isinstance(root, ast.Constant):
                continue
            if isinstance(root, ast.Name) and (root.id in fresh or (root.id in params and root.id not in ("self", "cls"))):
                continue
            if isinstance(root, ast.Call) or isinstance(root, (ast.BinOp, ast.Compare, ast.JoinedStr, ast.Tuple, ast.List, ast.Dict)):
                continue
            return False
        return True

    def _pure(self, fr, ctor, depth):
        if depth > 8:
            return False, "call depth"
        node = fr.node
        a = node.args
        params = [x.arg for x in a.posonlyargs + a.args + a.kwonlyargs]
        fresh = self.fresh_locals(fr)

        params_ok = getattr(self, "_params_ok", False)

        def rooted_outside(e):
            n = e
            while isinstance(n, (ast.Attribute, ast.Subscript)):
                n = n.value
            if isinstance(n, ast.Name):
                if n.id in fresh:
                    return False
                if ctor and n.id == "self":
                    return False
                if params_ok and n.id in params and n.id not in ("self", "cls"):
                    return False
                return True
            return not isinstance(n, (ast.Call, ast.Constant, ast.List, ast.Dict, ast.Tuple))

        for st in stmts_of(node):
            for t in _store_targets(st):
                if isinstance(t, ast.Name):
                    continue
                if rooted_outside(t):
                    return False, f"writes `{norm(t)[:50]}`"
            if isinstance(st, (ast.Global, ast.Nonlocal)):
                return False, "global/nonlocal"
            if isinstance(st, ast.Delete):
                for t in st.targets:
                    if not isinstance(t, ast.Name) and rooted_outside(t):
                        return False, f"deletes `{norm(t)[:50]}`"
            for c in _calls_of(st):
                f = c.func
                if isinstance(f, ast.Attribute) and f.attr in MUTATORS and rooted_outside(f.value):
                    return False, f"mutates through `{norm(f)[:50]}`"
                for cal in self.callees(fr, c):
                    if isinstance(cal, FuncRef):
                        if cal.node is node:
                            continue
                        p, why = self.pure(cal, depth=depth + 1, params_ok=params_ok and self._args_local(c, fresh, params))
                        self._params_ok = params_ok
                        if not p:
                            return False, f"calls {cal.ref} ({why})"
                    elif cal[0] == "ctor":
                        p, why = self.ctor_pure(cal[1])
                        if not p:
                            return False, f"constructs {cal[1]} ({why})"
                    elif cal[0] == "c" and cal[1].split(".")[-1].startswith(("pull_", "push_", "seek")) and rooted_outside(f.value if isinstance(f, ast.Attribute) else f):
                        return False, f"C method {cal[1]} on a non-local buffer"
        return True, ""


