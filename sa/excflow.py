"""E4 - interprocedural exception-escape analysis.

For every function: the set of (exception class, origin statement) that may
propagate out of it, as a least fixpoint over the resolved call graph
(sa/flow.py).  Sources: raise, assert, C helper methods, a table of
third-party calls, and partial operations (decode, constant index into parsed
lists, pop on possibly-empty containers, dict subscripts on instance tables,
tuple-unpacking of split(), None-dereference of Optional message fields).
Sinks: try/except with the class hierarchy.  A source may carry a
*precondition* (the negation of its raise condition) that a call site can
establish by a dominating guard - that is how asserts and guarded pops are
discharged, never by a blanket suppression.
"""
from __future__ import annotations

import ast
import re
import json
import os
from typing import Optional

from .flow import FuncRef, Program
from .linear import Lin
from .pyfacts import Unknown, attr_chain, call_name, norm, stmts_of, walk_no_nested
from .q import Fn, atoms_of, clone, flatten_cond
from .report import VERIF, AnalysisError

BUILTIN_HIER = {
    "BaseException": None,
    "Exception": "BaseException",
    "ArithmeticError": "Exception",
    "ZeroDivisionError": "ArithmeticError",
    "OverflowError": "ArithmeticError",
    "AssertionError": "Exception",
    "AttributeError": "Exception",
    "LookupError": "Exception",
    "IndexError": "LookupError",
    "KeyError": "LookupError",
    "MemoryError": "Exception",
    "NameError": "Exception",
    "OSError": "Exception",
    "ConnectionError": "OSError",
    "RuntimeError": "Exception",
    "NotImplementedError": "RuntimeError",
    "RecursionError": "RuntimeError",
    "StopIteration": "Exception",
    "TypeError": "Exception",
    "ValueError": "Exception",
    "UnicodeError": "ValueError",
    "UnicodeDecodeError": "UnicodeError",
    "UnicodeEncodeError": "UnicodeError",
    # third party (documented bases)
    "InvalidSignature": "Exception",
    "X509StoreContextError": "Exception",
    "VerificationError": "Exception",
    "CertificateError": "Exception",
    "DecompressionFailed": "Exception",
    "StreamBlocked": "Exception",
    "EncoderStreamError": "Exception",
    "DecoderStreamError": "Exception",
    "UnsupportedAlgorithm": "Exception",
    "InvalidStateError": "Exception",
}

# S3: C helper methods (the raisable classes are cross-checked against the C raise summary by rules/c05.py)
C_RAISES = {
    "Buffer.pull_bytes": ["BufferReadError"],
    "Buffer.pull_uint8": ["BufferReadError"],
    "Buffer.pull_uint16": ["BufferReadError"],
    "Buffer.pull_uint32": ["BufferReadError"],
    "Buffer.pull_uint64": ["BufferReadError"],
    "Buffer.pull_uint_var": ["BufferReadError"],
    "Buffer.seek": ["BufferReadError"],  # only with an unsafe position argument
    "Buffer.data_slice": ["BufferReadError"],  # only with unsafe position arguments
    "AEAD.decrypt": ["CryptoError"],
    "AEAD.encrypt": ["CryptoError"],
    "HeaderProtection.apply": ["CryptoError"],
    "HeaderProtection.remove": ["CryptoError"],
    "AEAD.__init__": ["CryptoError"],
    "HeaderProtection.__init__": ["CryptoError"],
}

# S4: third-party calls, matched by the trailing dotted name of the resolved callee
EXT_RAISES = {
    "X25519PublicKey.from_public_bytes": (["ValueError"], "cryptography: from_public_bytes raises ValueError for a key that is not 32 bytes"),
    "X448PublicKey.from_public_bytes": (["ValueError"], "cryptography: ValueError for a key that is not 56 bytes"),
    "EllipticCurvePublicKey.from_encoded_point": (["ValueError"], "cryptography: ValueError for a point not on the curve / bad encoding"),
    "x509.load_der_x509_certificate": (["ValueError"], "cryptography: ValueError for malformed DER"),
    "x509.load_pem_x509_certificate": (["ValueError"], "cryptography: ValueError for malformed PEM"),
    ".verify": (["InvalidSignature"], "cryptography public keys: verify raises InvalidSignature"),
    ".exchange": (["ValueError"], "cryptography: exchange raises ValueError for a low-order / mismatching peer key"),
    "store_ctx.verify_certificate": (["X509StoreContextError"], "pyOpenSSL"),
    "X509StoreContext.verify_certificate": (["X509StoreContextError"], "pyOpenSSL"),
    "verify_certificate_hostname": (["VerificationError", "CertificateError"], "service_identity"),
    "verify_certificate_ip_address": (["VerificationError", "CertificateError"], "service_identity"),
    "ipaddress.ip_address": (["ValueError"], "stdlib"),
    "ipaddress.IPv4Address": (["ValueError"], "stdlib: AddressValueError is a ValueError"),
    "ipaddress.IPv6Address": (["ValueError"], "stdlib"),
    "Decoder.feed_header": (["DecompressionFailed", "StreamBlocked"], "pylsqpack"),
    "Decoder.resume_header": (["DecompressionFailed", "StreamBlocked"], "pylsqpack"),
    "Decoder.feed_encoder": (["EncoderStreamError"], "pylsqpack"),
    "Encoder.feed_decoder": (["DecoderStreamError"], "pylsqpack"),
    "_decoder.feed_header": (["DecompressionFailed", "StreamBlocked"], "pylsqpack"),
    "_decoder.resume_header": (["DecompressionFailed", "StreamBlocked"], "pylsqpack"),
    "_decoder.feed_encoder": (["EncoderStreamError"], "pylsqpack"),
    "_encoder.feed_decoder": (["DecoderStreamError"], "pylsqpack"),
    "AESGCM": ([], "cryptography: constructor with a constant 16-byte key"),
}

OPTIONAL_MESSAGE_CLASSES = ("ClientHello", "ServerHello", "EncryptedExtensions", "NewSessionTicket", "CertificateRequest", "Certificate")


class Item:
    __slots__ = ("cls", "origin", "loc", "chain", "pre", "why")

    def __init__(self, cls, origin, loc, chain=(), pre=None, why=""):
        self.cls = cls
        self.origin = origin  # 'module:func: normalised statement'
        self.loc = loc
        self.chain = chain
        # None | list of alternatives, each a list of (ast expr, polarity): if all conjuncts of
        # one alternative are established at the call site the raise cannot happen
        self.pre = pre
        self.why = why

    def key(self):
        return (self.cls, self.origin)


class Hier:
    def __init__(self, prog: Program):
        self.parent = dict(BUILTIN_HIER)
        for name, (m, c) in prog.classes.items():
            for b in c.bases:
                bn = attr_chain(b)
                if bn:
                    self.parent.setdefault(name, bn.split(".")[-1])
        for m in prog.repo.modules.values():
            if m.path.endswith(".pyi"):
                for c in m.classes.values():
                    for b in c.bases:
                        bn = attr_chain(b)
                        if bn:
                            self.parent[c.name] = bn.split(".")[-1]

    def is_sub(self, cls: str, anc: str) -> bool:
        seen = set()
        c = cls
        while c is not None and c not in seen:
            if c == anc:
                return True
            seen.add(c)
            c = self.parent.get(c, "Exception" if c not in ("BaseException",) and c not in self.parent else None)
        return False

    def is_exception_class(self, name: str) -> bool:
        return name in self.parent


def handler_names(h: ast.ExceptHandler) -> list[str]:
    if h.type is None:
        return ["BaseException"]
    t = h.type
    elts = t.elts if isinstance(t, ast.Tuple) else [t]
    out = []
    for e in elts:
        c = attr_chain(e)
        if c:
            out.append(c.split(".")[-1])
    return out


def has_bare_raise(h: ast.ExceptHandler) -> bool:
    for st in h.body:
        for n in ast.walk(st):
            if isinstance(n, ast.Raise) and n.exc is None:
                return True
            if isinstance(n, ast.Raise) and h.name and isinstance(n.exc, ast.Name) and n.exc.id == h.name:
                return True
    return False


class Escape:
    def __init__(self, prog: Program, suppressions_file: Optional[str] = None):
        self.prog = prog
        self.repo = prog.repo
        self.hier = Hier(prog)
        self.esc: dict[int, dict] = {}  # id(func node) -> {key: Item}
        self.fn_cache: dict[int, Fn] = {}
        self.unresolved: dict[str, int] = {}
        self.resolved_calls = 0
        self.total_calls = 0
        self.sources: dict[int, list[Item]] = {}
        self.suppressions = []
        self.used_suppressions = set()
        self.discharged_log: list[dict] = []
        if suppressions_file is None:
            suppressions_file = os.path.join(VERIF, "rules", "suppressions.json")
        if os.path.exists(suppressions_file):
            with open(suppressions_file) as fp:
                self.suppressions = json.load(fp)["suppressions"]
        self.generators = set()
        for fr in prog.funcs.values():
            for n in walk_no_nested(fr.node):
                if isinstance(n, (ast.Yield, ast.YieldFrom)):
                    self.generators.add(id(fr.node))
        self._solve()

    # ---- helpers --------------------------------------------------------------
    def fn(self, fr: FuncRef) -> Fn:
        f = self.fn_cache.get(id(fr.node))
        if f is None:
            f = Fn(self.repo, fr.ref)
            self.fn_cache[id(fr.node)] = f
        return f

    def suppressed(self, fr: FuncRef, st: ast.AST, cls: str) -> Optional[dict]:
        text = norm(st)
        alt = None
        for i, s in enumerate(self.suppressions):
            if s.get("kind", "drop") == "drop" and s["in"] == fr.ref and s["exc"] in (cls, "*"):
                if s.get("requires_atom"):
                    # the checkable premise of the reason: the statement cannot be reached with the condition false
                    # (paths are pruned by the negated condition, locals read through - so the premise survives nesting,
                    # merging, early returns and hoisting of the test)
                    f_ = self.fn(fr)
                    neg = atoms_of(ast.parse(s["requires_atom"], mode="eval").body, False, expand=lambda e: f_.expand(e, 4))
                    try:
                        tgt = f_.cfg.node_of(st)
                    except KeyError:
                        continue
                    if f_.reaches_assuming(f_.cfg.entry, tgt, neg, expand=True):
                        # alternative premise: an expression (e.g. `self._ranges[0]`) was evaluated without raising on
                        # every path to the statement - the same fact established differently
                        alt_ok = False
                        if s.get("or_prior_read"):
                            for n_ in f_.nodes():
                                if isinstance(n_, ast.expr) and norm(n_) == s["or_prior_read"] and isinstance(getattr(n_, "ctx", None), ast.Load) and f_.before(n_, st):
                                    alt_ok = True
                                    break
                        if not alt_ok:
                            continue
                if "stmt_re" in s:
                    # same statement up to the name of one local (named group-free regex over the normalised text)
                    if re.match(s["stmt_re"], text):
                        self.used_suppressions.add(i)
                        return s
                    continue
                if text.startswith(s["stmt"]):
                    self.used_suppressions.add(i)
                    return s
                if alt is None and isinstance(st, (ast.Assert, ast.Assign, ast.Expr, ast.Return, ast.AugAssign)):
                    # the same statement written through a hoisted single-definition local (`ks = self.key_schedule`)
                    try:
                        alt = norm(self.fn(fr)._expand(st, 3, set()))
                    except Exception:
                        alt = text
                if alt and (alt.startswith(s["stmt"]) or ("stmt_x" in s and alt == s["stmt_x"])):
                    self.used_suppressions.add(i)
                    return s
        return None

    # ---- fixpoint ---------------------------------------------------------------
    def _solve(self):
        funcs = list(self.prog.funcs.values())
        for fr in funcs:
            self.esc[id(fr.node)] = {}
        for it in range(30):
            changed = False
            self.total_calls = self.resolved_calls = 0
            self.unresolved = {}
            for fr in funcs:
                new = self._function(fr)
                old = self.esc[id(fr.node)]
                if set(new) != set(old):
                    changed = True
                # keep the shortest chain per key
                for k, v in new.items():
                    if k in old and len(old[k].chain) <= len(v.chain):
                        new[k] = old[k]
                self.esc[id(fr.node)] = new
            if not changed:
                self.iterations = it + 1
                return
        raise AnalysisError("exception-escape fixpoint did not converge in 30 iterations")

    def _function(self, fr: FuncRef) -> dict:
        if isinstance(fr.node, ast.AsyncFunctionDef):
            return {}
        items = self._block(fr, fr.node.body)
        return {i.key(): i for i in items}

    def _block(self, fr, stmts) -> list[Item]:
        out = []
        for st in stmts:
            out += self._stmt(fr, st)
        return out

    def _stmt(self, fr, st) -> list[Item]:
        if isinstance(st, (ast.FunctionDef, ast.AsyncFunctionDef, ast.ClassDef)):
            return []
        if isinstance(st, ast.Try):
            body = self._block(fr, st.body)
            kept = []
            for it in body:
                caught = False
                for h in st.handlers:
                    if any(self.hier.is_sub(it.cls, hn) for hn in handler_names(h)):
                        caught = True
                        if has_bare_raise(h):
                            kept.append(it)
                        break
                if not caught:
                    kept.append(it)
            for h in st.handlers:
                kept += self._block(fr, h.body)
            kept += self._block(fr, st.orelse)
            kept += self._block(fr, st.finalbody)
            return kept
        out = []
        # the statement's own expressions
        out += self._own(fr, st)
        for field in ("body", "orelse", "finalbody"):
            sub = getattr(st, field, None)
            if sub and isinstance(sub, list) and sub and isinstance(sub[0], ast.stmt):
                out += self._block(fr, sub)
        if hasattr(ast, "Match") and isinstance(st, ast.Match):
            for c in st.cases:
                out += self._block(fr, c.body)
        return out

    # ---- sources in one statement -------------------------------------------------
    def _own(self, fr, st) -> list[Item]:
        out = []
        f = self.fn(fr)
        origin = lambda s=st: f"{fr.ref}: {norm(s)[:110]}"

        def add(cls, why="", pre=None, node=st):
            if self.suppressed(fr, st, cls):
                return
            out.append(Item(cls, origin(), self.repo.loc(node, fr.mod), (fr.ref,), pre, why))

        if isinstance(st, ast.Raise):
            if st.exc is None:
                return out  # re-raise handled by the enclosing handler logic
            e = st.exc.func if isinstance(st.exc, ast.Call) else st.exc
            c = attr_chain(e)
            name = c.split(".")[-1] if c else None
            if isinstance(st.exc, ast.Name) and f.is_param(st.exc.id):
                add(f"<param:{st.exc.id}>", "raises its argument")
            elif isinstance(st.exc, ast.Name) and not self._is_class(fr, st.exc):
                pass  # `raise exc` of a caught exception variable: covered by the handler's re-raise
            elif name:
                pre = self._raise_pre(f, st)
                add(name, "explicit raise", pre)
        elif isinstance(st, ast.Assert):
            add("AssertionError", "assert", [[(st.test, True)]] + self._loop_alts(f, st))
        # expressions of this statement (not nested statements)
        for n in self._expr_nodes(st):
            if isinstance(n, ast.Call):
                out += self._call(fr, f, st, n)
            elif isinstance(n, ast.Subscript) and isinstance(n.ctx, (ast.Load, ast.Del)):
                out += self._subscript(fr, f, st, n)
                out += self._optional_param(fr, f, st, n.value, "subscripted")
            elif isinstance(n, ast.Attribute) and isinstance(n.ctx, ast.Load):
                out += self._property(fr, f, st, n)
                out += self._optional_self(fr, f, st, n)
            elif isinstance(n, ast.BinOp) and isinstance(n.op, ast.Pow):
                # S5c: a negative float raised to a fractional power is a complex number; int() / comparisons / round()
                # of it raise TypeError far from here, so the source is reported at the power
                ex = self.repo.const(fr.mod, n.right)
                if isinstance(ex, float) and not ex.is_integer() and not self._nonneg_at(f, n, n.left):
                    add("TypeError", "fractional power of a value that is not provably non-negative (complex result)", None, n)
            elif isinstance(n, ast.BinOp) and isinstance(n.op, ast.Mod):
                # S5d: %-formatting with a format string that itself came out of a %-formatting of non-constant data:
                # the data (e.g. the repr of a peer-supplied name containing '%') is interpreted as conversion
                # specifiers - ValueError / TypeError / KeyError while the message is built
                left = n.left
                if isinstance(left, ast.Name):
                    defs = f.local_defs(left.id)
                    left = defs[0] if len(defs) == 1 else None
                if isinstance(left, ast.BinOp) and isinstance(left.op, ast.Mod) and isinstance(left.left, ast.Constant) and isinstance(left.left.value, (str, bytes)) and self.repo.const(fr.mod, left.right) is Unknown:
                    add("ValueError", "format string built by %-formatting non-constant data and then formatted again", None, n)
        if isinstance(st, ast.Assign) and len(st.targets) == 1 and isinstance(st.targets[0], (ast.Tuple, ast.List)):
            v = st.value
            if isinstance(v, ast.Call) and isinstance(v.func, ast.Attribute) and v.func.attr in ("split", "rsplit", "partition") and v.func.attr != "partition":
                add("ValueError", "tuple-unpacking of split(): the number of fields depends on the input")
        if isinstance(st, (ast.For, ast.AsyncFor)):
            out += self._optional_use(fr, f, st, st.iter, "iterated")
        return out

    def _expr_nodes(self, st):
        if isinstance(st, (ast.FunctionDef, ast.AsyncFunctionDef, ast.ClassDef)):
            return
        for field, value in ast.iter_fields(st):
            if field in ("body", "orelse", "finalbody", "handlers", "cases"):
                continue
            vals = value if isinstance(value, list) else [value]
            for v in vals:
                if isinstance(v, ast.AST):
                    yield from walk_no_nested(v)

    def _nonneg_at(self, f: Fn, at, e) -> bool:
        if isinstance(e, ast.Constant) and isinstance(e.value, (int, float)):
            return e.value >= 0
        if isinstance(e, ast.Call) and call_name(e) in ("abs", "len", "float") and e.args:
            return call_name(e) != "float" or self._nonneg_at(f, at, e.args[0])
        if isinstance(e, ast.Call) and call_name(e) == "max" and any(self._nonneg_at(f, at, a) for a in e.args):
            return True
        atoms = f.guard_atoms(at)
        t = norm(e)
        from .q import natom

        if natom(f"{t} < 0", False) in atoms or natom(f"{t} >= 0") in atoms or natom(f"{t} > 0") in atoms:
            return True
        if isinstance(e, ast.UnaryOp) and isinstance(e.op, ast.USub):
            u = norm(e.operand)
            if natom(f"{u} < 0") in atoms or natom(f"{u} <= 0") in atoms or natom(f"{u} >= 0", False) in atoms:
                return True
        if isinstance(e, ast.BinOp) and isinstance(e.op, (ast.Mult, ast.Div, ast.Add)):
            return self._nonneg_at(f, at, e.left) and self._nonneg_at(f, at, e.right)
        return False

    def _is_class(self, fr, name_node) -> bool:
        t = self.repo.resolve_name(fr.mod, name_node)
        return (t is not None and t[0] == "class") or self.hier.is_exception_class(name_node.id)

    def _loop_alts(self, f: Fn, st):
        """a source inside `for x in <param>` cannot fire when the argument is empty"""
        alts = []
        for anc in _ancestors(st):
            if isinstance(anc, ast.For) and isinstance(anc.iter, ast.Name) and f.is_param(anc.iter.id):
                alts.append([(anc.iter, False)])
        return alts

    def _raise_pre(self, f: Fn, st: ast.Raise):
        """precondition that prevents an explicit raise: the negation of its lexical guards,
        only for raises guarded by a single enclosing if inside a function whose condition is
        over parameters (used for API-contract raises such as size_uint_var)."""
        return None

    # ---- calls ------------------------------------------------------------------------
    def _call(self, fr, f: Fn, st, call: ast.Call) -> list[Item]:
        out = []
        callees = self.prog.resolve_call(fr, call)
        self.total_calls += 1
        if callees and not all(isinstance(c, tuple) and c[0].startswith("unknown") for c in callees):
            self.resolved_calls += 1
        else:
            self.unresolved[norm(call.func)[:50]] = self.unresolved.get(norm(call.func)[:50], 0) + 1
        cn = call_name(call)

        def add(cls, why, pre=None):
            if self.suppressed(fr, st, cls):
                return
            out.append(Item(cls, f"{fr.ref}: {norm(st)[:110]}", self.repo.loc(call, fr.mod), (fr.ref,), pre, why))

        # S5: partial builtin operations
        if isinstance(call.func, ast.Attribute):
            a = call.func.attr
            recv = call.func.value
            lenient = (len(call.args) >= 2 and isinstance(call.args[1], ast.Constant) and call.args[1].value in ("replace", "ignore", "backslashreplace", "surrogateescape")) or any(k.arg == "errors" and isinstance(k.value, ast.Constant) and k.value.value != "strict" for k in call.keywords)
            if a == "decode" and not self._ascii_safe(recv) and not lenient:
                add("UnicodeDecodeError", "strict decode of bytes that are not provably text")
            if a in ("pop", "popleft") and self._container_chain(recv):
                if a == "popleft" or not call.args or (len(call.args) == 1 and isinstance(call.args[0], ast.Constant) and isinstance(call.args[0].value, int)):
                    kidx = call.args[0].value if call.args and a == "pop" else 0
                    if not self._nonempty_guard(f, call, recv, kidx):
                        add("IndexError", f"{a}() on a container that may be empty", [[(recv, True)]])
                elif len(call.args) == 1 and not call.keywords and not self._is_list(fr, recv):
                    if not self._member_guard(f, call, recv, call.args[0]):
                        add("KeyError", "dict.pop(key) without default", [[(ast.Compare(left=call.args[0], ops=[ast.In()], comparators=[recv]), True)]])
            if a in ("remove", "index") and self._container_chain(recv) and len(call.args) == 1:
                if not self._member_guard(f, call, recv, call.args[0]):
                    add("ValueError", f"list.{a}(x) with x possibly absent", [[(ast.Compare(left=call.args[0], ops=[ast.In()], comparators=[recv]), True)]])
        if isinstance(call.func, ast.Name) and call.func.id == "int" and call.args and fr.mod.name.startswith(("h3", "h0")):
            add("ValueError", "int() of header bytes")
        if isinstance(call.func, ast.Name) and call.func.id == "len" and call.args:
            out += self._optional_use(fr, f, st, call.args[0], "passed to len()")
            out += self._optional_param(fr, f, st, call.args[0], "passed to len()")
        # S5b: Enum lookup by value: Enum(x) raises ValueError unless x is a member
        if len(call.args) == 1 and not call.keywords and isinstance(call.func, (ast.Name, ast.Attribute)) and not isinstance(call.args[0], ast.Constant):
            t = self.repo.resolve_name(fr.mod, call.func)
            if t is not None and t[0] == "class" and any(attr_chain(b) in ("Enum", "IntEnum", "enum.Enum", "enum.IntEnum") for b in t[2].bases):
                add("ValueError", f"{t[2].name}(value): enum lookup of a value that may not be a member")

        for cal in callees:
            if isinstance(cal, FuncRef):
                if isinstance(cal.node, ast.AsyncFunctionDef):
                    continue
                for it in self.esc.get(id(cal.node), {}).values():
                    cls = it.cls
                    if cls.startswith("<param:"):
                        pname = cls[7:-1]
                        arg = self._arg_for(cal, call, pname)
                        if arg is None or (isinstance(arg, ast.Constant) and arg.value is None):
                            continue
                        ae = arg.func if isinstance(arg, ast.Call) else arg
                        c = attr_chain(ae)
                        if not c:
                            continue
                        cls = c.split(".")[-1]
                    if it.pre is not None:
                        ok, residual = self._discharge(fr, f, call, cal, it)
                        if ok:
                            self.discharged_log.append({"at": f"{fr.ref}: {norm(call)[:80]}", "item": f"{it.cls} from {it.origin}", "by": residual})
                            continue
                    if self.suppressed(fr, st, cls):
                        continue
                    if len(it.chain) > 40:
                        continue
                    if self._refined_away(fr, st, call, it):
                        continue
                    # a call inside `for x in <param>` cannot run when the caller passes nothing
                    out.append(Item(cls, it.origin, it.loc, (fr.ref,) + it.chain, self._loop_alts(f, st) or None, it.why))
                # S7: Optional message fields passed to a parameter that is dereferenced
                out += self._optional_args(fr, f, st, call, cal)
            elif cal[0] == "c":
                classes = C_RAISES.get(cal[1], [])
                if cal[1] in ("Buffer.seek", "Buffer.data_slice") and (all(self._safe_pos(f, a) for a in call.args) or self._write_side(fr)):
                    classes = []
                if cal[1] == "Buffer.pull_bytes" and isinstance(call.func, ast.Attribute) and call.args:
                    r = norm(call.func.value)
                    if norm(call.args[0]) == f"{r}.capacity - {r}.tell()":
                        classes = []  # reads exactly the bytes that remain
                for c in classes:
                    add(c, f"C helper {cal[1]}")
            elif cal[0] == "ext":
                for suffix, (classes, why) in EXT_RAISES.items():
                    if cal[1].endswith(suffix) or cn.endswith(suffix):
                        for c in classes:
                            add(c, f"third-party {suffix.strip('.')}: {why}")
                        break
            elif cal[0] in ("unknown-attr", "unknown-method", "unknown"):
                for suffix, (classes, why) in EXT_RAISES.items():
                    if cn.endswith(suffix):
                        for c in classes:
                            add(c, f"third-party {suffix.strip('.')}: {why}")
                        break
        return out

    def _refined_away(self, fr, st, call, it) -> bool:
        """call-site refinements (the facts that justify them are checked by rules/c05.py R2b)"""
        for i, s in enumerate(self.suppressions):
            if s.get("kind") == "drop_chain_through" and s["in"] == fr.ref and norm(st).startswith(s["stmt"]):
                if any(c == s["through"] for c in it.chain):
                    self.used_suppressions.add(i)
                    return True
            if s.get("kind") == "drop_after_early_return" and s["in"] == fr.ref and norm(st).startswith(s["stmt"]):
                # sources of the callee that lie behind its `if <test>: ...; return` cannot run when the test holds
                cal = self.prog.by_ref.get(s["callee"])
                if cal is not None and it.origin.startswith(s["callee"] + ": "):
                    cf = self.fn(cal)
                    otxt = it.origin[len(s["callee"]) + 2 :]
                    tests = [x for x in cf.node.body if isinstance(x, ast.If) and norm(x.test) == s["test"] and x.body and isinstance(x.body[-1], ast.Return) and not x.orelse]
                    if tests:
                        behind = [x for x in cf.stmts() if norm(x)[:110] == otxt and cf.cfg.dominates(cf.cfg.fedge[tests[0]], cf.cfg.begin.get(x, -1))]
                        inside_branch = [x for x in cf.stmts() if norm(x)[:110] == otxt and any(x is b or _within(x, b) for b in tests[0].body)]
                        if behind and not inside_branch:
                            self.used_suppressions.add(i)
                            return True
        return False

    def _arg_for(self, cal: FuncRef, call: ast.Call, pname: str):
        params = [a.arg for a in cal.node.args.posonlyargs + cal.node.args.args]
        if getattr(cal.node, "_class", None) is not None and params and params[0] in ("self", "cls"):
            params = params[1:]
        for k in call.keywords:
            if k.arg == pname:
                return k.value
        if pname in params:
            i = params.index(pname)
            if i < len(call.args):
                return call.args[i]
            # default value
            defaults = cal.node.args.defaults
            allp = [a.arg for a in cal.node.args.posonlyargs + cal.node.args.args]
            j = allp.index(pname) - (len(allp) - len(defaults))
            if 0 <= j < len(defaults):
                return defaults[j]
        for a, d in zip(cal.node.args.kwonlyargs, cal.node.args.kw_defaults):
            if a.arg == pname and d is not None:
                return d
        return None

    # ---- precondition discharge ------------------------------------------------------------
    def _discharge(self, fr, f: Fn, call: ast.Call, cal: FuncRef, it: Item):
        """can the guards that dominate `call` (or simple arithmetic) establish it.pre?"""
        atoms = f.guard_atoms_x(call) + f.guard_atoms(call)
        for alt in it.pre:
            proved = []
            ok = True
            for cond, pol in alt:
                sub = self._substitute(fr, f, call, cal, cond, it)
                if sub is None:
                    ok = False
                    break
                tv = _static_truth(sub)
                if tv is not None:
                    if tv == pol:
                        proved.append(f"{norm(sub)} is statically {tv}")
                        continue
                    ok = False
                    break
                want = atoms_of(sub, pol, expand=lambda e: f.expand(e, 4))
                for w in want:
                    if w in atoms:
                        proved.append(w[0])
                    elif self._arith_true(fr, f, call, sub, pol, w):
                        proved.append(w[0] + " (arithmetic)")
                    elif self._truthy_from_len(atoms, w):
                        proved.append(w[0] + " (len)")
                    else:
                        ok = False
                        break
                if not ok:
                    break
            if ok:
                return True, "; ".join(proved)
        return False, ""

    def _substitute(self, fr, f, call, cal, cond, it=None):
        params = [a.arg for a in cal.node.args.posonlyargs + cal.node.args.args + cal.node.args.kwonlyargs]
        is_method = getattr(cal.node, "_class", None) is not None and params and params[0] == "self"
        recv = call.func.value if isinstance(call.func, ast.Attribute) else None
        mapping = {}
        for p in params:
            if p == "self":
                continue
            a = self._arg_for(cal, call, p)
            if a is not None:
                mapping[p] = a
        calf = self.fn(cal)
        # `if p is None: p = E` idiom in the callee for an omitted / None argument
        for p, a in list(mapping.items()):
            if isinstance(a, ast.Constant) and a.value is None:
                for st in calf.node.body:
                    if isinstance(st, ast.If) and flatten_cond(st.test, True) == [(f"{p} is None", True)] and len(st.body) == 1 and isinstance(st.body[0], ast.Assign) and norm(st.body[0].targets[0]) == p:
                        mapping[p] = ("callee-expr", st.body[0].value)
        bad = []

        class T(ast.NodeTransformer):
            def visit_Name(self, n):
                if n.id == "self" and is_method:
                    if recv is None:
                        bad.append(1)
                        return n
                    return clone(recv)
                if n.id in mapping:
                    mv = mapping[n.id]
                    if isinstance(mv, tuple):
                        return T().visit(clone(mv[1]))
                    return clone(mv)
                if calf.is_param(n.id):
                    bad.append(n.id)
                    return n
                # callee local: inline its single definition first
                defs = calf.local_defs(n.id)
                if len(defs) == 1 and calf._simple_def(n.id):
                    return T().visit(clone(defs[0]))
                if defs:
                    bad.append(n.id)
                return n

        new = T().visit(clone(cond))
        if bad:
            return None
        ast.fix_missing_locations(new)
        return new

    def _nonneg(self, f: Fn, e: ast.expr, depth=0) -> bool:
        """expression is a non-negative integer by construction"""
        if depth > 4:
            return False
        if isinstance(e, ast.Constant) and isinstance(e.value, int):
            return e.value >= 0
        if isinstance(e, ast.Call):
            cn = call_name(e)
            if cn == "len" or cn.endswith((".pull_uint_var", ".pull_uint8", ".pull_uint16", ".pull_uint32", ".pull_uint64", ".tell")):
                return True
        if isinstance(e, ast.Name):
            defs = f.local_defs(e.id)
            return bool(defs) and not f.is_param(e.id) and all(self._nonneg(f, d, depth + 1) for d in defs)
        if isinstance(e, ast.BinOp) and isinstance(e.op, (ast.Add, ast.Mult)):
            return self._nonneg(f, e.left, depth + 1) and self._nonneg(f, e.right, depth + 1)
        return False

    def _arith_true(self, fr, f: Fn, call, cond, pol, atom) -> bool:
        """a > b / a >= b provable because a - b = const + sum(c_i * x_i) with x_i >= 0, c_i >= 0"""
        if not (isinstance(cond, ast.Compare) and len(cond.ops) == 1 and pol):
            if isinstance(cond, ast.Compare) and len(cond.ops) == 1 and isinstance(cond.ops[0], ast.Eq) and pol:
                return norm(cond.left) == norm(cond.comparators[0])
            return False
        op = cond.ops[0]
        a, b = cond.left, cond.comparators[0]
        if isinstance(op, (ast.Lt, ast.LtE)):
            a, b = b, a
            op = ast.Gt() if isinstance(op, ast.Lt) else ast.GtE()
        if isinstance(op, ast.Eq):
            return norm(a) == norm(b)
        if isinstance(op, ast.In):
            return False
        if not isinstance(op, (ast.Gt, ast.GtE)):
            return False
        syms = {}

        def lin(x, depth=0) -> Lin:
            if isinstance(x, ast.Constant) and isinstance(x.value, int):
                return Lin.c(x.value)
            if isinstance(x, ast.Name) and depth < 3:
                d = self._adjacent_def(f, call, x.id)
                if d is not None:
                    return lin(d, depth + 1)
            if isinstance(x, ast.BinOp) and isinstance(x.op, ast.Add):
                return lin(x.left, depth) + lin(x.right, depth)
            if isinstance(x, ast.BinOp) and isinstance(x.op, ast.Sub):
                return lin(x.left, depth) - lin(x.right, depth)
            k = norm(x)
            syms[k] = x
            return Lin.sym(k)

        d = lin(a) - lin(b)
        for s, c in d.terms.items():
            if c < 0 or not self._nonneg(f, syms[s]):
                return False
        if isinstance(op, ast.GtE):
            return d.const >= 0
        if d.const > 0:
            return True
        # a non-negative symbol that a dominating guard found truthy is >= 1
        atoms = f.guard_atoms(call) + f.guard_atoms_x(call)
        for s, c in d.terms.items():
            if c > 0 and d.const >= 0 and ((s, True) in atoms or (f.expand(syms[s], 3), True) in atoms):
                return True
        return False

    def _adjacent_def(self, f: Fn, call, name: str):
        """the definition `name = E` that reaches the statement of `call` in straight line: the nearest earlier
        statement of the same block that stores to `name` is a plain assignment of integer arithmetic over
        names/constants, E does not mention `name`, and no statement in between (nested ones included) stores to
        a name E reads - so E, evaluated at the call, is the value of `name` there.  A reaching definition for
        locals that are assigned more than once (which Fn.expand declines)."""
        from .pyfacts import enclosing_stmt

        try:
            st = enclosing_stmt(call)
            block = f.block_of(st)
        except (AttributeError, AnalysisError):
            return None
        if any(isinstance(n, (ast.Nonlocal, ast.Global)) for n in ast.walk(f.node)):
            return None
        idx = next(i for i, x in enumerate(block) if x is st)

        def stores(node) -> set:
            return {n.id for n in ast.walk(node) if isinstance(n, ast.Name) and isinstance(n.ctx, (ast.Store, ast.Del))}

        between = stores(st)
        for prev in reversed(block[:idx]):
            w = stores(prev)
            if name in w:
                if not (isinstance(prev, ast.Assign) and len(prev.targets) == 1 and isinstance(prev.targets[0], ast.Name)):
                    return None
                e = prev.value
                for n in ast.walk(e):
                    if not isinstance(n, (ast.BinOp, ast.Add, ast.Sub, ast.Name, ast.Constant, ast.Load)):
                        return None
                    if isinstance(n, ast.Constant) and not (isinstance(n.value, int) and not isinstance(n.value, bool)):
                        return None
                reads = {n.id for n in ast.walk(e) if isinstance(n, ast.Name)}
                if name in reads or reads & between:
                    return None
                return e
            between |= w
        return None

    def _truthy_from_len(self, atoms, want) -> bool:
        """`x` truthy is implied by a guard `len(x) > 0`/`len(x) == k`; `len(x) > 0` by `x` truthy"""
        text, pol = want
        if not pol:
            return False
        for a, p in atoms:
            if p and (a == f"len({text}) > 0" or a.startswith(f"len({text}) == ") or a == f"len({text}) >= 1"):
                return True
        # `obj.<field>` is non-empty when `len(obj) > K` (K >= 0) holds and some class defines
        # __len__ as len(self.<field>)
        if "." in text:
            base, field = text.rsplit(".", 1)
            if field in self._len_fields():
                for a, p in atoms:
                    if p and a.startswith(f"len({base}) > "):
                        k = self._int_const(a[len(f"len({base}) > ") :])
                        if k is not None and k >= 0:
                            return True
        return False

    def _len_fields(self) -> set:
        if not hasattr(self, "_lenf"):
            self._lenf = set()
            for fr in self.prog.funcs.values():
                if fr.node.name == "__len__" and getattr(fr.node, "_class", None) is not None:
                    rets = [st for st in stmts_of(fr.node) if isinstance(st, ast.Return) and st.value is not None]
                    if len(rets) == 1 and isinstance(rets[0].value, ast.Call) and call_name(rets[0].value) == "len" and rets[0].value.args:
                        a = rets[0].value.args[0]
                        if isinstance(a, ast.Attribute) and isinstance(a.value, ast.Name) and a.value.id == "self":
                            self._lenf.add(a.attr)
        return self._lenf

    def _int_const(self, text: str):
        """integer value of a literal or of a module-level constant of the package"""
        text = text.strip()
        if text.isdigit():
            return int(text)
        if text.isidentifier():
            for m in self.repo.modules.values():
                if text in m.assigns:
                    v = self.repo.const(m, m.assigns[text])
                    if isinstance(v, int) and not isinstance(v, bool):
                        return v
        return None

    # ---- S5 helpers -----------------------------------------------------------------------------
    def _ascii_safe(self, recv) -> bool:
        if isinstance(recv, ast.Call):
            cn = call_name(recv)
            if cn in ("binascii.hexlify", "hexlify") or cn.endswith(".hex"):
                return True
        return False

    def _container_chain(self, e) -> bool:
        c = attr_chain(e)
        return bool(c) and "." in c

    def _is_list(self, fr, recv) -> bool:
        t = (self.prog.expr_type(fr, recv) or "").split("[")[0].split(".")[-1]
        return t in ("list", "List", "deque", "Deque")

    def _nonempty_guard(self, f: Fn, node, recv, kidx: int = 0) -> bool:
        """the container has more than kidx elements (kidx >= 0: index that pop() will use)"""
        txt = f.expand(recv, 2)
        raw = norm(recv)
        for a, p in f.guard_atoms_x(node) + f.guard_atoms(node):
            if p:
                for t in (txt, raw):
                    if a.startswith(f"len({t}) > "):
                        k = self._int_const(a[len(f"len({t}) > ") :])
                        if k is not None and k >= max(kidx, 0):
                            return True
        if kidx > 0:
            return False
        for a, p in f.guard_atoms_x(node) + f.guard_atoms(node):
            if p and (a in (txt, raw) or a in (f"len({txt}) > 0", f"len({raw}) > 0")):
                return True
            if p:
                for t in (txt, raw):
                    if a.startswith(f"len({t}) > ") and a[len(f"len({t}) > ") :].isdigit():
                        return True
                    if a.startswith(f"len({t}) >= ") and a[len(f"len({t}) >= ") :].isdigit() and int(a[len(f"len({t}) >= ") :]) >= 1:
                        return True
            if p:
                for t in (txt, raw):
                    for other in ((a[len(f"len({t}) == ") :] if a.startswith(f"len({t}) == ") else None), (a[: -len(f" == len({t})")] if a.endswith(f" == len({t})") else None)):
                        if other is not None and other.isdigit() and int(other) >= 1:
                            return True
            if p and a.startswith("(") and (a[1:].startswith(txt + " and ") or a[1:].startswith(raw + " and ")):
                return True
        # expression-level guards:  x[0] if x else ...   /   x and x[0]
        child = node
        for anc in _ancestors(node):
            if isinstance(anc, ast.IfExp) and child is anc.body and norm(anc.test) in (txt, raw):
                return True
            if isinstance(anc, ast.BoolOp) and isinstance(anc.op, ast.And) and child in anc.values[1:] and norm(anc.values[0]) in (txt, raw):
                return True
            if isinstance(anc, ast.stmt):
                break
            child = anc
        # `for x in container[:]: ... container.pop(0)` - one pop per element of a copy
        for anc in _ancestors(node):
            if isinstance(anc, ast.For):
                it = anc.iter
                if isinstance(it, ast.Subscript) and norm(it.value) == raw:
                    return True
                if isinstance(it, ast.Call) and call_name(it) == "list" and it.args and norm(it.args[0]) == raw:
                    return True
        return False

    def _member_guard(self, f: Fn, node, recv, key) -> bool:
        r, k = norm(recv), norm(key)
        for a, p in f.guard_atoms(node):
            if p and a == f"{k} in {r}":
                return True
        for h in f.enclosing_handlers(node):
            if any(n in ("KeyError", "LookupError", "ValueError", "Exception", "BaseException") for n in handler_names(h)):
                return True
        # key produced by iterating the same container
        for anc in _ancestors(node):
            if isinstance(anc, (ast.For, ast.comprehension)):
                it = anc.iter
                tnames = {n.id for n in ast.walk(anc.target) if isinstance(n, ast.Name)}
                knames = {n.id for n in ast.walk(key) if isinstance(n, ast.Name)}
                src = norm(it)
                if knames & tnames and (r in src):
                    return True
        # key taken from the container itself: k = next(iter(d)) / next(iter(d.keys()))
        if isinstance(key, ast.Name):
            defs = f.local_defs(key.id)
            if defs and all(norm(d) in (f"next(iter({r}))", f"next(iter({r}.keys()))") for d in defs):
                return True
        if k in (f"next(iter({r}))", f"next(iter({r}.keys()))"):
            return True  # the same, written in place
        # d[k] = v earlier on every path (membership established by a dominating store)
        for st, t, v in f.assigns():
            if isinstance(t, ast.Subscript) and norm(t.value) == r and norm(t.slice) == k and f.before(st, node):
                return True
        for st in f.stmts(lambda s: isinstance(s, ast.If)):
            if flatten_cond(st.test, True) == [(f"{k} not in {r}", True)] and not st.orelse:
                if any(isinstance(b, ast.Expr) and isinstance(b.value, ast.Call) and norm(b.value) == f"{r}.append({k})" for b in st.body):
                    if f.cfg.dominates(f.cfg.done[st], f.cfg.node_of(node)):
                        return True
        # `if k not in d: d[k] = ...` directly before
        for st in f.stmts(lambda s: isinstance(s, ast.If)):
            if flatten_cond(st.test, True) == [(f"{k} not in {r}", True)] and not st.orelse:
                if any(isinstance(b, ast.Assign) and isinstance(b.targets[0], ast.Subscript) and norm(b.targets[0].value) == r and norm(b.targets[0].slice) == k for b in st.body):
                    if f.cfg.dominates(f.cfg.done[st], f.cfg.node_of(node)):
                        return True
        return False

    def _safe_pos(self, f: Fn, e, depth=0) -> bool:
        if depth > 4:
            return False
        if isinstance(e, ast.Constant) and isinstance(e.value, int):
            return True
        if isinstance(e, ast.Call):
            cn = call_name(e)
            return cn.endswith(".tell") or cn == "len"
        if isinstance(e, ast.Attribute):
            c = attr_chain(e)
            return e.attr == "capacity" or (c is not None and c.split(".")[0] == "self")
        if isinstance(e, ast.Name):
            if e.id.isupper():
                return True
            defs = f.local_defs(e.id)
            return bool(defs) and not f.is_param(e.id) and all(self._safe_pos(f, d, depth + 1) for d in defs)
        if isinstance(e, ast.BinOp) and isinstance(e.op, (ast.Add, ast.Sub)):
            return self._safe_pos(f, e.left, depth + 1) and self._safe_pos(f, e.right, depth + 1)
        return False

    def _write_side(self, fr) -> bool:
        """functions that only serialise local data (overflow = 'local messages fit their buffers' assumption)"""
        name = fr.qual.split(".")[-1]
        return name.startswith(("push_", "encode_")) or fr.mod.name == "quic.packet_builder" or name in ("_client_send_hello",)

    def _subscript(self, fr, f: Fn, st, n: ast.Subscript) -> list[Item]:
        out = []

        def add(cls, why, pre=None):
            if self.suppressed(fr, st, cls):
                return
            out.append(Item(cls, f"{fr.ref}: {norm(st)[:110]}", self.repo.loc(n, fr.mod), (fr.ref,), pre, why))

        base = n.value
        idx = n.slice
        if isinstance(idx, ast.Slice):
            return out
        # (a) constant index into a list of parsed items
        if isinstance(idx, ast.Constant) and isinstance(idx.value, int):
            if self._parsed_list(fr, f, base):
                if not self._nonempty_guard(f, n, base) and not self._len_guard(f, n, base, idx.value):
                    add("IndexError", "constant index into a list whose length depends on the input", [[(base, True)]])
            elif isinstance(n.ctx, ast.Load) and self._starts_empty(fr, base):
                if not self._nonempty_guard(f, n, base) and not self._len_guard(f, n, base, idx.value):
                    add("IndexError", "constant index into a list field that the constructor leaves empty", [[(base, True)]])
            out += self._optional_use(fr, f, st, base, "subscripted")
            return out
        # (b) dict subscripts on instance tables
        c = attr_chain(base)
        if c and "." in c:
            t = self.prog.expr_type(fr, base) or ""
            if t.split("[")[0].split(".")[-1] in ("dict", "Dict") and not isinstance(idx, ast.Constant):
                key_txt = norm(idx)
                if "Epoch" in t.split(",")[0]:
                    return out  # epoch-keyed tables: decided by rule R3 (handler epochs vs table keys)
                if attr_chain(idx) and attr_chain(idx).split(".")[0] in ("tls", "Epoch") and "Epoch." in key_txt:
                    return out  # constant enum key
                if not self._member_guard(f, n, base, idx):
                    add("KeyError", f"subscript of the instance table {c} with a key that may be absent", [[(ast.Compare(left=idx, ops=[ast.In()], comparators=[base]), True)]])
        return out

    def _len_guard(self, f: Fn, node, base, k: int) -> bool:
        import re

        txt, raw = f.expand(base, 2), norm(base)
        for a, p in f.guard_atoms_x(node) + f.guard_atoms(node):
            if not p:
                continue
            for t in (txt, raw):
                lt = "len(" + t + ")"
                m = None
                if a.startswith(lt + " "):
                    m = re.match(r"(==|>=|>) (\d+)$", a[len(lt) + 1 :])
                    if m:
                        op, v = m.group(1), int(m.group(2))
                        if (op == "==" and v > k) or (op == ">" and v >= k) or (op == ">=" and v > k):
                            return True
                if a.endswith(" == " + lt):
                    try:
                        if int(a[: -len(" == " + lt)]) > k:
                            return True
                    except ValueError:
                        pass
        return False

    def _parsed_list(self, fr, f: Fn, base) -> bool:
        if isinstance(base, ast.Call):
            cn = call_name(base)
            return cn == "pull_list" or cn.endswith((".split", ".rsplit"))
        if isinstance(base, ast.ListComp):
            return True
        if isinstance(base, ast.Attribute):
            bt = self.prog.class_of_type(self.prog.expr_type(fr, base.value))
            if bt in self.prog.classes:
                t = self.prog.lookup_field(bt, base.attr) or ""
                tt = t.replace("Optional[", "")
                if tt.startswith(("list[", "List[")) and self._is_message_class(bt):
                    return True
        if isinstance(base, ast.Name):
            defs = f.local_defs(base.id)
            return len(defs) == 1 and f._simple_def(base.id) and self._parsed_list(fr, f, defs[0])
        return False

    def _starts_empty(self, fr, base) -> bool:
        """self.<field> whose only __init__ assignment is an empty list literal"""
        if not (isinstance(base, ast.Attribute) and isinstance(base.value, ast.Name) and base.value.id == "self"):
            return False
        cls = getattr(fr.node, "_class", None)
        if cls is None:
            return False
        init = next((m for m in cls.body if isinstance(m, ast.FunctionDef) and m.name == "__init__"), None)
        if init is None:
            return False
        vals = []
        for st in ast.walk(init):
            if isinstance(st, (ast.Assign, ast.AnnAssign)) and st.value is not None:
                for t in st.targets if isinstance(st, ast.Assign) else [st.target]:
                    if isinstance(t, ast.Attribute) and isinstance(t.value, ast.Name) and t.value.id == "self" and t.attr == base.attr:
                        vals.append(st.value)
        return bool(vals) and all(isinstance(v, ast.List) and not v.elts for v in vals)

    def _is_message_class(self, cls: str) -> bool:
        if cls not in self.prog.classes:
            return False
        m, c = self.prog.classes[cls]
        return m.name == "tls" and any(isinstance(d, ast.Name) and d.id == "dataclass" for d in c.decorator_list) and cls not in ("SessionTicket",)

    def _optional_field(self, fr, e) -> Optional[str]:
        if isinstance(e, ast.Attribute):
            root = e.value
            if not isinstance(root, ast.Name):
                return None
            f = self.fn(fr)
            defs = f.local_defs(root.id)
            if not defs or not all(isinstance(d, ast.Call) and call_name(d).startswith("pull_") for d in defs):
                return None  # only messages parsed from peer bytes in this function
            bt = self.prog.class_of_type(self.prog.expr_type(fr, e.value))
            if bt and self._is_message_class(bt):
                t = self.prog.lookup_field(bt, e.attr) or ""
                if t.startswith("Optional["):
                    return f"{bt}.{e.attr}"
        return None

    def _none_guard(self, f: Fn, node, e) -> bool:
        raw, txt = norm(e), f.expand(e, 2)
        for a, p in f.guard_atoms(node) + f.guard_atoms_x(node):
            if p and a in (f"{raw} is not None", f"{txt} is not None", raw, txt):
                return True
        return False

    def _optional_self(self, fr, f: Fn, st, n: ast.Attribute) -> list[Item]:
        """S7b (contradiction rule): `self.X.attr` where X is declared Optional and the *same function*
        also tests `self.X` against None - then every dereference must be covered by such a test
        (dominating guard or short-circuit position).  A function that never tests the field relies on
        a state invariant and is left alone."""
        base = n.value
        if not (isinstance(base, ast.Attribute) and isinstance(base.value, ast.Name) and base.value.id == "self"):
            return []
        cls = getattr(fr.node, "_class", None)
        if cls is None:
            return []
        t = self.prog.lookup_field(cls.name, base.attr) or ""
        if not t.startswith("Optional["):
            return []
        raw = norm(base)
        tested = False
        for x in f.nodes(ast.Compare):
            if len(x.ops) == 1 and isinstance(x.ops[0], (ast.Is, ast.IsNot)) and norm(x.left) == raw and isinstance(x.comparators[0], ast.Constant) and x.comparators[0].value is None:
                tested = True
        if not tested and not self._conditionally_initialised(cls, base.attr):
            return []
        if self._none_guard(f, n, base) or self._shortcircuit_guard(n, raw):
            return []
        # flag correlation: a local that is truthy only where `raw is not None` held guards this use
        for a, pol in f.guard_atoms(n):
            if pol and a.isidentifier() and not f.is_param(a):
                defs = f.assigns(chain=a)
                if defs and all((isinstance(v3, ast.Constant) and not v3.value) or (f"{raw} is not None", True) in f.lexical_guards(s3, expand=False) for s3, t3, v3 in defs):
                    return []
        if self._flag_correlated(cls, f, n, base.attr):
            return []
        # assigned a non-None value earlier on every path
        for s2, t2, v2 in f.assigns(chain=raw):
            if f.before(s2, n) and not (isinstance(v2, ast.Constant) and v2.value is None):
                return []
        if self.suppressed(fr, st, "AttributeError"):
            return []
        return [Item("AttributeError", f"{fr.ref}: {norm(st)[:110]}", self.repo.loc(n, fr.mod), (fr.ref,), None, f"`{raw}` is Optional and " + ("tested against None elsewhere in this function" if tested else "only ever initialised conditionally") + f", but `{norm(n)}` dereferences it on a path without a None test")]

    def optional_foreign(self, fr, f: Fn, st, n: ast.Attribute) -> list[Item]:
        """S7d: `<obj>.F.attr` where obj is another object of a known class whose field F is declared Optional and is
        left None by (a branch of) its constructor: the value exists only after some method of that class ran"""
        base = n.value
        if not isinstance(base, ast.Attribute) or (isinstance(base.value, ast.Name) and base.value.id == "self"):
            return []
        bt = self.prog.class_of_type(self.prog.expr_type(fr, base.value))
        if not bt or bt not in self.prog.classes:
            return []
        t = self.prog.lookup_field(bt, base.attr) or ""
        if t and not t.startswith("Optional["):
            return []
        cls = self.prog.classes[bt][1]
        sites = self._field_sites(cls, base.attr)
        init_none = [x for x in sites if x[0].name == "__init__" and isinstance(x[2], ast.Constant) and x[2].value is None]
        later = [x for x in sites if x[0].name != "__init__" and not (isinstance(x[2], ast.Constant) and x[2].value is None)]
        if not init_none or not later:
            return []
        if self._none_guard(f, n, base) or self._shortcircuit_guard(n, norm(base)):
            return []
        if self.suppressed(fr, st, "AttributeError"):
            return []
        return [Item("AttributeError", f"{fr.ref}: {norm(st)[:110]}", self.repo.loc(n, fr.mod), (fr.ref,), None, f"`{norm(base)}` ({bt}.{base.attr}) is Optional, None after construction and assigned later by {sorted({x[0].name for x in later})}: `{norm(n)}` dereferences it without a None test")]

    def _field_sites(self, cls: ast.ClassDef, field: str):
        """(method, stmt, value, ancestors-within-method) for every `self.<field> = value` in the class"""
        out = []
        for m in cls.body:
            if not isinstance(m, (ast.FunctionDef, ast.AsyncFunctionDef)):
                continue

            def rec(stmts, anc):
                for st in stmts:
                    if isinstance(st, (ast.FunctionDef, ast.AsyncFunctionDef, ast.ClassDef)):
                        continue
                    if isinstance(st, (ast.Assign, ast.AnnAssign)) and st.value is not None:
                        tg = st.targets if isinstance(st, ast.Assign) else [st.target]
                        for t in tg:
                            if isinstance(t, ast.Attribute) and isinstance(t.value, ast.Name) and t.value.id == "self" and t.attr == field:
                                out.append((m, st, st.value, anc, stmts))
                    for fld in ("body", "orelse", "finalbody"):
                        sub = getattr(st, fld, None)
                        if sub:
                            rec(sub, anc + [(st, fld)])
                    for h in getattr(st, "handlers", []) or []:
                        rec(h.body, anc + [(st, "handler")])

            rec(m.body, [])
        return out

    @staticmethod
    def _always_raises(stmts) -> bool:
        return bool(stmts) and isinstance(stmts[-1], ast.Raise)

    def _conditionally_initialised(self, cls: ast.ClassDef, field: str) -> bool:
        """no method assigns a non-None value to self.<field> on all of its normal paths: the field is
        None on some histories by design, so a dereference needs a test.  An assignment counts as
        unconditional when it is at method top level, inside `with`, in a try body whose handlers all
        raise, or present in both arms of a top-level if/else."""
        key = (cls.name, field)
        memo = self.__dict__.setdefault("_condinit", {})
        if key in memo:
            return memo[key]
        sites = [x for x in self._field_sites(cls, field) if not (isinstance(x[2], ast.Constant) and x[2].value is None)]
        uncond = False
        arms: dict[int, set] = {}
        for m, st, v, anc, _blk in sites:
            conds = []
            for a, fld in anc:
                if isinstance(a, (ast.With, ast.AsyncWith)):
                    continue
                if isinstance(a, ast.Try) and fld == "body" and all(self._always_raises(h.body) for h in a.handlers):
                    continue
                conds.append((a, fld))
            if not conds:
                uncond = True
            elif len(conds) == 1 and isinstance(conds[0][0], ast.If) and conds[0][0] in m.body:
                arms.setdefault(id(conds[0][0]), set()).add(conds[0][1])
        if any(x == {"body", "orelse"} for x in arms.values()):
            uncond = True
        memo[key] = bool(sites) and not uncond
        return memo[key]

    def _flag_correlated(self, cls: ast.ClassDef, f: Fn, n, field: str) -> bool:
        """the use is guarded by a boolean field self.F, and every `self.F = True` in the class directly
        follows (same block) a non-None assignment to self.<field>, which is never reset to None"""
        sites = self._field_sites(cls, field)
        if any(isinstance(v, ast.Constant) and v.value is None and m.name != "__init__" for m, st, v, anc, blk in sites):
            return False
        for a, pol in f.guard_atoms(n):
            if not (pol and a.startswith("self.") and a[5:].isidentifier()):
                continue
            flag_sites = [x for x in self._field_sites(cls, a[5:]) if isinstance(x[2], ast.Constant) and x[2].value is True]
            if not flag_sites:
                continue
            ok = True
            for m, st, v, anc, blk in flag_sites:
                idx = blk.index(st)
                if not any(s2 is b for b in blk[:idx] for (m2, s2, v2, a2, b2) in sites if not (isinstance(v2, ast.Constant) and v2.value is None)):
                    ok = False
            if ok:
                return True
        return False

    @staticmethod
    def _shortcircuit_guard(node, raw: str) -> bool:
        child = node
        for anc in _ancestors(node):
            if isinstance(anc, ast.BoolOp):
                idx = next((i for i, v in enumerate(anc.values) if v is child or any(x is child for x in ast.walk(v))), None)
                if idx:
                    for v in anc.values[:idx]:
                        tv = norm(v)
                        if isinstance(anc.op, ast.Or) and tv == f"{raw} is None":
                            return True
                        if isinstance(anc.op, ast.And) and tv in (f"{raw} is not None", raw):
                            return True
            if isinstance(anc, ast.IfExp) and child is anc.body and norm(anc.test) in (f"{raw} is not None", raw):
                return True
            if isinstance(anc, ast.stmt):
                break
            child = anc
        return False

    def _optional_use(self, fr, f: Fn, st, e, how) -> list[Item]:
        fld = self._optional_field(fr, e)
        if fld and not self._none_guard(f, e, e):
            if self.suppressed(fr, st, "TypeError"):
                return []
            return [Item("TypeError", f"{fr.ref}: {norm(st)[:110]}", self.repo.loc(e, fr.mod), (fr.ref,), None, f"Optional message field {fld} is {how} without a None check (absent extension)")]
        return []

    def _optional_param(self, fr, f: Fn, st, e, how) -> list[Item]:
        """S7c (contradiction rule): a parameter declared Optional that the same function tests against None somewhere
        is used here in a way that needs a value (len / subscript) on a path without such a test"""
        if not (isinstance(e, ast.Name) and f.is_param(e.id)):
            return []
        arg = next((a for a in fr.node.args.posonlyargs + fr.node.args.args + fr.node.args.kwonlyargs if a.arg == e.id), None)
        ann = norm(arg.annotation) if arg is not None and arg.annotation is not None else ""
        if not ann.startswith("Optional["):
            return []
        tested = any(isinstance(x, ast.Compare) and len(x.ops) == 1 and isinstance(x.ops[0], (ast.Is, ast.IsNot)) and norm(x.left) == e.id and isinstance(x.comparators[0], ast.Constant) and x.comparators[0].value is None for x in f.nodes(ast.Compare))
        if not tested:
            return []
        if self._none_guard(f, e, e) or self._shortcircuit_guard(e, e.id) or self._ifexp_guard(e, e.id):
            return []
        if f.assigns(chain=e.id) and any(f.before(s2, e) and not (isinstance(v2, ast.Constant) and v2.value is None) for s2, t2, v2 in f.assigns(chain=e.id)):
            return []
        if self.suppressed(fr, st, "TypeError"):
            return []
        return [Item("TypeError", f"{fr.ref}: {norm(st)[:110]}", self.repo.loc(e, fr.mod), (fr.ref,), None, f"Optional parameter `{e.id}` (tested against None elsewhere in this function) is {how} on a path without that test")]

    @staticmethod
    def _ifexp_guard(node, raw: str) -> bool:
        """node sits in the arm of a conditional expression that the test `raw is None` / `raw is not None` selects"""
        child = node
        for anc in _ancestors(node):
            if isinstance(anc, ast.IfExp):
                t = norm(anc.test)
                in_body = any(x is child for x in ast.walk(anc.body))
                in_else = any(x is child for x in ast.walk(anc.orelse))
                if (in_body and t in (f"{raw} is not None", raw)) or (in_else and t in (f"{raw} is None", f"not {raw}")):
                    return True
            child = anc
        return False

    def _optional_args(self, fr, f: Fn, st, call, cal: FuncRef) -> list[Item]:
        out = []
        params = [a.arg for a in cal.node.args.posonlyargs + cal.node.args.args]
        if getattr(cal.node, "_class", None) is not None and params and params[0] == "self":
            params = params[1:]
        for i, a in enumerate(call.args):
            fld = self._optional_field(fr, a)
            if not fld or i >= len(params) or self._none_guard(f, call, a):
                continue
            p = params[i]
            calf = self.fn(cal)
            # parameter dereferenced without a None check in the callee
            for n in calf.nodes(ast.Subscript):
                if isinstance(n.value, ast.Name) and n.value.id == p and not self._none_guard(calf, n, n.value):
                    if not self.suppressed(fr, st, "TypeError"):
                        out.append(Item("TypeError", f"{fr.ref}: {norm(st)[:110]}", self.repo.loc(a, fr.mod), (fr.ref,), None, f"Optional message field {fld} passed to {cal.qual}({p}) which subscripts it without a None check"))
                    break
            else:
                for s2 in calf.stmts(lambda s: isinstance(s, ast.For)):
                    if isinstance(s2.iter, ast.Name) and s2.iter.id == p and not self._none_guard(calf, s2, s2.iter):
                        out.append(Item("TypeError", f"{fr.ref}: {norm(st)[:110]}", self.repo.loc(a, fr.mod), (fr.ref,), None, f"Optional message field {fld} passed to {cal.qual}({p}) which iterates it without a None check"))
                        break
        return out

    def _property(self, fr, f: Fn, st, n: ast.Attribute) -> list[Item]:
        bt = self.prog.class_of_type(self.prog.expr_type(fr, n.value))
        if not bt or bt not in self.prog.classes:
            return []
        out = []
        for m in self.prog.class_methods(bt, n.attr, with_subclasses=False):
            if any(isinstance(d, ast.Name) and d.id == "property" for d in m.node.decorator_list):
                for it in self.esc.get(id(m.node), {}).values():
                    if self.suppressed(fr, st, it.cls):
                        continue
                    out.append(Item(it.cls, it.origin, it.loc, (fr.ref,) + it.chain, None, it.why))
        return out

    # ---- queries ---------------------------------------------------------------------------
    def escaping(self, ref: str) -> list[Item]:
        fr = self.prog.by_ref.get(ref)
        if fr is None:
            raise AnalysisError(f"boundary function {ref} not found")
        return sorted(self.esc[id(fr.node)].values(), key=lambda i: (i.cls, i.origin))

    def reachable(self, ref: str) -> set:
        """functions reachable from ref through resolved calls"""
        fr = self.prog.by_ref.get(ref)
        seen = {id(fr.node)}
        work = [fr]
        out = [fr]
        while work:
            x = work.pop()
            for st in stmts_of(x.node):
                for n in self._expr_nodes(st):
                    if isinstance(n, ast.Call):
                        for cal in self.prog.resolve_call(x, n):
                            if isinstance(cal, FuncRef) and id(cal.node) not in seen:
                                seen.add(id(cal.node))
                                work.append(cal)
                                out.append(cal)
        return out

    def source_sites(self, funcs) -> int:
        n = 0
        for fr in funcs:
            for st in stmts_of(fr.node):
                if isinstance(st, (ast.Raise, ast.Assert)):
                    n += 1
                for x in self._expr_nodes(st):
                    if isinstance(x, ast.Call):
                        n += 1
        return n


def _within(node, root) -> bool:
    n = node
    while n is not None:
        if n is root:
            return True
        n = getattr(n, "_parent", None)
    return False


def _static_truth(e):
    """truth value of a literal expression, None if not a literal"""
    if isinstance(e, ast.Constant):
        return bool(e.value)
    if isinstance(e, (ast.List, ast.Tuple, ast.Set)):
        return bool(e.elts)
    if isinstance(e, ast.Dict):
        return bool(e.keys)
    return None


def _ancestors(n):
    p = getattr(n, "_parent", None)
    while p is not None:
        yield p
        p = getattr(p, "_parent", None)
