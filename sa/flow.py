"""E2 - call resolution and function-value flow.

Receivers are resolved from annotations (parameters, `self.x: T`, dataclass
fields, annotated returns, constructor calls); what cannot be typed falls back
to method-name resolution across the package's classes.  Indirect calls are
resolved by a flow-insensitive, field-name-sensitive propagation of function
values (module functions, bound methods, lambdas, functools.partial) through
assignments, arguments, parameter-to-field stores and container inserts.
"""
from __future__ import annotations

import ast
from typing import Optional

from .pyfacts import Repo, attr_chain, call_name, norm, stmts_of, walk_no_nested

C_CLASSES = {"Buffer", "AEAD", "HeaderProtection"}


class FuncRef:
    __slots__ = ("mod", "qual", "node")

    def __init__(self, mod, qual, node):
        self.mod, self.qual, self.node = mod, qual, node

    @property
    def ref(self):
        return f"{self.mod.name}:{self.qual}"

    def __hash__(self):
        return id(self.node)

    def __eq__(self, o):
        return isinstance(o, FuncRef) and o.node is self.node

    def __repr__(self):
        return self.ref


class Program:
    def __init__(self, repo: Repo):
        self.repo = repo
        self.funcs: dict[int, FuncRef] = {}
        self.by_ref: dict[str, FuncRef] = {}
        self.classes: dict[str, tuple] = {}  # class name -> (module, ClassDef)  (names are unique in the package)
        self.methods_by_name: dict[str, list[FuncRef]] = {}
        self.subclasses: dict[str, list[str]] = {}
        for m in repo.modules.values():
            if m.path.endswith(".pyi"):
                continue
            for q, node in m.functions.items():
                fr = FuncRef(m, q, node)
                self.funcs[id(node)] = fr
                self.by_ref[fr.ref] = fr
                if getattr(node, "_class", None) is not None:
                    self.methods_by_name.setdefault(node.name, []).append(fr)
            for cq, c in m.classes.items():
                self.classes.setdefault(c.name, (m, c))
        for name, (m, c) in self.classes.items():
            for b in c.bases:
                bn = attr_chain(b)
                if bn:
                    self.subclasses.setdefault(bn.split(".")[-1], []).append(name)
        self.field_types: dict[tuple[str, str], str] = {}  # (class, field) -> type text
        self._collect_field_types()
        # function value flow
        self.fieldvals: dict[str, set] = {}  # field/attr name -> {FuncRef | ('c', name)}
        self.paramvals: dict[tuple[int, str], set] = {}  # (id(func node), param) -> values
        self._calls_cache: dict[int, list] = {}
        self._solve_flow()

    # ---- types -------------------------------------------------------------------
    def _collect_field_types(self):
        for name, (m, c) in self.classes.items():
            for st in c.body:
                if isinstance(st, ast.AnnAssign) and isinstance(st.target, ast.Name):
                    self.field_types[(name, st.target.id)] = norm(st.annotation)
            for st in c.body:
                if isinstance(st, (ast.FunctionDef, ast.AsyncFunctionDef)):
                    params = {a.arg: norm(a.annotation) for a in st.args.args + st.args.kwonlyargs if a.annotation is not None}
                    for n in ast.walk(st):
                        tgt = val = ann = None
                        if isinstance(n, ast.AnnAssign):
                            tgt, val, ann = n.target, n.value, norm(n.annotation)
                        elif isinstance(n, ast.Assign) and len(n.targets) == 1:
                            tgt, val = n.targets[0], n.value
                        if tgt is None or not (isinstance(tgt, ast.Attribute) and isinstance(tgt.value, ast.Name) and tgt.value.id == "self"):
                            continue
                        key = (name, tgt.attr)
                        if ann:
                            self.field_types[key] = ann
                        elif key not in self.field_types and val is not None:
                            t = self._ctor_type(val, params)
                            if t:
                                self.field_types[key] = t

    def _ctor_type(self, val, params=None) -> Optional[str]:
        if isinstance(val, ast.Call):
            cn = call_name(val).split(".")[-1]
            if cn in self.classes or cn in C_CLASSES:
                return cn
            if cn in ("deque", "dict", "list", "set"):
                return cn
        if isinstance(val, ast.Name) and params and val.id in params:
            return params[val.id]
        if isinstance(val, (ast.Dict, ast.DictComp)):
            return "dict"
        if isinstance(val, (ast.List, ast.ListComp)):
            return "list"
        return None

    def class_of_type(self, t: Optional[str]) -> Optional[str]:
        """'Optional[QuicStream]' -> 'QuicStream'; 'tls.Context' -> 'Context'"""
        if not t:
            return None
        t = t.strip("'\"")
        for wrap in ("Optional[", "Union["):
            if t.startswith(wrap) and t.endswith("]"):
                inner = t[len(wrap) : -1]
                parts = [p.strip() for p in inner.split(",") if p.strip() != "None"]
                t = parts[0] if parts else t
        base = t.split("[")[0].split(".")[-1]
        if base in self.classes or base in C_CLASSES:
            return base
        return None

    def elem_type(self, t: Optional[str]) -> Optional[str]:
        """element/value type of a container annotation"""
        if not t or "[" not in t:
            return None
        head, inner = t.split("[", 1)
        inner = inner.rsplit("]", 1)[0]
        head = head.split(".")[-1]
        depth, parts, cur = 0, [], ""
        for ch in inner:
            if ch == "[":
                depth += 1
            elif ch == "]":
                depth -= 1
            if ch == "," and depth == 0:
                parts.append(cur.strip())
                cur = ""
            else:
                cur += ch
        parts.append(cur.strip())
        if head in ("dict", "Dict") and len(parts) == 2:
            return parts[1]
        if head in ("list", "List", "Deque", "deque", "Set", "set", "FrozenSet", "Sequence", "Iterable", "Optional"):
            return parts[0]
        return None

    def expr_type(self, fr: FuncRef, e: ast.expr, depth: int = 0) -> Optional[str]:
        """type text of expression e inside function fr (best effort)"""
        if depth > 6:
            return None
        node = fr.node
        if isinstance(e, ast.Name):
            if e.id == "self" and getattr(node, "_class", None) is not None:
                return node._class.name
            if e.id == "self":
                # nested function inside a method
                p = node
                while p is not None and getattr(p, "_class", None) is None:
                    p = getattr(p, "_parent", None)
                    while p is not None and not isinstance(p, (ast.FunctionDef, ast.AsyncFunctionDef)):
                        p = getattr(p, "_parent", None)
                if p is not None:
                    return p._class.name
            for a in node.args.args + node.args.kwonlyargs + node.args.posonlyargs:
                if a.arg == e.id and a.annotation is not None:
                    return norm(a.annotation)
            # local assignment / for target / with target
            for st in stmts_of(node):
                if isinstance(st, ast.AnnAssign) and isinstance(st.target, ast.Name) and st.target.id == e.id:
                    return norm(st.annotation)
            for st in stmts_of(node):
                if isinstance(st, ast.Assign):
                    for t in st.targets:
                        if isinstance(t, ast.Name) and t.id == e.id:
                            ty = self._ctor_type(st.value) or self.expr_type(fr, st.value, depth + 1)
                            if ty:
                                return ty
                if isinstance(st, (ast.For, ast.AsyncFor)) and isinstance(st.target, ast.Name) and st.target.id == e.id:
                    it = st.iter
                    if isinstance(it, ast.Call) and call_name(it).endswith(".values") and isinstance(it.func, ast.Attribute):
                        it = it.func.value
                    ty = self.elem_type(self.expr_type(fr, it, depth + 1))
                    if ty:
                        return ty
                if isinstance(st, (ast.With, ast.AsyncWith)):
                    for it in st.items:
                        if isinstance(it.optional_vars, ast.Name) and it.optional_vars.id == e.id and isinstance(it.context_expr, ast.Call):
                            for cal in self.resolve_call(fr, it.context_expr):
                                if isinstance(cal, FuncRef) and cal.node.returns is not None:
                                    r = norm(cal.node.returns)
                                    el = self.elem_type(r)
                                    return el or r
            return None
        if isinstance(e, ast.Attribute):
            bt = self.class_of_type(self.expr_type(fr, e.value, depth + 1))
            if bt:
                t = self.lookup_field(bt, e.attr)
                if t:
                    return t
                # property with annotated return
                for m in self.class_methods(bt, e.attr):
                    if m.node.returns is not None:
                        return norm(m.node.returns)
            return None
        if isinstance(e, ast.Subscript):
            return self.elem_type(self.expr_type(fr, e.value, depth + 1))
        if isinstance(e, ast.Call):
            t = self._ctor_type(e)
            if t:
                return t
            for cal in self.resolve_call(fr, e):
                if isinstance(cal, FuncRef) and cal.node.returns is not None:
                    return norm(cal.node.returns)
            if call_name(e).endswith(".get") and isinstance(e.func, ast.Attribute):
                return self.elem_type(self.expr_type(fr, e.func.value, depth + 1))
        if isinstance(e, ast.IfExp):
            return self.expr_type(fr, e.body, depth + 1) or self.expr_type(fr, e.orelse, depth + 1)
        return None

    def lookup_field(self, cls: str, field: str) -> Optional[str]:
        seen = set()
        work = [cls]
        while work:
            c = work.pop()
            if c in seen:
                continue
            seen.add(c)
            if (c, field) in self.field_types:
                return self.field_types[(c, field)]
            if c in self.classes:
                for b in self.classes[c][1].bases:
                    bn = attr_chain(b)
                    if bn:
                        work.append(bn.split(".")[-1])
        return None

    def class_methods(self, cls: str, name: str, with_subclasses: bool = True) -> list[FuncRef]:
        out = []
        seen = set()
        work = [cls]
        # up the hierarchy
        while work:
            c = work.pop()
            if c in seen or c not in self.classes:
                continue
            seen.add(c)
            m, cd = self.classes[c]
            q = None
            for cq, cnode in m.classes.items():
                if cnode is cd:
                    q = cq
            fr = self.by_ref.get(f"{m.name}:{q}.{name}")
            if fr:
                out.append(fr)
                break
            for b in cd.bases:
                bn = attr_chain(b)
                if bn:
                    work.append(bn.split(".")[-1])
        if with_subclasses:
            work = list(self.subclasses.get(cls, []))
            while work:
                c = work.pop()
                if c in seen or c not in self.classes:
                    continue
                seen.add(c)
                m, cd = self.classes[c]
                for cq, cnode in m.classes.items():
                    if cnode is cd:
                        fr = self.by_ref.get(f"{m.name}:{cq}.{name}")
                        if fr:
                            out.append(fr)
                work += self.subclasses.get(c, [])
        return out

    # ---- function values ---------------------------------------------------------------
    def funcvals_of(self, fr: FuncRef, e: ast.expr, depth: int = 0) -> set:
        """function values expression e may denote"""
        out = set()
        if depth > 5 or e is None:
            return out
        if isinstance(e, ast.Lambda):
            return {("lambda", id(e))}
        if isinstance(e, ast.Call):
            cn = call_name(e)
            if cn in ("partial", "functools.partial") and e.args:
                return self.funcvals_of(fr, e.args[0], depth + 1)
            return out
        if isinstance(e, ast.Name):
            # nested def / module function / imported function / parameter / local
            q = fr.qual + ".<locals>." + e.id
            if f"{fr.mod.name}:{q}" in self.by_ref:
                return {self.by_ref[f"{fr.mod.name}:{q}"]}
            tgt = self.repo.resolve_name(fr.mod, e)
            if tgt is not None and tgt[0] == "func":
                f = self.funcs.get(id(tgt[2]))
                return {f} if f else out
            if self._is_param(fr, e.id):
                return set(self.paramvals.get((id(fr.node), e.id), ()))
            # enclosing function's params (closures)
            p = self._enclosing_fr(fr)
            if p is not None and self._is_param(p, e.id):
                return set(self.paramvals.get((id(p.node), e.id), ()))
            for st in stmts_of(fr.node):
                if isinstance(st, ast.Assign):
                    for t in st.targets:
                        if isinstance(t, ast.Name) and t.id == e.id:
                            out |= self.funcvals_of(fr, st.value, depth + 1)
                        elif isinstance(t, (ast.Tuple, ast.List)) and any(isinstance(x, ast.Name) and x.id == e.id for x in t.elts):
                            out |= self._container_vals(fr, st.value, depth + 1)
                if isinstance(st, (ast.For, ast.AsyncFor)) and any(isinstance(x, ast.Name) and x.id == e.id for x in ast.walk(st.target)):
                    out |= self._container_vals(fr, st.iter, depth + 1)
            return out
        if isinstance(e, ast.Attribute):
            # bound method of a typed receiver?
            bt = self.class_of_type(self.expr_type(fr, e.value))
            if bt:
                if bt in C_CLASSES:
                    return {("c", bt + "." + e.attr)}
                ms = self.class_methods(bt, e.attr)
                if ms:
                    return set(ms)
            tgt = self.repo.resolve_name(fr.mod, e)
            if tgt is not None and tgt[0] == "func":
                f = self.funcs.get(id(tgt[2]))
                if f:
                    return {f}
            out |= self.fieldvals.get(e.attr, set())
            if not out and bt is None and e.attr.startswith(("pull_", "push_")):
                return {("c", "Buffer." + e.attr)}
            return out
        if isinstance(e, ast.Subscript):
            return self._container_vals(fr, e.value, depth + 1)
        if isinstance(e, ast.IfExp):
            return self.funcvals_of(fr, e.body, depth + 1) | self.funcvals_of(fr, e.orelse, depth + 1)
        return out

    def _container_vals(self, fr, e, depth):
        """function values stored in the container denoted by e"""
        if isinstance(e, ast.Subscript):
            return self._container_vals(fr, e.value, depth)
        if isinstance(e, ast.Attribute):
            return set(self.fieldvals.get(e.attr.lstrip("_") if False else e.attr, set())) | set(self.fieldvals.get(_demangle(e.attr), set()))
        if isinstance(e, ast.Name):
            return self.funcvals_of(fr, e, depth)
        if isinstance(e, ast.Call) and isinstance(e.func, ast.Attribute) and e.func.attr in ("values", "items", "get", "pop", "popleft"):
            return self._container_vals(fr, e.func.value, depth)
        return set()

    def _is_param(self, fr, name):
        a = fr.node.args
        return name in [x.arg for x in a.posonlyargs + a.args + a.kwonlyargs]

    def _enclosing_fr(self, fr) -> Optional[FuncRef]:
        p = getattr(fr.node, "_parent", None)
        while p is not None and not isinstance(p, (ast.FunctionDef, ast.AsyncFunctionDef)):
            p = getattr(p, "_parent", None)
        return self.funcs.get(id(p)) if p is not None else None

    def _solve_flow(self):
        for _ in range(8):
            before = (sum(len(v) for v in self.fieldvals.values()), sum(len(v) for v in self.paramvals.values()))
            self._calls_cache.clear()
            for fr in list(self.funcs.values()):
                self._flow_function(fr)
            after = (sum(len(v) for v in self.fieldvals.values()), sum(len(v) for v in self.paramvals.values()))
            if after == before:
                break
        self._calls_cache.clear()

    def _vals_in(self, fr, e):
        """function values appearing anywhere inside expression e (tuples, dict values ...)"""
        out = set()
        if e is None:
            return out
        stack = [e]
        while stack:
            x = stack.pop()
            v = self.funcvals_of(fr, x) if isinstance(x, (ast.Name, ast.Attribute, ast.Lambda, ast.Call, ast.Subscript)) else set()
            if v:
                out |= v
                continue
            if isinstance(x, (ast.Tuple, ast.List, ast.Set)):
                stack += x.elts
            elif isinstance(x, ast.Dict):
                stack += [v for v in x.values if v is not None]
            elif isinstance(x, ast.Starred):
                stack.append(x.value)
        return out

    def _flow_function(self, fr):
        for st in stmts_of(fr.node):
            # attribute stores
            if isinstance(st, (ast.Assign, ast.AnnAssign)):
                targets = st.targets if isinstance(st, ast.Assign) else [st.target]
                val = st.value
                for t in targets:
                    if isinstance(t, ast.Attribute) and val is not None:
                        vs = self._vals_in(fr, val)
                        if vs:
                            self.fieldvals.setdefault(_demangle(t.attr), set()).update(vs)
                    if isinstance(t, ast.Subscript) and isinstance(t.value, ast.Attribute) and val is not None:
                        vs = self._vals_in(fr, val)
                        if vs:
                            self.fieldvals.setdefault(_demangle(t.value.attr), set()).update(vs)
            for n in _stmt_nodes(st):
                if not isinstance(n, ast.Call):
                    continue
                # container inserts: x.attr.append((handler, args))
                if isinstance(n.func, ast.Attribute) and n.func.attr in ("append", "add", "insert", "extend", "update", "setdefault") and isinstance(n.func.value, ast.Attribute):
                    vs = set()
                    for a in n.args:
                        vs |= self._vals_in(fr, a)
                    if vs:
                        self.fieldvals.setdefault(_demangle(n.func.value.attr), set()).update(vs)
                # arguments -> parameters
                callees = [c for c in self.resolve_call(fr, n) if isinstance(c, FuncRef)]
                for cal in callees:
                    params = [a.arg for a in cal.node.args.posonlyargs + cal.node.args.args]
                    is_method = getattr(cal.node, "_class", None) is not None and params and params[0] in ("self", "cls")
                    pos = params[1:] if is_method and not self._called_unbound(n, cal) else params
                    # partial(f, a, b) call through the partial: leading args are pre-bound (not tracked)
                    for i, a in enumerate(n.args):
                        if isinstance(a, ast.Starred):
                            continue
                        if i < len(pos):
                            vs = self._vals_in(fr, a)
                            if vs:
                                self.paramvals.setdefault((id(cal.node), pos[i]), set()).update(vs)
                    kwn = [a.arg for a in cal.node.args.kwonlyargs] + params
                    for k in n.keywords:
                        if k.arg and k.arg in kwn:
                            vs = self._vals_in(fr, k.value)
                            if vs:
                                self.paramvals.setdefault((id(cal.node), k.arg), set()).update(vs)

    def _called_unbound(self, call, cal):
        return False

    # ---- call resolution ----------------------------------------------------------------------
    def resolve_call(self, fr: FuncRef, call: ast.Call) -> list:
        """callees of a call: FuncRef | ('c', 'Buffer.pull_uint8') | ('ext', dotted name) | ('ctor', class)"""
        key = id(call)
        if key in self._calls_cache:
            return self._calls_cache[key]
        res = self._resolve_call(fr, call)
        self._calls_cache[key] = res
        return res

    def _resolve_call(self, fr, call):
        f = call.func
        out = []
        if isinstance(f, ast.Name):
            # nested function, module function, class constructor, imported, local function value
            q = fr.qual + ".<locals>." + f.id
            if f"{fr.mod.name}:{q}" in self.by_ref:
                return [self.by_ref[f"{fr.mod.name}:{q}"]]
            p = self._enclosing_fr(fr)
            if p is not None and f"{p.mod.name}:{p.qual}.<locals>.{f.id}" in self.by_ref:
                return [self.by_ref[f"{p.mod.name}:{p.qual}.<locals>.{f.id}"]]
            tgt = self.repo.resolve_name(fr.mod, f)
            if tgt is not None:
                if tgt[0] == "func":
                    fx = self.funcs.get(id(tgt[2]))
                    return [fx] if fx else []
                if tgt[0] == "class":
                    init = self.class_methods(tgt[2].name, "__init__", with_subclasses=False)
                    post = self.class_methods(tgt[2].name, "__post_init__", with_subclasses=False)
                    return [("ctor", tgt[2].name)] + init + post
            imp = fr.mod.imports.get(f.id, "")
            if imp.startswith("_buffer:") or imp.startswith("_crypto:") or imp.startswith("buffer:Buffer"):
                return [("c", f.id + ".__init__")]
            if imp.startswith("ext:"):
                return [("ext", imp[4:].replace(":", "."))]
            vals = self.funcvals_of(fr, f)
            if vals:
                return sorted(vals, key=repr)
            if f.id in dir(__builtins__) or f.id in BUILTINS:
                return [("builtin", f.id)]
            return [("unknown", f.id)]
        if isinstance(f, ast.Attribute):
            # module.function
            tgt = self.repo.resolve_name(fr.mod, f)
            if tgt is not None:
                if tgt[0] == "func":
                    fx = self.funcs.get(id(tgt[2]))
                    return [fx] if fx else []
                if tgt[0] == "class":
                    init = self.class_methods(tgt[2].name, "__init__", with_subclasses=False)
                    return [("ctor", tgt[2].name)] + init
            # super().__init__
            if isinstance(f.value, ast.Call) and call_name(f.value) == "super":
                cls = getattr(fr.node, "_class", None)
                if cls is not None:
                    for b in cls.bases:
                        bn = attr_chain(b)
                        if bn:
                            ms = self.class_methods(bn.split(".")[-1], f.attr, with_subclasses=False)
                            if ms:
                                return ms
                return [("ext", "super." + f.attr)]
            rt = self.expr_type(fr, f.value)
            bt = self.class_of_type(rt)
            if bt:
                if bt in C_CLASSES:
                    return [("c", bt + "." + f.attr)]
                ms = self.class_methods(bt, f.attr)
                if ms:
                    return ms
                # field holding a function value
                vals = self.fieldvals.get(_demangle(f.attr))
                if vals:
                    return sorted(vals, key=repr)
                return [("unknown-method", bt + "." + f.attr)]
            if rt is not None:
                return [("ext", rt.split("[")[0] + "." + f.attr)]
            # external module receiver?
            root = f
            while isinstance(root, ast.Attribute):
                root = root.value
            if isinstance(root, ast.Name) and fr.mod.imports.get(root.id, "").startswith("ext:"):
                return [("ext", fr.mod.imports[root.id][4:].replace(":", ".") + "." + norm(f)[len(root.id) + 1 :])]
            # Buffer methods are recognisable by name
            if f.attr in BUFFER_METHODS:
                return [("c", "Buffer." + f.attr)]
            vals = self.fieldvals.get(_demangle(f.attr))
            if vals:
                return sorted(vals, key=repr)
            # name-based fallback over package classes
            ms = self.methods_by_name.get(f.attr, [])
            if ms and len(ms) <= 4:
                return list(ms)
            return [("unknown-attr", norm(f)[:60])]
        vals = self.funcvals_of(fr, f)
        if vals:
            return sorted(vals, key=repr)
        return [("unknown", norm(f)[:40])]


BUFFER_METHODS = {
    "pull_bytes",
    "pull_uint8",
    "pull_uint16",
    "pull_uint32",
    "pull_uint64",
    "pull_uint_var",
    "push_bytes",
    "push_uint8",
    "push_uint16",
    "push_uint32",
    "push_uint64",
    "push_uint_var",
    "data_slice",
    "seek",
    "tell",
    "eof",
}
BUILTINS = {"len", "min", "max", "int", "bool", "bytes", "str", "isinstance", "range", "enumerate", "sorted", "set", "list", "dict", "tuple", "frozenset", "getattr", "setattr", "iter", "next", "sum", "abs", "filter", "map", "repr", "id", "bytearray", "zip", "any", "all", "print", "hasattr", "type", "open", "super", "ValueError", "Exception", "KeyError", "float", "round", "reversed"}


def _demangle(attr: str) -> str:
    return attr


def _stmt_nodes(st):
    if isinstance(st, (ast.FunctionDef, ast.AsyncFunctionDef, ast.ClassDef)):
        return
    for field, value in ast.iter_fields(st):
        if field in ("body", "orelse", "finalbody", "handlers", "cases"):
            continue
        vals = value if isinstance(value, list) else [value]
        for v in vals:
            if isinstance(v, ast.AST):
                yield from walk_no_nested(v)
