"""E6 - bounds analysis of the C helpers over the clang JSON AST.

A path-enumerating abstract interpreter: integer variables are linear
expressions over symbols constrained by a conjunction of linear inequalities
(sa/linear.py, entailment by Fourier-Motzkin); pointers are (region, offset).
Every memory access, pointer addition with a non-constant operand, library call
with a documented extent, object invariant and error-return is an obligation
that is either implied by the abstract state on *every* path or reported.

Any construct outside the supported subset raises AnalysisError (exit 2).
"""
from __future__ import annotations

import json
import os
import re
import subprocess
from fractions import Fraction

from .linear import Lin, Store
from .report import AnalysisError

INT_RANGES = {
    "char": (-128, 127),
    "signed char": (-128, 127),
    "unsigned char": (0, 255),
    "short": (-(1 << 15), (1 << 15) - 1),
    "unsigned short": (0, (1 << 16) - 1),
    "int": (-(1 << 31), (1 << 31) - 1),
    "unsigned int": (0, (1 << 32) - 1),
    "long": (-(1 << 63), (1 << 63) - 1),
    "unsigned long": (0, (1 << 64) - 1),
    "long long": (-(1 << 63), (1 << 63) - 1),
    "unsigned long long": (0, (1 << 64) - 1),
    "_Bool": (0, 1),
}
TYPEDEFS = {
    "uint8_t": "unsigned char",
    "uint16_t": "unsigned short",
    "uint32_t": "unsigned int",
    "uint64_t": "unsigned long",
    "int64_t": "long",
    "int32_t": "int",
    "Py_ssize_t": "long",
    "ssize_t": "long",
    "size_t": "unsigned long",
    "__uint8_t": "unsigned char",
    "__uint16_t": "unsigned short",
    "__uint32_t": "unsigned int",
    "__uint64_t": "unsigned long",
}
SMALL_CONST = 4096  # pointer + constant below this is not treated as an overflow hazard (see trusted base)


def canon_type(t: dict) -> str:
    s = t.get("desugaredQualType") or t.get("qualType") or ""
    s = s.replace("const ", "").replace("volatile ", "").strip()
    base = s
    if base in TYPEDEFS:
        return TYPEDEFS[base]
    return s


def int_range(tname: str):
    tname = TYPEDEFS.get(tname, tname)
    return INT_RANGES.get(tname)


def find_python_include() -> str:
    cands = []
    for exe in ("/venv/bin/python", "python3"):
        try:
            out = subprocess.run(
                [exe, "-c", "import sysconfig;print(sysconfig.get_paths()['include'])"],
                capture_output=True,
                text=True,
                timeout=30,
            ).stdout.strip().splitlines()
            if out:
                cands.append(out[-1])
        except Exception:
            pass
    cands += ["/root/.pyenv/versions/3.12.1/include/python3.12", "/usr/include/python3.11"]
    for c in cands:
        if os.path.exists(os.path.join(c, "Python.h")):
            return c
    raise AnalysisError("Python.h not found; cannot run the C front end")


def load_c_ast(path: str) -> dict:
    if not os.path.exists(path):
        raise AnalysisError(f"C source {path} not found")
    cmd = [
        "clang",
        "-Xclang",
        "-ast-dump=json",
        "-fsyntax-only",
        "-std=c99",
        "-DPy_LIMITED_API=0x030A0000",
        "-I" + find_python_include(),
        path,
    ]
    try:
        p = subprocess.run(cmd, capture_output=True, timeout=300)
    except FileNotFoundError:
        raise AnalysisError("clang not found")
    if p.returncode != 0:
        raise AnalysisError(f"clang failed on {path}: {p.stderr.decode()[:400]}")
    tu = json.loads(p.stdout)
    _annotate_lines(tu)
    return tu


def _annotate_lines(tu):
    cur = {"line": 0, "file": ""}

    def take(loc):
        if not isinstance(loc, dict):
            return
        for sub in ("spellingLoc", "expansionLoc"):
            if sub in loc:
                take(loc[sub])
        if "file" in loc:
            cur["file"] = loc["file"]
        if "line" in loc:
            cur["line"] = loc["line"]

    def exp_line(loc):
        """line of the expansion point (where the macro is used), tracking deltas"""
        if not isinstance(loc, dict):
            return
        if "expansionLoc" in loc:
            take(loc.get("spellingLoc"))
            take(loc["expansionLoc"])
        else:
            take(loc)

    def walk(n):
        if not isinstance(n, dict):
            return
        if "loc" in n:
            exp_line(n["loc"])
        if "range" in n:
            exp_line(n["range"].get("begin"))
            n["_line"] = cur["line"]
            n["_file"] = cur["file"]
            exp_line(n["range"].get("end"))
        else:
            n["_line"] = cur["line"]
            n["_file"] = cur["file"]
        for c in n.get("inner", []):
            walk(c)

    walk(tu)


# ---- expression text (position independent keys) -------------------------------


def ctext(n) -> str:
    k = n.get("kind")
    inner = [c for c in n.get("inner", []) if c]
    if k in ("ImplicitCastExpr", "ConstantExpr"):
        return ctext(inner[0])
    if k == "ParenExpr":
        return "(" + ctext(inner[0]) + ")"
    if k == "CStyleCastExpr":
        return "(" + n["type"]["qualType"] + ")" + ctext(inner[0])
    if k == "IntegerLiteral":
        return str(n["value"])
    if k == "CharacterLiteral":
        return str(n["value"])
    if k == "StringLiteral":
        return n.get("value", '""')
    if k == "DeclRefExpr":
        return n["referencedDecl"]["name"]
    if k == "MemberExpr":
        return ctext(inner[0]) + ("->" if n.get("isArrow") else ".") + n["name"]
    if k == "UnaryOperator":
        if n.get("isPostfix"):
            return ctext(inner[0]) + n["opcode"]
        return n["opcode"] + ctext(inner[0])
    if k in ("BinaryOperator", "CompoundAssignOperator"):
        return ctext(inner[0]) + " " + n["opcode"] + " " + ctext(inner[1])
    if k == "ArraySubscriptExpr":
        return ctext(inner[0]) + "[" + ctext(inner[1]) + "]"
    if k == "CallExpr":
        return ctext(inner[0]) + "(" + ", ".join(ctext(a) for a in inner[1:]) + ")"
    if k == "UnaryExprOrTypeTraitExpr":
        return n.get("name", "sizeof") + "(" + (ctext(inner[0]) if inner else n.get("argType", {}).get("qualType", "")) + ")"
    if k == "ConditionalOperator":
        return ctext(inner[0]) + " ? " + ctext(inner[1]) + " : " + ctext(inner[2])
    if k == "InitListExpr":
        return "{...}"
    return "<" + str(k) + ">"


def _arg_type(n):
    """declared C type of an argument expression before implicit promotion/conversion"""
    while n.get("kind") in ("ParenExpr", "ImplicitCastExpr", "ConstantExpr"):
        inner = [c for c in n["inner"] if c]
        if n.get("kind") == "ImplicitCastExpr" and n.get("castKind") not in ("LValueToRValue", "NoOp", "IntegralCast"):
            break
        n = inner[0]
    t = n.get("type", {})
    return t.get("qualType")


def strip(n):
    """skip parens and implicit/no-op casts"""
    while n.get("kind") in ("ParenExpr", "ImplicitCastExpr", "ConstantExpr") or (
        n.get("kind") == "CStyleCastExpr" and n.get("castKind") in ("NoOp", "BitCast", "LValueToRValue")
    ):
        n = [c for c in n["inner"] if c][0]
    return n


# ---- abstract values ----------------------------------------------------------


class IntV:
    __slots__ = ("lin", "parse")

    def __init__(self, lin, parse=None):
        self.lin = lin if isinstance(lin, Lin) else Lin.c(lin)
        self.parse = parse  # pending PyArg_Parse effects, applied when branched on

    def __repr__(self):
        return f"Int({self.lin})"


class Ptr:
    __slots__ = ("region", "off", "nullable")

    def __init__(self, region, off, nullable=False):
        self.region = region
        self.off = off if isinstance(off, Lin) else Lin.c(off)
        self.nullable = nullable

    def __repr__(self):
        return f"Ptr({self.region}+{self.off}{'?' if self.nullable else ''})"


class Opaque:
    __slots__ = ("tag", "api", "maybe_null")

    def __init__(self, tag, api=False, maybe_null=True):
        self.tag = tag
        self.api = api  # result of a CPython API call (NULL => exception set)
        self.maybe_null = maybe_null

    def __repr__(self):
        return f"Opaque({self.tag})"


class Null:
    def __repr__(self):
        return "NULL"


class SelfRef:
    def __init__(self, struct):
        self.struct = struct


class AddrOf:
    def __init__(self, kind, name):
        self.kind = kind  # 'var'
        self.name = name


class State:
    def __init__(self):
        self.env = {}
        self.fields = {}
        self.store = Store()
        self.regions = {}  # name -> Lin size in bytes
        self.exc_set = False
        self.path = []  # human readable branch decisions
        self.freed = set()  # regions passed to free()
        self.freed_fields = {}  # field of self passed to free() -> the value it held then

    def copy(self):
        s = State()
        s.env = dict(self.env)
        s.fields = dict(self.fields)
        s.store = self.store.copy()
        s.regions = dict(self.regions)
        s.exc_set = self.exc_set
        s.path = list(self.path)
        s.freed = set(self.freed)
        s.freed_fields = dict(self.freed_fields)
        return s


class Return(Exception):
    pass


class Split(Exception):
    """a ?: expression needs the statement to be re-run in refined states"""

    def __init__(self, node, tstates, fstates):
        self.node, self.tstates, self.fstates = node, tstates, fstates


class CAnalysis:
    """Analyse one translation unit."""

    def __init__(self, path: str, report, crypto_assumption_max_len=None):
        self.path = path
        self.file = os.path.basename(path)
        self.tu = load_c_ast(path)
        self.report = report  # callable(rule, key, ok, msg, line, detail)
        self.funcs = {}
        self.structs = {}  # struct name -> {field: type dict}
        self.nsym = 0
        self.results = {}  # (rule, key) -> [ok, msg, line, detail]
        self.max_len = crypto_assumption_max_len
        self.stats = {"functions": 0, "paths": 0, "accesses": 0, "calls": 0, "loops": 0}
        self.methods = {}  # python method name -> C function (from PyMethodDef tables)
        self.raise_summary = {}  # C function -> set of exception global names
        self._cur_fn = ""
        self._index()

    # ---- indexing ------------------------------------------------------------
    def _index(self):
        main = os.path.abspath(self.path)
        for n in self.tu.get("inner", []):
            if n.get("_file") and os.path.abspath(n["_file"]) != main:
                continue
            if n.get("kind") == "FunctionDecl" and any(c.get("kind") == "CompoundStmt" for c in n.get("inner", [])):
                self.funcs[n["name"]] = n
            if n.get("kind") == "RecordDecl" and n.get("completeDefinition"):
                fields = {}
                for f in n.get("inner", []):
                    if f.get("kind") == "FieldDecl":
                        fields[f["name"]] = f["type"]
                self.structs[n.get("name") or f"anon{n.get('id')}"] = fields
                n["_fields"] = fields
                self._last_record = fields
            if n.get("kind") == "TypedefDecl":
                # typedef struct {...} Name;  -> bind the preceding anonymous record
                if hasattr(self, "_last_record") and "struct" in n["type"].get("qualType", ""):
                    self.structs[n["name"]] = self._last_record

    # ---- symbols -------------------------------------------------------------------
    def fresh(self, st: State, hint: str, rng=None) -> Lin:
        self.nsym += 1
        name = f"{hint}#{self.nsym}"
        s = Lin.sym(name)
        if rng is not None:
            st.store.add_le(rng[0], s)
            st.store.add_le(s, rng[1])
        return s

    # ---- obligations ----------------------------------------------------------------
    def ob(self, rule, node, what, ok, msg, st=None):
        key = f"{self.file}:{self._cur_fn}: {what}"
        line = node.get("_line", 0) if isinstance(node, dict) else 0
        r = self.results.get((rule, key))
        detail = None
        if not ok and st is not None:
            detail = {"path": st.path[-8:]}
        if r is None:
            self.results[(rule, key)] = [ok, msg if not ok else "", line, detail]
        elif not ok and r[0]:
            self.results[(rule, key)] = [False, msg, line, detail]

    def flush(self):
        for (rule, key), (ok, msg, line, detail) in sorted(self.results.items()):
            self.report(rule, key, ok, msg, f"src/aioquic/{self.file}:{line}", detail)

    def in_bounds(self, node, st, ptr: Ptr, n: Lin, what: str, access: str):
        """obligation: [ptr, ptr+n) lies inside ptr.region; n >= 0"""
        self.stats["accesses"] += 1
        size = st.regions.get(ptr.region)
        if size is None:
            self.ob("R1", node, what, False, f"{access}: unknown region {ptr.region}", st)
            return
        problems = []
        if ptr.region in st.freed:
            problems.append(f"{ptr.region} was passed to free() earlier on this path (use after free)")
        if ptr.nullable:
            problems.append("pointer may be NULL (allocation result not checked)")
        if not st.store.entails_le(0, n):
            problems.append(f"length {n} may be negative")
        if not st.store.entails_le(0, ptr.off):
            problems.append(f"offset {ptr.off} may be negative")
        if not st.store.entails_le(ptr.off + n, size):
            problems.append(f"offset {ptr.off} + length {n} may exceed the {size} bytes of {ptr.region}")
        self.ob("R1", node, what, not problems, f"{access}: " + "; ".join(problems), st)

    # ---- driver -------------------------------------------------------------------
    def analyse_function(self, name: str):
        fn = self.funcs[name]
        self._cur_fn = name
        self.stats["functions"] += 1
        st = State()
        params = [c for c in fn.get("inner", []) if c.get("kind") == "ParmVarDecl"]
        body = [c for c in fn.get("inner", []) if c.get("kind") == "CompoundStmt"][0]
        self_struct = None
        for p in params:
            t = p["type"]["qualType"]
            m = re.match(r"(\w+) \*$", t)
            if m and m.group(1) in self.structs and p["name"] == "self":
                self_struct = m.group(1)
                st.env[p["name"]] = SelfRef(self_struct)
                self._init_self(st, self_struct, is_init=name.endswith("_init"))
            else:
                st.env[p.get("name", "_")] = self._param_value(st, p)
        self._self_struct = self_struct
        self._is_init = name.endswith("_init")
        self._ret_type = fn["type"]["qualType"].split("(")[0].strip()
        self._returns = []
        outs = self.exec_block(body, [st])
        # falling off the end of a void function
        for s in outs:
            self._at_return(None, s, None)

    def _param_value(self, st, p):
        t = canon_type(p["type"])
        r = int_range(t)
        if r:
            return IntV(self.fresh(st, p.get("name", "p"), r))
        return Opaque(p.get("name", "param"))

    def _init_self(self, st: State, struct: str, is_init: bool):
        fields = self.structs[struct]
        ptr_fields = [f for f, t in fields.items() if re.match(r"(uint8_t|unsigned char) \*$", t["qualType"])]
        for f, t in fields.items():
            q = t["qualType"]
            m = re.match(r"(unsigned char|uint8_t|char)\[(\d+)\]$", q)
            if m:
                st.regions[f"self->{f}"] = Lin.c(int(m.group(2)))
        if set(ptr_fields) >= {"base", "pos", "end"}:
            self._buffer_like = True
            if not is_init:
                # object invariant: base <= pos <= end, all inside one allocation
                cap = self.fresh(st, "cap", (0, (1 << 63) - 1))
                p = self.fresh(st, "pos", (0, (1 << 63) - 1))
                st.store.add_le(p, cap)
                st.regions["BUF"] = cap
                st.fields["base"] = Ptr("BUF", 0)
                st.fields["pos"] = Ptr("BUF", p)
                st.fields["end"] = Ptr("BUF", cap)
        else:
            self._buffer_like = False

    # ---- statements ---------------------------------------------------------------
    def exec_block(self, block, states):
        for stmt in [c for c in block.get("inner", []) if c]:
            if not states:
                break
            states = self.exec_stmt(stmt, states)
        return states

    _forced: dict = {}

    def exec_stmt(self, n, states):
        if n["kind"] in ("CompoundStmt", "IfStmt", "ForStmt", "SwitchStmt"):
            return self._exec_stmt(n, states)
        out = []
        for st in states:
            try:
                out += self._exec_stmt(n, [st.copy()])
            except Split as sp:
                for choice, sub in ((True, sp.tstates), (False, sp.fstates)):
                    self._forced[id(sp.node)] = choice
                    try:
                        out += self.exec_stmt(n, sub)
                    finally:
                        self._forced.pop(id(sp.node), None)
        return out

    def _exec_stmt(self, n, states):
        k = n["kind"]
        out = []
        if k == "CompoundStmt":
            return self.exec_block(n, states)
        if k == "NullStmt":
            return states
        if k == "DeclStmt":
            for st in states:
                for d in n.get("inner", []):
                    if d.get("kind") != "VarDecl":
                        continue
                    init = [c for c in d.get("inner", []) if c and c.get("kind") not in ("FullComment",)]
                    t = canon_type(d["type"])
                    if init:
                        if init[0].get("kind") == "InitListExpr" or "[" in d["type"]["qualType"]:
                            m = re.search(r"\[(\d+)\]", d["type"]["qualType"])
                            st.regions["local:" + d["name"]] = Lin.c(int(m.group(1)) * 8 if "*" in d["type"]["qualType"] else int(m.group(1))) if m else Lin.c(0)
                            st.env[d["name"]] = Opaque("array:" + d["name"], maybe_null=False)
                            continue
                        v = self.ev(init[0], st)
                        st.env[d["name"]] = self._coerce(st, v, t, d["name"])
                    else:
                        r = int_range(t)
                        if r:
                            st.env[d["name"]] = IntV(self.fresh(st, d["name"] + "_uninit", r))
                        elif "[" in d["type"]["qualType"]:
                            m = re.search(r"\[(\d+)\]", d["type"]["qualType"])
                            st.regions["local:" + d["name"]] = Lin.c(int(m.group(1)))
                            st.env[d["name"]] = Ptr("local:" + d["name"], 0)
                        else:
                            st.env[d["name"]] = Opaque(d["name"] + "_uninit")
                out.append(st)
            return out
        if k == "IfStmt":
            inner = [c for c in n.get("inner", []) if c]
            cond, then = inner[0], inner[1]
            els = inner[2] if len(inner) > 2 else None
            for st in states:
                ts, fs = self.branch(cond, st)
                for s in ts:
                    s.path.append(f"L{n.get('_line')}: {ctext(cond)[:70]} -> true")
                for s in fs:
                    s.path.append(f"L{n.get('_line')}: {ctext(cond)[:70]} -> false")
                out += self.exec_stmt(then, ts) if ts else []
                if els is not None:
                    out += self.exec_stmt(els, fs) if fs else []
                else:
                    out += fs
            self.stats["paths"] += len(out)
            return out
        if k == "ReturnStmt":
            inner = [c for c in n.get("inner", []) if c]
            for st in states:
                if inner:
                    # `return a && b;` style: evaluate as a value (branching inside)
                    if strip(inner[0]).get("kind") == "BinaryOperator" and strip(inner[0]).get("opcode") in ("&&", "||"):
                        ts, fs = self.branch(inner[0], st)
                        for s in ts:
                            self._at_return(n, s, IntV(Lin.c(1)))
                        for s in fs:
                            self._at_return(n, s, IntV(Lin.c(0)))
                        continue
                    v = self.ev(inner[0], st)
                else:
                    v = None
                self._at_return(n, st, v)
            return []
        if k == "ForStmt":
            return self.exec_for(n, states)
        if k == "SwitchStmt":
            return self.exec_switch(n, states)
        if k == "BreakStmt":
            for st in states:
                self._breaks.append(st)
            return []
        # expression statement
        for st in states:
            res = self.ev_multi(n, st)
            out += [s for s, _ in res]
        return out

    def exec_for(self, n, states):
        self.stats["loops"] += 1
        inner = n.get("inner", [])
        if len(inner) != 5:
            raise AnalysisError(f"{self.file}:{n.get('_line')}: unsupported for-statement shape")
        init, _condvar, cond, inc, body = inner
        out = []
        for st in states:
            if init:
                st = self.exec_stmt(init, [st])[0]
            c = strip(cond) if cond else None
            if c and c.get("kind") == "BinaryOperator" and c.get("opcode") in (">", ">=") and strip(c["inner"][1]).get("kind") == "DeclRefExpr":
                # mirrored form `bound > i`: same loop
                c = dict(c, opcode={">": "<", ">=": "<="}[c["opcode"]], inner=[c["inner"][1], c["inner"][0]])
            if not (
                c
                and c.get("kind") == "BinaryOperator"
                and c.get("opcode") in ("<", "<=")
                and strip(c["inner"][0]).get("kind") == "DeclRefExpr"
            ):
                raise AnalysisError(f"{self.file}:{n.get('_line')}: unsupported loop condition {ctext(cond) if cond else ''}")
            ivar = strip(c["inner"][0])["referencedDecl"]["name"]
            i0 = st.env.get(ivar)
            bound = self.ev(c["inner"][1], st)
            inc_s = strip(inc) if inc else None
            if not (
                inc_s
                and inc_s.get("kind") == "UnaryOperator"
                and inc_s.get("opcode") == "++"
                and strip(inc_s["inner"][0]).get("kind") == "DeclRefExpr"
                and strip(inc_s["inner"][0])["referencedDecl"]["name"] == ivar
            ):
                raise AnalysisError(f"{self.file}:{n.get('_line')}: unsupported loop increment")
            if not isinstance(i0, IntV) or not isinstance(bound, IntV):
                raise AnalysisError(f"{self.file}:{n.get('_line')}: unsupported loop bounds")
            assigned = self._assigned_in(body)
            if ivar in assigned:
                raise AnalysisError(f"{self.file}:{n.get('_line')}: loop variable modified in the body")
            # body state: i in [i0, bound-1] (or bound for <=), assigned variables havoc'ed
            bs = st.copy()
            self._havoc(bs, assigned)
            i = self.fresh(bs, ivar)
            bs.store.add_le(i0.lin, i)
            if c["opcode"] == "<":
                bs.store.add_le(i + 1, bound.lin)
            else:
                bs.store.add_le(i, bound.lin)
            bs.env[ivar] = IntV(i)
            bs.path.append(f"L{n.get('_line')}: loop body with {ivar} in [{i0.lin}, {bound.lin})")
            if not bs.store.is_dead():
                res = self.exec_stmt(body, [bs])
                if len(res) == 0 and self._assigned_in(body) is not None:
                    # body always leaves the loop (return) - not present in these sources
                    pass
            # after the loop
            after = st.copy()
            self._havoc(after, assigned)
            iv = self.fresh(after, ivar + "_after")
            after.store.add_le(i0.lin, iv)
            after.env[ivar] = IntV(iv)
            out.append(after)
        return out

    def _assigned_in(self, n) -> set:
        names = set()

        def walk(x):
            if not isinstance(x, dict):
                return
            k = x.get("kind")
            if k in ("ReturnStmt", "BreakStmt", "ContinueStmt", "GotoStmt", "WhileStmt", "DoStmt"):
                raise AnalysisError(f"{self.file}:{x.get('_line')}: unsupported statement {k} inside a loop body")
            if k in ("BinaryOperator", "CompoundAssignOperator") and (
                x.get("opcode", "").endswith("=") and x.get("opcode") not in ("==", "!=", "<=", ">=")
            ):
                names.add(self._lvalue_name(x["inner"][0]))
            if k == "UnaryOperator" and x.get("opcode") in ("++", "--"):
                names.add(self._lvalue_name(x["inner"][0]))
            if k == "VarDecl":
                names.add(x["name"])
            for c in x.get("inner", []):
                walk(c)

        walk(n)
        names.discard(None)
        return names

    def _lvalue_name(self, n):
        n = strip(n)
        if n.get("kind") == "DeclRefExpr":
            return n["referencedDecl"]["name"]
        if n.get("kind") == "MemberExpr":
            return "self->" + n["name"]
        return None  # array element / deref: contents are not tracked

    def _havoc(self, st, names):
        for nm in names:
            if nm is None:
                continue
            if nm.startswith("self->"):
                f = nm[6:]
                v = st.fields.get(f)
                if isinstance(v, Ptr):
                    raise AnalysisError(f"{self.file}: pointer field {f} modified inside a loop (unsupported)")
                st.fields.pop(f, None)
            elif nm in st.env:
                v = st.env[nm]
                if isinstance(v, IntV):
                    st.env[nm] = IntV(self.fresh(st, nm + "_h"))
                elif isinstance(v, Ptr):
                    raise AnalysisError(f"{self.file}: pointer {nm} modified inside a loop (unsupported)")

    def exec_switch(self, n, states):
        inner = [c for c in n.get("inner", []) if c]
        cond, body = inner[0], inner[1]
        groups = []  # (label value or None for default, [stmts])
        for s in [c for c in body.get("inner", []) if c]:
            if s["kind"] in ("CaseStmt", "DefaultStmt"):
                lab = s
                vals = []
                while lab["kind"] in ("CaseStmt", "DefaultStmt"):
                    ch = [c for c in lab.get("inner", []) if c]
                    if lab["kind"] == "CaseStmt":
                        vals.append(self._const_of(ch[0]))
                        sub = ch[-1]
                    else:
                        vals.append(None)
                        sub = ch[-1]
                    lab = sub
                groups.append((vals, [lab]))
            else:
                if not groups:
                    raise AnalysisError(f"{self.file}:{s.get('_line')}: statement before first case label")
                groups[-1][1].append(s)
        out = []
        for st in states:
            v = self.ev(cond, st)
            case_vals = [x for vals, _ in groups for x in vals if x is not None]
            for vals, stmts in groups:
                for val in vals:
                    s = st.copy()
                    if isinstance(v, IntV):
                        if val is not None:
                            s.store.add_eq(v.lin, val)
                        s.path.append(f"L{n.get('_line')}: switch {ctext(cond)[:40]} case {val}")
                    if s.store.is_dead():
                        continue
                    self._breaks = []
                    res = [s]
                    for x in stmts:
                        res = self.exec_stmt(x, res)
                        if not res:
                            break
                    if res:
                        raise AnalysisError(f"{self.file}:{n.get('_line')}: switch case falls through (unsupported)")
                    out += self._breaks
                    self._breaks = []
            if not any(None in vals for vals, _ in groups):
                out.append(st)  # no default: value may match no case
        return out

    def _const_of(self, n):
        n = strip(n)
        if n.get("kind") == "IntegerLiteral":
            return int(n["value"])
        if "value" in n:
            return int(n["value"])
        raise AnalysisError(f"{self.file}:{n.get('_line')}: non-constant case label")

    # ---- returns -------------------------------------------------------------------
    def _at_return(self, node, st: State, v):
        self.stats["paths"] += 1
        if self._inline_depth:
            self._inline_returns.append((st, v))
            return
        fnname = self._cur_fn
        is_err = False
        if v is not None:
            if isinstance(v, Null):
                is_err = True
            elif self._ret_type == "int" and self._is_init and isinstance(v, IntV) and v.lin.is_const() and v.lin.const == -1:
                is_err = True
            elif isinstance(v, Opaque) and v.api:
                is_err = False  # NULL from a CPython API call comes with its exception
        if is_err:
            what = f"return {'NULL' if isinstance(v, Null) else '-1'} [{self._err_site(node, st)}]"
            self.ob("R4", node or {}, what, st.exc_set, "error return without a Python exception set", st)
            if self.raise_summary is not None and st.exc_set:
                pass
        # no field of the object keeps pointing into storage that was freed on this path (the object outlives the call
        # unless this is its deallocator)
        if st.freed_fields and not fnname.split(">")[-1].endswith("_dealloc"):
            # free(self->X) on storage the analysis does not track (the object's previous storage on re-initialisation)
            stale = sorted(k for k, v0 in st.freed_fields.items() if st.fields.get(k) is v0)
            self.ob("R1", node or {}, f"return after free(self->field) [{self._err_site(node, st) if node else 'end'}]", not stale, f"self->{', self->'.join(stale)} was freed and not replaced before this exit: the object keeps a dangling pointer (use after free / double free at dealloc)", st)
        if st.freed and not fnname.split(">")[-1].endswith("_dealloc"):
            dangling = sorted(k for k, fv in st.fields.items() if isinstance(fv, Ptr) and fv.region in st.freed)
            self.ob("R1", node or {}, f"return with freed storage [{self._err_site(node, st) if node else 'end'}]", not dangling, f"self->{', self->'.join(dangling)} still point(s) into storage passed to free() on this path: every later pull/push/data_slice on the object reads or writes freed heap, and dealloc frees it again", st)
        # object invariant of Buffer-like objects at every exit (the object stays usable)
        if getattr(self, "_buffer_like", False):
            b, p, e = st.fields.get("base"), st.fields.get("pos"), st.fields.get("end")
            if self._is_init and is_err and b is None:
                return  # constructor failed before touching the object
            ok = (
                isinstance(b, Ptr)
                and isinstance(p, Ptr)
                and isinstance(e, Ptr)
                and b.region == p.region == e.region
                and st.store.entails_le(b.off, p.off)
                and st.store.entails_le(p.off, e.off)
                and st.store.entails_eq(b.off, 0)
                and st.store.entails_le(e.off, st.regions.get(e.region, Lin.c(-1)))
                and not (b.nullable and not is_err)
            )
            tag = "error" if is_err else "normal"
            why = ""
            if not ok:
                why = f"base={b} pos={p} end={e} size={st.regions.get(getattr(e, 'region', None))}"
            self.ob(
                "R1-inv",
                node or {},
                f"invariant base <= pos <= end at {tag} exit [{self._err_site(node, st)}]",
                ok,
                "object invariant not re-established: " + why,
                st,
            )

    def _err_site(self, node, st):
        return st.path[-1].split(": ", 1)[-1] if st.path else "entry"

    # ---- branching -----------------------------------------------------------------
    def branch(self, n, st: State):
        """returns (states where n is true, states where n is false)"""
        n0 = n
        n = strip(n)
        k = n.get("kind")
        if k == "UnaryOperator" and n.get("opcode") == "!":
            t, f = self.branch(n["inner"][0], st)
            return f, t
        if k == "BinaryOperator" and n.get("opcode") == "&&":
            t1, f1 = self.branch(n["inner"][0], st)
            T, F = [], list(f1)
            for s in t1:
                t2, f2 = self.branch(n["inner"][1], s)
                T += t2
                F += f2
            return T, F
        if k == "BinaryOperator" and n.get("opcode") == "||":
            t1, f1 = self.branch(n["inner"][0], st)
            T, F = list(t1), []
            for s in f1:
                t2, f2 = self.branch(n["inner"][1], s)
                T += t2
                F += f2
            return T, F
        if k == "BinaryOperator" and n.get("opcode") in ("<", "<=", ">", ">=", "==", "!="):
            res = []
            a = self.ev(n["inner"][0], st)
            b = self.ev(n["inner"][1], st)
            return self._compare(n, st, n["opcode"], a, b, n["inner"][0], n["inner"][1])
        # truthiness of a value
        v = self.ev(n0, st)
        return self._truthy(n, st, v, n)

    def _truthy(self, n, st, v, lv_node):
        if isinstance(v, IntV):
            if v.parse is not None:
                ok = st.copy()
                v.parse(ok)
                bad = st.copy()
                bad.exc_set = True
                return [ok], [bad]
            return self._compare(n, st, "!=", v, IntV(Lin.c(0)), None, None)
        if isinstance(v, Null):
            return [], [st]
        if isinstance(v, Ptr):
            if not v.nullable:
                return [st], []
            t, f = st.copy(), st.copy()
            self._set_nullable(t, lv_node, False)
            self._set_null(f, lv_node)
            return [t], [f]
        return [st.copy()], [st.copy()]

    def _set_nullable(self, st, lv_node, val):
        if lv_node is None:
            return
        nm = self._lvalue_name(lv_node)
        if nm is None:
            return
        if nm.startswith("self->"):
            v = st.fields.get(nm[6:])
            if isinstance(v, Ptr):
                st.fields[nm[6:]] = Ptr(v.region, v.off, val)
        else:
            v = st.env.get(nm)
            if isinstance(v, Ptr):
                st.env[nm] = Ptr(v.region, v.off, val)

    def _set_null(self, st, lv_node):
        if lv_node is None:
            return
        nm = self._lvalue_name(lv_node)
        if nm is None:
            return
        if nm.startswith("self->"):
            st.fields[nm[6:]] = Null()
        else:
            st.env[nm] = Null()

    def _compare(self, n, st, op, a, b, an, bn):
        # pointer vs NULL
        def is_zero(x):
            return isinstance(x, Null) or (isinstance(x, IntV) and x.lin.is_const() and x.lin.const == 0)

        if isinstance(a, Ptr) and is_zero(b) or isinstance(b, Ptr) and is_zero(a):
            p, pn = (a, an) if isinstance(a, Ptr) else (b, bn)
            if op in ("==", "!="):
                null_s, nonnull_s = ([st.copy()] if p.nullable else []), [st.copy()]
                for s in nonnull_s:
                    self._set_nullable(s, pn, False)
                for s in null_s:
                    self._set_null(s, pn)
                return (null_s, nonnull_s) if op == "==" else (nonnull_s, null_s)
        if is_zero(a) and is_zero(b) and (isinstance(a, Null) or isinstance(b, Null)) and op in ("==", "!="):
            return ([st.copy()], []) if op == "==" else ([], [st.copy()])
        if isinstance(a, (Opaque, Null)) or isinstance(b, (Opaque, Null)):
            if isinstance(a, Opaque) and is_zero(b) and op in ("==", "!="):
                null_s, nn = st.copy(), st.copy()
                if a.api:
                    null_s.exc_set = True
                return ([null_s], [nn]) if op == "==" else ([nn], [null_s])
            return [st.copy()], [st.copy()]
        if isinstance(a, Ptr) and isinstance(b, Ptr):
            if a.region != b.region:
                return [st.copy()], [st.copy()]
            x, y = a.off, b.off
        elif isinstance(a, IntV) and isinstance(b, IntV):
            x, y = a.lin, b.lin
            if a.parse is not None and is_zero(b) and op in ("==", "!="):
                ok = st.copy()
                a.parse(ok)
                bad = st.copy()
                bad.exc_set = True
                return ([bad], [ok]) if op == "==" else ([ok], [bad])
        else:
            return [st.copy()], [st.copy()]

        def mk(kind):
            s = st.copy()
            if kind == "<":
                s.store.add_lt(x, y)
            elif kind == "<=":
                s.store.add_le(x, y)
            elif kind == ">":
                s.store.add_lt(y, x)
            elif kind == ">=":
                s.store.add_le(y, x)
            elif kind == "==":
                s.store.add_eq(x, y)
            return s

        neg = {"<": ">=", "<=": ">", ">": "<=", ">=": "<"}
        if op in neg:
            T, F = [mk(op)], [mk(neg[op])]
        elif op == "==":
            T, F = [mk("==")], [mk("<"), mk(">")]
        else:
            T, F = [mk("<"), mk(">")], [mk("==")]
        return [s for s in T if not s.store.is_dead()], [s for s in F if not s.store.is_dead()]

    # ---- expressions -----------------------------------------------------------------
    _inline_depth = 0

    def ev_multi(self, n, st):
        """evaluate an expression statement; returns [(state, value)]"""
        v = self.ev(n, st)
        return [(st, v)]

    def _coerce(self, st, v, tname, hint="v"):
        """implicit conversion on initialisation / assignment to a typed variable"""
        r = int_range(tname)
        if r and isinstance(v, IntV):
            if st.store.entails_le(r[0], v.lin) and st.store.entails_le(v.lin, r[1]):
                return v
            return IntV(self.fresh(st, hint + "_wrap", r), v.parse)
        return v

    def ev(self, n, st: State):
        k = n.get("kind")
        inner = [c for c in n.get("inner", []) if c]
        if k in ("ParenExpr", "ConstantExpr"):
            return self.ev(inner[0], st)
        if k == "IntegerLiteral":
            return IntV(Lin.c(int(n["value"])))
        if k == "CharacterLiteral":
            return IntV(Lin.c(int(n["value"])))
        if k == "StringLiteral":
            s = n.get("value", '""')
            name = "str:" + s
            # length of the literal including NUL: from the type char[N]
            m = re.search(r"\[(\d+)\]", n["type"]["qualType"])
            st.regions[name] = Lin.c(int(m.group(1)) if m else 1)
            return Ptr(name, 0)
        if k == "DeclRefExpr":
            rd = n["referencedDecl"]
            nm = rd["name"]
            if rd["kind"] in ("VarDecl", "ParmVarDecl"):
                if nm in st.env:
                    return st.env[nm]
                return Opaque("global:" + nm, maybe_null=False)
            if rd["kind"] == "EnumConstantDecl":
                return Opaque("enum:" + nm)
            if rd["kind"] == "FunctionDecl":
                return Opaque("fn:" + nm, maybe_null=False)
            return Opaque(nm)
        if k == "MemberExpr":
            base = self.ev(inner[0], st)
            f = n["name"]
            if isinstance(base, SelfRef):
                q = n["type"]["qualType"]
                if re.match(r".*\[\d+\]$", q):
                    return Ptr(f"self->{f}", 0)
                if f in st.fields:
                    return st.fields[f]
                r = int_range(canon_type(n["type"]))
                if r:
                    v = IntV(self.fresh(st, "self." + f, r))
                    st.fields[f] = v
                    return v
                return Opaque("self->" + f)
            return Opaque("member:" + f)
        if k == "ImplicitCastExpr" or k == "CStyleCastExpr":
            ck = n.get("castKind")
            if ck == "NullToPointer":
                return Null()
            v = self.ev(inner[0], st)
            if ck in ("LValueToRValue", "NoOp", "BitCast", "ArrayToPointerDecay", "FunctionToPointerDecay"):
                return v
            if ck == "IntegralCast":
                return self._coerce(st, v, canon_type(n["type"]), "cast")
            if ck in ("IntegralToBoolean", "PointerToBoolean", "ToVoid", "IntegralToPointer", "PointerToIntegral"):
                if ck == "ToVoid":
                    return v
                return Opaque("cast:" + ck)
            return v
        if k == "UnaryExprOrTypeTraitExpr":
            if n.get("name") == "sizeof":
                t = (inner[0]["type"]["qualType"] if inner else n.get("argType", {}).get("qualType", ""))
                m = re.match(r"(unsigned char|char|uint8_t)\[(\d+)\]$", t)
                if m:
                    return IntV(Lin.c(int(m.group(2))))
                r = int_range(canon_type({"qualType": t}))
                sizes = {255: 1, 127: 1, 65535: 2, (1 << 15) - 1: 2, (1 << 31) - 1: 4, (1 << 32) - 1: 4, (1 << 63) - 1: 8, (1 << 64) - 1: 8}
                if r:
                    return IntV(Lin.c(sizes[r[1]]))
            raise AnalysisError(f"{self.file}:{n.get('_line')}: unsupported sizeof operand")
        if k == "UnaryOperator":
            return self.ev_unary(n, st, inner)
        if k == "BinaryOperator":
            return self.ev_binary(n, st, inner)
        if k == "CompoundAssignOperator":
            op = n["opcode"][:-1]
            cur = self.ev(inner[0], st)
            rhs = self.ev(inner[1], st)
            val = self._arith(n, st, op, cur, rhs)
            self.assign(inner[0], val, st)
            return val
        if k == "ArraySubscriptExpr":
            base = self.ev(inner[0], st)
            idx = self.ev(inner[1], st)
            if isinstance(base, Ptr) and isinstance(idx, IntV):
                p = Ptr(base.region, base.off + idx.lin, base.nullable)
                self.in_bounds(n, st, p, Lin.c(1), ctext(n), "array element access")
                return IntV(self.fresh(st, "elem", (0, 255)))
            if isinstance(base, Opaque) and base.tag.startswith("array:"):
                return Opaque("elem")
            raise AnalysisError(f"{self.file}:{n.get('_line')}: unsupported subscript {ctext(n)}")
        if k == "CallExpr":
            return self.ev_call(n, st, inner)
        if k == "InitListExpr":
            return Opaque("initlist")
        if k == "ConditionalOperator":
            forced = self._forced.get(id(n))
            if forced is None:
                ts, fs = self.branch(inner[0], st.copy())
                raise Split(n, ts, fs)
            return self.ev(inner[1] if forced else inner[2], st)
        raise AnalysisError(f"{self.file}:{n.get('_line')}: unsupported expression kind {k}: {ctext(n)[:60]}")

    def ev_unary(self, n, st, inner):
        op = n["opcode"]
        if op == "&":
            t = strip(inner[0])
            if t.get("kind") == "DeclRefExpr":
                return AddrOf("var", t["referencedDecl"]["name"])
            return Opaque("addr")
        if op == "*":
            p = self.ev(inner[0], st)
            if isinstance(p, Ptr):
                self.in_bounds(n, st, p, Lin.c(1), ctext(n), "pointer dereference (read)")
                return IntV(self.fresh(st, "deref", (0, 255)))
            raise AnalysisError(f"{self.file}:{n.get('_line')}: dereference of untracked pointer {ctext(n)}")
        if op in ("++", "--"):
            cur = self.ev(inner[0], st)
            d = 1 if op == "++" else -1
            if isinstance(cur, Ptr):
                new = Ptr(cur.region, cur.off + d, cur.nullable)
            elif isinstance(cur, IntV):
                new = IntV(cur.lin + d)
            else:
                raise AnalysisError(f"{self.file}:{n.get('_line')}: ++ on untracked value")
            self.assign(inner[0], new, st)
            return cur if n.get("isPostfix") else new
        if op == "-":
            v = self.ev(inner[0], st)
            if isinstance(v, IntV):
                return IntV(-v.lin)
        if op == "!":
            v = self.ev(inner[0], st)
            return IntV(self.fresh(st, "not", (0, 1)))
        if op == "~":
            self.ev(inner[0], st)
            return IntV(self.fresh(st, "inv", int_range(canon_type(n["type"]))))
        raise AnalysisError(f"{self.file}:{n.get('_line')}: unsupported unary operator {op}")

    def ev_binary(self, n, st, inner):
        op = n["opcode"]
        if op == "=":
            v = self.ev(inner[1], st)
            t = canon_type(inner[0]["type"]) if "type" in inner[0] else ""
            v = self._coerce(st, v, t)
            self.assign(inner[0], v, st)
            return v
        if op == ",":
            self.ev(inner[0], st)
            return self.ev(inner[1], st)
        if op in ("&&", "||", "<", "<=", ">", ">=", "==", "!="):
            # value context: evaluate operands for their obligations
            if op in ("&&", "||"):
                self.branch(n, st.copy())
            else:
                self.ev(inner[0], st)
                self.ev(inner[1], st)
            return IntV(self.fresh(st, "bool", (0, 1)))
        a = self.ev(inner[0], st)
        b = self.ev(inner[1], st)
        return self._arith(n, st, op, a, b)

    def _arith(self, n, st, op, a, b):
        rt = int_range(canon_type(n["type"])) if "type" in n else None
        if isinstance(a, Ptr) and isinstance(b, IntV) and op in ("+", "-"):
            off = a.off + b.lin if op == "+" else a.off - b.lin
            small = b.lin.is_const() and abs(b.lin.const) <= SMALL_CONST
            if a.nullable:
                self.ob("R3", n, "pointer arithmetic " + ctext(n), False, "arithmetic on a pointer that may be NULL (allocation not checked)", st)
            if not small:
                # LP64 (trusted base): objects and addresses are below 2^62, so p + n
                # with n <= 2^63 - 1 cannot wrap and the unsigned pointer comparison
                # that follows is meaningful.  A result below the start of the object
                # (negative offset) or an operand that may exceed 2^63 - 1 is reported.
                delta = b.lin if op == "+" else -b.lin
                ok = st.store.entails_le(0, off) and st.store.entails_le(delta, (1 << 63) - 1)
                self.ob(
                    "R1",
                    n,
                    "pointer arithmetic " + ctext(n),
                    ok,
                    f"pointer arithmetic may leave the object downwards or wrap: offset {off} of {a.region} is not provably in [0, 2^63)",
                    st,
                )
            return Ptr(a.region, off, a.nullable)
        if isinstance(b, Ptr) and isinstance(a, IntV) and op == "+":
            return self._arith(n, st, op, b, a)
        if isinstance(a, Ptr) and isinstance(b, Ptr) and op == "-":
            if a.region == b.region:
                return IntV(a.off - b.off)
            return IntV(self.fresh(st, "pdiff", rt))
        if isinstance(a, IntV) and isinstance(b, IntV):
            if op == "+":
                return IntV(a.lin + b.lin)
            if op == "-":
                return IntV(a.lin - b.lin)
            if op == "*":
                if a.lin.is_const():
                    return IntV(b.lin.scale(a.lin.const))
                if b.lin.is_const():
                    return IntV(a.lin.scale(b.lin.const))
            if op == "&":
                # x & mask  in [0, mask] for a non-negative constant mask
                for x, y in ((a, b), (b, a)):
                    if y.lin.is_const() and y.lin.const >= 0:
                        return IntV(self.fresh(st, "and", (0, int(y.lin.const))))
            if op == ">>" and b.lin.is_const():
                lo, hi = st.store.bounds(a.lin)
                if lo is not None and hi is not None and lo >= 0:
                    return IntV(self.fresh(st, "shr", (0, int(hi) >> int(b.lin.const))))
            if op in ("/", "%") and b.lin.is_const() and b.lin.const > 0:
                lo, hi = st.store.bounds(a.lin)
                if lo is not None and lo >= 0:
                    if op == "%":
                        return IntV(self.fresh(st, "mod", (0, int(b.lin.const) - 1)))
                    return IntV(self.fresh(st, "div", (0, int(hi // b.lin.const)) if hi is not None else rt))
            return IntV(self.fresh(st, "op" + {"<<": "shl", ">>": "shr", "|": "or", "^": "xor", "&": "and", "*": "mul", "/": "div", "%": "mod"}.get(op, "x"), rt))
        if isinstance(a, (Opaque, Null)) or isinstance(b, (Opaque, Null)):
            return Opaque("arith")
        raise AnalysisError(f"{self.file}:{n.get('_line')}: unsupported operands for {op}: {a} {b}")

    def assign(self, lv, val, st):
        t = strip(lv)
        k = t.get("kind")
        if k == "DeclRefExpr":
            st.env[t["referencedDecl"]["name"]] = val
            return
        if k == "MemberExpr":
            base = self.ev([c for c in t["inner"] if c][0], st)
            if isinstance(base, SelfRef):
                st.fields[t["name"]] = val
            return
        if k == "UnaryOperator" and t.get("opcode") == "*":
            p = self.ev([c for c in t["inner"] if c][0], st)
            if isinstance(p, Ptr):
                self.in_bounds(t, st, p, Lin.c(1), ctext(t) + " = ...", "store through pointer")
                return
            raise AnalysisError(f"{self.file}:{t.get('_line')}: store through untracked pointer {ctext(t)}")
        if k == "ArraySubscriptExpr":
            inner = [c for c in t["inner"] if c]
            base = self.ev(inner[0], st)
            idx = self.ev(inner[1], st)
            if isinstance(base, Ptr) and isinstance(idx, IntV):
                self.in_bounds(t, st, Ptr(base.region, base.off + idx.lin, base.nullable), Lin.c(1), ctext(t) + " = ...", "array element store")
                return
            if isinstance(base, Opaque):
                return
        raise AnalysisError(f"{self.file}:{t.get('_line')}: unsupported assignment target {ctext(lv)}")

    # ---- calls ------------------------------------------------------------------------
    def ev_call(self, n, st, inner):
        self.stats["calls"] += 1
        callee = strip(inner[0])
        if callee.get("kind") != "DeclRefExpr":
            # call through a function pointer variable (tp_free in dealloc)
            for a in inner[1:]:
                self.ev(a, st)
            return Opaque("indirect-call")
        name = callee["referencedDecl"]["name"]
        args = inner[1:]
        h = getattr(self, "api_" + name.lstrip("_"), None)
        if h is not None:
            return h(n, st, args)
        if name in self.funcs:
            return self._inline(n, st, name, args)
        if name in NO_MEMORY_EFFECT or name.startswith(NO_MEMORY_PREFIXES):
            vals = [self.ev(a, st) for a in args]
            if name.startswith("PyErr_") and name not in ("PyErr_NewException", "PyErr_Clear", "PyErr_Occurred"):
                st.exc_set = True
                if args:
                    g = strip(args[0])
                    if g.get("kind") == "DeclRefExpr":
                        self.raise_summary.setdefault(self._cur_fn, set()).add(g["referencedDecl"]["name"])
            rt = canon_type(n["type"])
            r = int_range(rt)
            if r:
                return IntV(self.fresh(st, name, r))
            return Opaque(name, api=name.startswith(("Py", "_Py")))
        raise AnalysisError(f"{self.file}:{n.get('_line')}: no summary for library function {name}")

    def _inline(self, n, st, name, args):
        fn = self.funcs[name]
        params = [c for c in fn.get("inner", []) if c.get("kind") == "ParmVarDecl"]
        body = [c for c in fn.get("inner", []) if c.get("kind") == "CompoundStmt"][0]
        vals = [self.ev(a, st) for a in args]
        saved_env = st.env
        st.env = dict(zip([p["name"] for p in params], vals))
        saved = (self._inline_returns if self._inline_depth else None, self._cur_fn)
        self._inline_depth += 1
        self._inline_returns = []
        cur = self._cur_fn
        self._cur_fn = f"{cur}>{name}"
        outs = self.exec_block(body, [st])
        rets = self._inline_returns + [(s, None) for s in outs]
        self._cur_fn = cur
        self._inline_depth -= 1
        self._inline_returns = saved[0] if saved[0] is not None else []
        if len(rets) == 0:
            raise AnalysisError(f"{self.file}: inlined {name} has no return path")
        # merge: adopt the first state's identity (mutate st in place), result value is a fresh int
        # all paths must agree on pointer-valued fields; here callee only calls library functions
        s0 = rets[0][0]
        st.fields, st.store, st.regions, st.exc_set = s0.fields, s0.store, s0.regions, all(r[0].exc_set for r in rets)
        st.env = saved_env
        st.path = s0.path
        rt = int_range(canon_type(n["type"]))
        if rt:
            return IntV(self.fresh(st, name, rt))
        return Opaque(name)

    # -- argument parsing ----------------------------------------------------------------
    def _parse_format(self, n, st, fmt_node, targets, start_optional=False):
        fmt = strip(fmt_node).get("value", "").strip('"')
        units = []
        i = 0
        optional = False
        while i < len(fmt):
            c = fmt[i]
            if c == "|":
                optional = True
                i += 1
                continue
            if c in ":;":
                break
            if i + 1 < len(fmt) and fmt[i + 1] == "#":
                units.append((c + "#", optional))
                i += 2
            else:
                units.append((c, optional))
                i += 1
        effects = []
        ti = 0
        line = n.get("_line")

        def target_var(k):
            t = strip(targets[k])
            if t.get("kind") == "UnaryOperator" and t.get("opcode") == "&":
                d = strip(t["inner"][0])
                if d.get("kind") == "DeclRefExpr":
                    return d["referencedDecl"]["name"], canon_type(d["type"]), d["type"]["qualType"]
            raise AnalysisError(f"{self.file}:{line}: unsupported PyArg target {ctext(targets[k])}")

        EXPECT = {
            "n": ("long",),
            "K": ("unsigned long", "unsigned long long"),
            "I": ("unsigned int",),
            "B": ("unsigned char",),
            "H": ("unsigned short",),
            "i": ("int",),
            "k": ("unsigned long",),
        }
        UNCHECKED = {"K", "I", "B", "H", "k"}  # CPython: no overflow checking
        for unit, opt in units:
            if unit in ("y#", "s#", "z#"):
                pv, pt, pq = target_var(ti)
                lv, lt, lq = target_var(ti + 1)
                ti += 2
                ok = ("char" in pq and "*" in pq) and lt == "long"
                self.ob("R2", n, f"format unit {unit} -> ({pq} {pv}, {lq} {lv})", ok, "y# needs a char pointer and a Py_ssize_t length", st)

                def eff(s, pv=pv, lv=lv, opt=opt):
                    ln = self.fresh(s, lv, (0, (1 << 63) - 1))
                    if self.max_len is not None:
                        s.store.add_le(ln, self.max_len)
                    reg = f"arg:{pv}"
                    s.regions[reg] = ln  # (+1 NUL byte is readable but not counted)
                    s.env[pv] = Ptr(reg, 0)
                    s.env[lv] = IntV(ln)

                effects.append((eff, opt, (pv, lv)))
            elif unit in EXPECT:
                v, t, q = target_var(ti)
                ti += 1
                ok = t in EXPECT[unit]
                self.ob(
                    "R2",
                    n,
                    f"format unit {unit} -> {q} {v}",
                    ok,
                    f"format unit '{unit}' stores a {EXPECT[unit][0]} but the target is {q}: the value seen by the C code differs from the Python integer",
                    st,
                )
                rng = int_range(t) or (-(1 << 63), (1 << 63) - 1)

                def eff(s, v=v, rng=rng):
                    s.env[v] = IntV(self.fresh(s, v, rng))

                effects.append((eff, opt, (v,)))
                if unit in UNCHECKED:
                    self.unchecked_units.append((self._cur_fn, unit, v, line))
            else:
                raise AnalysisError(f"{self.file}:{line}: unsupported format unit '{unit}'")

        def apply(s):
            for eff, opt, names in effects:
                if opt:
                    # optional: either left at its initial value or parsed -> join by havoc with union
                    # (handled by splitting in the caller when it matters)
                    s._optional = getattr(s, "_optional", [])
                    s._optional.append((eff, names))
                else:
                    eff(s)

        return apply, effects

    unchecked_units: list = []

    def api_PyArg_ParseTuple_SizeT(self, n, st, args):
        apply, _ = self._parse_format(n, st, args[1], args[2:])
        return IntV(self.fresh(st, "parse_ok", (0, 1)), parse=apply)

    api_PyArg_ParseTuple = api_PyArg_ParseTuple_SizeT

    def api_PyArg_ParseTupleAndKeywords_SizeT(self, n, st, args):
        # args: (args, kwargs, fmt, kwlist, targets...)
        apply, effects = self._parse_format(n, st, args[2], args[4:])

        def apply_all(s):
            # optional units: analyse the "given" case; the "absent" case keeps the
            # initial values, which the caller distinguishes by testing the variables
            for eff, opt, names in effects:
                eff(s)
                if opt:
                    for nm in names:
                        v = s.env.get(nm)
                        if isinstance(v, Ptr):
                            s.env[nm] = Ptr(v.region, v.off, nullable=True)  # absent => stays NULL

        return IntV(self.fresh(st, "parse_ok", (0, 1)), parse=apply_all)

    api_PyArg_ParseTupleAndKeywords = api_PyArg_ParseTupleAndKeywords_SizeT

    # -- libc ---------------------------------------------------------------------------
    def api_malloc(self, n, st, args):
        v = self.ev(args[0], st)
        self.nsym += 1
        reg = f"heap#{self.nsym}"
        if isinstance(v, IntV):
            st.regions[reg] = v.lin
        else:
            st.regions[reg] = self.fresh(st, "heapsize", (0, (1 << 64) - 1))
        return Ptr(reg, 0, nullable=True)

    def api_free(self, n, st, args):
        v = self.ev(args[0], st)
        if isinstance(v, Ptr):
            if v.region in st.freed:
                self.ob("R1", n, f"free({ctext(args[0])})", False, "the same allocation is freed twice on this path", st)
            st.freed.add(v.region)
        t = strip(args[0])
        while t.get("kind") in ("CStyleCastExpr", "ParenExpr", "ImplicitCastExpr"):
            t = strip([c for c in t.get("inner", []) if c][0])
        if t.get("kind") == "MemberExpr" and ctext(t).startswith("self->"):
            st.freed_fields[t.get("name")] = st.fields.get(t.get("name"))
        return Opaque("void")

    def _extent(self, n, st, pv, nv, what, access):
        if isinstance(pv, Null):
            return
        if isinstance(pv, Ptr) and isinstance(nv, IntV):
            self.in_bounds(n, st, pv, nv.lin, what, access)
            return
        self.ob("R1", n, what, False, f"{access}: pointer or length not tracked ({pv}, {nv})", st)

    def api_memcpy(self, n, st, args):
        d, s, ln = [self.ev(a, st) for a in args]
        self._extent(n, st, d, ln, f"memcpy destination {ctext(args[0])} n={ctext(args[2])}", "memcpy writes")
        self._extent(n, st, s, ln, f"memcpy source {ctext(args[1])} n={ctext(args[2])}", "memcpy reads")
        return d

    def api_memset(self, n, st, args):
        d, c, ln = [self.ev(a, st) for a in args]
        self._extent(n, st, d, ln, f"memset {ctext(args[0])} n={ctext(args[2])}", "memset writes")
        return d

    def api_memcmp(self, n, st, args):
        a, b, ln = [self.ev(x, st) for x in args]
        self._extent(n, st, a, ln, f"memcmp lhs {ctext(args[0])} n={ctext(args[2])}", "memcmp reads")
        self._extent(n, st, b, ln, f"memcmp rhs {ctext(args[1])} n={ctext(args[2])}", "memcmp reads")
        return IntV(self.fresh(st, "memcmp", (-(1 << 31), (1 << 31) - 1)))

    # -- CPython ------------------------------------------------------------------------
    def api_PyBytes_FromStringAndSize(self, n, st, args):
        p, ln = self.ev(args[0], st), self.ev(args[1], st)
        self._extent(n, st, p, ln, f"PyBytes_FromStringAndSize({ctext(args[0])}, {ctext(args[1])})", "copies n bytes from p")
        return Opaque("bytes", api=True)

    def api_Py_BuildValue_SizeT(self, n, st, args):
        fmt = strip(args[0]).get("value", "").strip('"')
        i, ai = 0, 1
        while i < len(fmt):
            if fmt[i : i + 2] in ("y#", "s#"):
                p, ln = self.ev(args[ai], st), self.ev(args[ai + 1], st)
                self._extent(n, st, p, ln, f"Py_BuildValue y# ({ctext(args[ai])}, {ctext(args[ai + 1])})", "copies n bytes from p")
                ai += 2
                i += 2
            elif fmt[i] in "iIlLnkKbBhH":
                self.ev(args[ai], st)
                # unit / C type agreement (R2): a signed unit fed from an unsigned value of the same
                # width (or the reverse) changes the sign of large values on the Python side
                at = _arg_type(args[ai])
                signed_units = {"i": "int", "l": "long", "L": "long long", "n": "ssize_t", "b": "char", "h": "short"}
                unsigned_units = {"I": "unsigned int", "k": "unsigned long", "K": "unsigned long long", "B": "unsigned char", "H": "unsigned short"}
                if at is not None:
                    unsigned_arg = at.startswith("unsigned") or at in ("uint32_t", "uint64_t", "uint16_t", "uint8_t", "size_t")
                    wide = {"int": 32, "long": 64, "long long": 64, "ssize_t": 64, "char": 8, "short": 16}
                    aw = {"unsigned int": 32, "uint32_t": 32, "unsigned long": 64, "uint64_t": 64, "unsigned long long": 64, "size_t": 64, "unsigned short": 16, "uint16_t": 16, "unsigned char": 8, "uint8_t": 8}.get(at)
                    bad = fmt[i] in signed_units and unsigned_arg and aw is not None and aw >= wide[signed_units[fmt[i]]]
                    self.ob("R2", n, f"Py_BuildValue unit '{fmt[i]}' for {ctext(args[ai])}", not bad, f"unit '{fmt[i]}' converts a C {signed_units.get(fmt[i], '')} but the argument is {at}: values with the top bit set arrive negative in Python", st)
                ai += 1
                i += 1
            elif fmt[i] in "()[]{} ,:":
                i += 1
            else:
                raise AnalysisError(f"{self.file}:{n.get('_line')}: unsupported Py_BuildValue unit {fmt[i]}")
        return Opaque("tuple", api=True)

    api_Py_BuildValue = api_Py_BuildValue_SizeT

    def api_PyErr_Format(self, n, st, args):
        for a in args:
            self.ev(a, st)
        st.exc_set = True
        g = strip(args[0])
        if g.get("kind") == "DeclRefExpr":
            self.raise_summary.setdefault(self._cur_fn, set()).add(g["referencedDecl"]["name"])
        return Null()

    # -- OpenSSL ------------------------------------------------------------------------
    def _ctx_class(self, node, _depth=0):
        t = strip(node)
        if t.get("kind") == "DeclRefExpr" and _depth < 3:
            # a local that only ever holds one context (`EVP_CIPHER_CTX *ctx = self->decrypt_ctx;`, never reassigned)
            from .cq import const_locals, kids, preorder

            fn = self.funcs.get(self._cur_fn.split(">")[-1]) or {}
            name = t.get("referencedDecl", {}).get("name")
            if name in const_locals(fn):
                for d in preorder(fn):
                    if d.get("kind") == "VarDecl" and d.get("name") == name and kids(d):
                        return self._ctx_class(kids(d)[-1], _depth + 1)
        if t.get("kind") == "MemberExpr":
            base = strip([c for c in t["inner"] if c][0])
            bt = base.get("type", {}).get("qualType", "")
            if "AEAD" in bt:
                return "aead"
            if "HeaderProtection" in bt:
                return "hp"
        return "unknown"

    def api_EVP_CipherUpdate(self, n, st, args):
        ctx, out, outl, inp, inl = args
        cls = self._ctx_class(ctx)
        outv, inv, inlv = self.ev(out, st), self.ev(inp, st), self.ev(inl, st)
        self.ev(ctx, st)
        slack = {"aead": 0, "hp": 15}.get(cls)
        if slack is None:
            raise AnalysisError(f"{self.file}:{n.get('_line')}: EVP_CipherUpdate on a context of unknown cipher class")
        self._extent(n, st, inv, inlv, f"EVP_CipherUpdate input {ctext(inp)} inl={ctext(inl)}", "cipher reads inl bytes")
        if not isinstance(outv, Null):
            if isinstance(inlv, IntV):
                self._extent(
                    n,
                    st,
                    outv,
                    IntV(inlv.lin + slack),
                    f"EVP_CipherUpdate output {ctext(out)} inl={ctext(inl)}",
                    f"cipher writes up to inl+{slack} bytes ({cls})",
                )
        ao = self.ev(outl, st)
        if isinstance(ao, AddrOf) and isinstance(inlv, IntV):
            if cls == "aead" and not isinstance(outv, Null):
                st.env[ao.name] = IntV(inlv.lin)  # stream AEAD: outl == inl
            else:
                o = self.fresh(st, ao.name, (0, (1 << 31) - 1))
                st.store.add_le(o, inlv.lin + slack)
                st.env[ao.name] = IntV(o)
        return IntV(self.fresh(st, "evp_ok", (0, 1)))

    def api_EVP_CipherFinal_ex(self, n, st, args):
        ctx, out, outl = args
        outv = self.ev(out, st)
        if not isinstance(outv, Null):
            self._extent(n, st, outv, IntV(Lin.c(16)), f"EVP_CipherFinal_ex output {ctext(out)}", "final block up to 16 bytes")
        ao = self.ev(outl, st)
        if isinstance(ao, AddrOf):
            st.env[ao.name] = IntV(self.fresh(st, ao.name, (0, 16)))
        return IntV(self.fresh(st, "evp_ok", (0, 1)))

    def api_EVP_CIPHER_CTX_ctrl(self, n, st, args):
        ctx, typ, arg, ptr = args
        pv, av = self.ev(ptr, st), self.ev(arg, st)
        self.ev(typ, st)
        if not isinstance(pv, Null):
            self._extent(n, st, pv, av, f"EVP_CIPHER_CTX_ctrl({ctext(typ)}, {ctext(arg)}, {ctext(ptr)})", "ctrl accesses arg bytes at ptr")
        return IntV(self.fresh(st, "evp_ok", (0, 1)))

    def api_EVP_CipherInit_ex(self, n, st, args):
        ctx, cipher, eng, key, iv, enc = args
        cls = self._ctx_class(ctx)
        kv, ivv = self.ev(key, st), self.ev(iv, st)
        for a in (ctx, cipher, eng, enc):
            self.ev(a, st)
        if isinstance(kv, Ptr):
            size = st.regions.get(kv.region)
            if kv.region.startswith("arg:"):
                # key comes from a y# argument after EVP_CIPHER_CTX_set_key_length(ctx, key_len)
                self._extent(n, st, kv, IntV(size), f"EVP_CipherInit_ex key {ctext(key)}", "reads the configured key length")
            else:
                self._extent(n, st, kv, IntV(Lin.c(MAX_KEY_LENGTH)), f"EVP_CipherInit_ex key {ctext(key)}", f"reads up to {MAX_KEY_LENGTH} key bytes")
        if isinstance(ivv, Ptr):
            ivlen = {"aead": AEAD_IV_LENGTH, "hp": 16}.get(cls)
            if ivlen is None:
                raise AnalysisError(f"{self.file}:{n.get('_line')}: EVP_CipherInit_ex iv on unknown context class")
            self._extent(n, st, ivv, IntV(Lin.c(ivlen)), f"EVP_CipherInit_ex iv {ctext(iv)}", f"reads {ivlen} IV bytes ({cls})")
        return IntV(self.fresh(st, "evp_ok", (0, 1)))


MAX_KEY_LENGTH = 32  # largest key among the cipher names crypto.py can pass (checked by rule C04-R5)
AEAD_IV_LENGTH = 12  # set by EVP_CTRL_CCM_SET_IVLEN in create_ctx (checked by rule C04-R5)

NO_MEMORY_PREFIXES = ("PyLong_From", "PyErr_", "ERR_", "PyModule_", "PyType_", "Py_", "_Py_", "PyExc_")
NO_MEMORY_EFFECT = {
    "EVP_CIPHER_CTX_new",
    "EVP_CIPHER_CTX_free",
    "EVP_CIPHER_CTX_set_key_length",
    "EVP_get_cipherbyname",
    "EVP_add_cipher",
    "EVP_aes_128_ecb",
    "EVP_aes_128_gcm",
    "EVP_aes_256_ecb",
    "EVP_aes_256_gcm",
    "PyLong_FromUnsignedLong",
    "PyLong_FromUnsignedLongLong",
    "PyLong_FromSsize_t",
    "_Py_NewRef",
    "_Py_IncRef",
    "_Py_DecRef",
    "Py_NewRef",
    "Py_IncRef",
    "Py_DecRef",
}
