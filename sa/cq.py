"""Small query layer over the clang JSON AST (loaded by sa/cbounds.load_c_ast): functions of the
translation unit, ordered traversal, calls, constant evaluation of integer expressions."""
from __future__ import annotations

import os

from .cbounds import ctext, load_c_ast, strip
from .report import AnalysisError


class CUnit:
    def __init__(self, path: str):
        self.path = path
        self.file = os.path.basename(path)
        self.tu = load_c_ast(path)
        self.funcs: dict[str, dict] = {}
        main = os.path.abspath(path)
        for n in self.tu.get("inner", []):
            if n.get("_file") and os.path.abspath(n["_file"]) != main:
                continue
            if n.get("kind") == "FunctionDecl" and any(c.get("kind") == "CompoundStmt" for c in n.get("inner", [])):
                self.funcs[n["name"]] = n

    def func(self, name: str) -> dict:
        if name not in self.funcs:
            raise AnalysisError(f"anchor C function {name} not found in {self.file}")
        return self.funcs[name]

    def loc(self, n) -> str:
        return f"src/aioquic/{self.file}:{n.get('_line', 0)}"


def kids(n):
    return [c for c in n.get("inner", []) if isinstance(c, dict) and c]


def preorder(n):
    """source-order traversal"""
    yield n
    for c in kids(n):
        yield from preorder(c)


def body(fn) -> dict:
    return next(c for c in kids(fn) if c.get("kind") == "CompoundStmt")


def callee(n) -> str:
    if n.get("kind") != "CallExpr":
        return ""
    f = strip(kids(n)[0])
    return f.get("referencedDecl", {}).get("name", "") if f.get("kind") == "DeclRefExpr" else ctext(f)


def calls(fn, name=None):
    out = []
    for n in preorder(body(fn)):
        if n.get("kind") == "CallExpr" and (name is None or callee(n) == name):
            out.append(n)
    return out


def args(call):
    return kids(call)[1:]


def ceval(n, env=None):
    """integer value of a C expression over literals, + - * / << >> and names in env; None if unknown"""
    env = env or {}
    n = strip(n)
    k = n.get("kind")
    if k == "IntegerLiteral":
        return int(n["value"])
    if k == "CStyleCastExpr":
        return ceval(kids(n)[0], env)
    if k == "DeclRefExpr":
        return env.get(n["referencedDecl"]["name"])
    if k == "UnaryOperator" and n.get("opcode") == "-":
        v = ceval(kids(n)[0], env)
        return None if v is None else -v
    if k == "BinaryOperator":
        a, b = ceval(kids(n)[0], env), ceval(kids(n)[1], env)
        if a is None or b is None:
            return None
        op = n["opcode"]
        try:
            return {"+": a + b, "-": a - b, "*": a * b, "/": a // b if b else None, "<<": a << b, ">>": a >> b, "&": a & b, "|": a | b}.get(op)
        except Exception:
            return None
    return None


def for_loops(fn):
    return [n for n in preorder(body(fn)) if n.get("kind") == "ForStmt"]


def mirror_cond(c):
    """`bound > i` / `bound >= i` rewritten as `i < bound` / `i <= bound`"""
    if c.get("kind") == "BinaryOperator" and c.get("opcode") in (">", ">=") and strip(kids(c)[1]).get("kind") == "DeclRefExpr" and strip(kids(c)[0]).get("kind") != "DeclRefExpr" or (c.get("kind") == "BinaryOperator" and c.get("opcode") in (">", ">=") and strip(kids(c)[1]).get("kind") == "DeclRefExpr"):
        return dict(c, opcode={">": "<", ">=": "<="}[c["opcode"]], inner=[kids(c)[1], kids(c)[0]])
    return c


def loop_range(loop):
    """(var, start, stop) for `for (int v = a; v < b; ++v)`; None otherwise"""
    init, _, cond, inc, _b = (loop["inner"] + [None] * 5)[:5]
    try:
        decl = kids(init)[0]
        var = decl["name"]
        start = ceval(kids(decl)[0])
        c = mirror_cond(strip(cond))
        if c["kind"] != "BinaryOperator" or c["opcode"] not in ("<", "<="):
            return None
        if ctext(kids(c)[0]) != var:
            return None
        stop = ceval(kids(c)[1])
        if stop is None or start is None:
            return None
        if c["opcode"] == "<=":
            stop += 1
        i = strip(inc)
        if i["kind"] != "UnaryOperator" or i["opcode"] != "++":
            return None
        return var, start, stop
    except (KeyError, IndexError, TypeError):
        return None


def const_locals(fn) -> dict:
    """{name: initialiser text} for locals declared with an initialiser and never assigned again (single definition):
    the textual queries of the rule files see through such hoisted sub-expressions"""
    import re

    inits, writes = {}, set()
    for n in preorder(body(fn)):
        k = n.get("kind")
        if k == "VarDecl" and kids(n):
            init = kids(n)[-1]
            if init.get("kind") not in ("InitListExpr",):
                inits[n["name"]] = ctext(strip(init))
        elif k in ("BinaryOperator", "CompoundAssignOperator") and (n.get("opcode") == "=" or k == "CompoundAssignOperator"):
            lhs = strip(kids(n)[0])
            if lhs.get("kind") == "DeclRefExpr":
                writes.add(lhs["referencedDecl"]["name"])
        elif k == "UnaryOperator" and n.get("opcode") in ("++", "--"):
            t = strip(kids(n)[0])
            if t.get("kind") == "DeclRefExpr":
                writes.add(t["referencedDecl"]["name"])
        elif k == "UnaryOperator" and n.get("opcode") == "&":
            t = strip(kids(n)[0])
            if t.get("kind") == "DeclRefExpr":
                writes.add(t["referencedDecl"]["name"])  # address taken: may be written through the pointer
    return {k: v for k, v in inits.items() if k not in writes and not re.search(r"\b(%s)\b" % re.escape(k), v)}


def rtext(fn, node, keep=()) -> str:
    """ctext with single-definition locals replaced by their initialisers (parenthesised), to a fixpoint"""
    import re

    t = ctext(strip(node))
    cl = {k: v for k, v in const_locals(fn).items() if k not in keep}
    for _ in range(4):
        new = t
        for k, v in cl.items():
            new = re.sub(r"(?<![\w>.])%s\b" % re.escape(k), "(" + v + ")", new)
        if new == t:
            break
        t = new
    return t
