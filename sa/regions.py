"""E8 - comparison-partition evaluation.

A validator that touches an integer (a byte, an index, a length) *only* through
comparisons with constants is piecewise constant on the partition of the
integer's domain induced by those constants.  This module

  * enumerates the control paths of a (loop) body as conjunctions of test
    literals ending in raise / fall-through / continue / break / return,
  * checks that every test is inside the comparison-only grammar
    (`v op K`, `K op v op K`, `v in (K, ...)`, and/or/not; v a declared
    symbolic variable, K a constant folded from the module),
  * evaluates the extracted predicate on an assignment of integers to the
    symbolic variables (the caller sweeps the partition representatives, or
    simply the whole byte range - it is 256 values).

Nothing of the analysed code is executed: the only thing evaluated is the
boolean skeleton of the extracted tests over integers chosen by the rule.
"""
from __future__ import annotations

import ast
from typing import Callable, Optional

from .pyfacts import Unknown, norm
from .report import AnalysisError


class Path:
    __slots__ = ("lits", "end", "node")

    def __init__(self, lits, end, node=None):
        self.lits = lits  # list[(test expr, polarity)]
        self.end = end  # 'raise' | 'fall' | 'continue' | 'break' | 'return'
        self.node = node


def paths_of(stmts: list, skip: Optional[Callable] = None) -> list[Path]:
    """all control paths through a statement list (If / Raise / Return / Continue / Break /
    Pass / docstrings / statements accepted by `skip`).  Anything else is unsupported."""
    out: list[Path] = []

    def rec(stmts, lits):
        if not stmts:
            out.append(Path(list(lits), "fall"))
            return
        st, rest = stmts[0], stmts[1:]
        if isinstance(st, ast.If):
            # true branch then the rest; false branch then the rest
            for branch, pol in ((st.body, True), (st.orelse, False)):
                sub = paths_of(branch, skip)
                for p in sub:
                    l2 = lits + [(st.test, pol)] + p.lits
                    if p.end == "fall":
                        rec(rest, l2)
                    else:
                        out.append(Path(l2, p.end, p.node))
            return
        if isinstance(st, ast.Raise):
            out.append(Path(list(lits), "raise", st))
            return
        if isinstance(st, ast.Return):
            out.append(Path(list(lits), "return", st))
            return
        if isinstance(st, ast.Continue):
            out.append(Path(list(lits), "continue", st))
            return
        if isinstance(st, ast.Break):
            out.append(Path(list(lits), "break", st))
            return
        if isinstance(st, ast.Pass) or (isinstance(st, ast.Expr) and isinstance(st.value, ast.Constant)):
            rec(rest, lits)
            return
        if skip is not None and skip(st):
            rec(rest, lits)
            return
        raise AnalysisError(f"regions: unsupported statement in a validator body: {norm(st)[:80]!r} (line {getattr(st, 'lineno', '?')})")

    rec(list(stmts), [])
    return out


class Evaluator:
    """evaluates tests of the comparison-only grammar under an integer assignment"""

    def __init__(self, const_of: Callable[[ast.expr], object], resolve: Callable[[ast.expr], Optional[str]], special: Optional[Callable] = None):
        self.const_of = const_of  # expr -> python constant or Unknown
        self.resolve = resolve  # expr -> symbolic variable name or None
        self.special = special  # (test, env) -> bool | None : rule-specific atoms (e.g. regex matches)
        self.constants: dict[str, set] = {}  # variable -> constants it is compared with

    def _operand(self, e, env):
        v = self.resolve(e)
        if v is not None:
            if v not in env:
                raise AnalysisError(f"regions: variable {v} has no value in this context ({norm(e)})")
            return ("var", v, env[v])
        c = self.const_of(e)
        if c is Unknown:
            raise AnalysisError(f"regions: operand {norm(e)!r} is neither a tracked variable nor a constant")
        return ("const", None, c)

    def _note(self, var, c):
        if isinstance(c, int):
            self.constants.setdefault(var, set()).add(c)
        elif isinstance(c, (tuple, list, set, frozenset, bytes)):
            for x in c:
                if isinstance(x, int):
                    self.constants.setdefault(var, set()).add(x)

    def truth(self, test: ast.expr, env: dict) -> bool:
        if self.special is not None:
            r = self.special(test, env)
            if r is not None:
                return r
        if isinstance(test, ast.BoolOp):
            vals = [self.truth(v, env) for v in test.values]
            return all(vals) if isinstance(test.op, ast.And) else any(vals)
        if isinstance(test, ast.UnaryOp) and isinstance(test.op, ast.Not):
            return not self.truth(test.operand, env)
        if isinstance(test, ast.Constant) and isinstance(test.value, bool):
            return test.value
        if isinstance(test, ast.Compare):
            left = self._operand(test.left, env)
            res = True
            for op, right_e in zip(test.ops, test.comparators):
                right = self._operand(right_e, env)
                if left[0] == "var":
                    self._note(left[1], right[2])
                if right[0] == "var":
                    self._note(right[1], left[2])
                a, b = left[2], right[2]
                try:
                    if isinstance(op, ast.Lt):
                        r = a < b
                    elif isinstance(op, ast.LtE):
                        r = a <= b
                    elif isinstance(op, ast.Gt):
                        r = a > b
                    elif isinstance(op, ast.GtE):
                        r = a >= b
                    elif isinstance(op, ast.Eq):
                        r = a == b
                    elif isinstance(op, ast.NotEq):
                        r = a != b
                    elif isinstance(op, ast.In):
                        r = a in b
                    elif isinstance(op, ast.NotIn):
                        r = a not in b
                    else:
                        raise AnalysisError(f"regions: unsupported comparison {norm(test)!r}")
                except TypeError:
                    raise AnalysisError(f"regions: ill-typed comparison {norm(test)!r}")
                res = res and r
                left = right
            return res
        v = self.resolve(test)
        if v is not None:  # bare truth test of an integer variable
            self._note(v, 0)
            return bool(env[v])
        raise AnalysisError(f"regions: test {norm(test)!r} is outside the comparison-only grammar")

    def path_holds(self, p: Path, env: dict) -> bool:
        return all(self.truth(t, env) == pol for t, pol in p.lits)


def representatives(constants, lo=0, hi=255) -> list[int]:
    s = {lo, hi}
    for k in constants:
        for d in (-1, 0, 1):
            if lo <= k + d <= hi:
                s.add(k + d)
    return sorted(s)


def regex_constants(pattern) -> set:
    """byte values at which a regular expression's behaviour can change (class boundaries,
    literals, and LF for anchors / dot)"""
    import re._parser as sp  # regex *syntax tree* of a pattern constant; nothing is matched here

    out: set = set()

    def rec(items):
        for op, av in items:
            name = str(op)
            if name in ("LITERAL", "NOT_LITERAL"):
                out.add(av)
            elif name == "RANGE":
                out.update(av)
            elif name == "IN":
                rec(av)
            elif name == "CATEGORY":
                out.update((0x30, 0x39, 0x41, 0x5A, 0x5F, 0x61, 0x7A, 9, 13, 32))
            elif name in ("AT", "ANY"):
                out.add(0x0A)
            elif name in ("MAX_REPEAT", "MIN_REPEAT", "POSSESSIVE_REPEAT"):
                rec(av[2])
            elif name == "SUBPATTERN":
                rec(av[3])
            elif name == "BRANCH":
                for b in av[1]:
                    rec(b)
            elif name in ("ASSERT", "ASSERT_NOT"):
                rec(av[1])
            elif name == "ATOMIC_GROUP":
                rec(av)
            elif name in ("NEGATE", "GROUPREF", "GROUPREF_EXISTS"):
                pass
            else:
                raise AnalysisError(f"regions: unsupported regex construct {name}")

    rec(sp.parse(pattern))
    return {k for k in out if isinstance(k, int) and 0 <= k <= 255}
