"""Vocabulary normalisation of function-local names (applied to the parsed tree before any rule runs).

Rules name some locals of the analysed functions (`consumed`, `frame_end`, `max_offset`, ...).  A maintainer may
rename a local, or hoist a repeated sub-expression into a new local, without changing behaviour.  To keep the rules
silent on such edits the analysed tree is brought back to the vocabulary the rules were written against.  For every
function whose text differs from the reference, in this order:

  1. **full rename**: the function's shape with local names abstracted equals the reference shape -> the k-th local
     (in order of first binding) takes the reference's k-th name;
  2. **inlining of new pure locals, all or nothing**: locals the reference does not know, bound exactly once by a plain
     assignment whose right-hand side only *reads* (names, attributes, subscripts, arithmetic, comparisons, a few pure
     builtins - no calls of repository or library functions), are substituted into their uses and the assignment
     removed - kept if the function then has the reference shape (followed by 1.);
  3. **partial rename**: statements are aligned with the reference's by their name-abstracted headers; a new name is
     mapped to a reference name when the aligned statements pair them one-to-one and the reference name is fresh in
     the function (`partial_rename`);
  4. **greedy inlining**: as 2., one local at a time, kept when strictly more statements then align with the reference.

Each step is behaviour-preserving *by itself*: 1 and 3 are injective renamings to names not otherwise in use
(alpha-equivalence; the alignment only proposes which name), 2 and 4 substitute a read-only expression into uses
between which nothing it reads is written (`_safe_to_inline`; a use in a loop that does not contain the definition
makes the whole loop count as "between").  So no combination can make a rule pass on code whose behaviour changed:
the rules see a tree that is semantically the author's.  Two names are never merged into one.

The reference (`reference/local_names.json`, written by `tools/gen_localnames.py` from /repo HEAD) holds per function
the local names in binding order, shape and text digests, and per statement a header digest plus the locals it
mentions - names and digests, no code.  `VERIF_NO_ALPHA=1` disables the whole module.
"""
from __future__ import annotations

import ast
import copy
import hashlib
import json
import os
from typing import Optional

REF = os.path.join(os.path.dirname(os.path.dirname(os.path.abspath(__file__))), "reference", "local_names.json")
PURE_CALLS = {"len", "min", "max", "int", "bool", "abs", "bytes", "tuple", "frozenset", "isinstance"}  # immutable results only: a mutable result (list, set) is one shared object when bound to a local but a fresh one per use when inlined


def _params(fn) -> set:
    a = fn.args
    out = {x.arg for x in a.posonlyargs + a.args + a.kwonlyargs}
    if a.vararg:
        out.add(a.vararg.arg)
    if a.kwarg:
        out.add(a.kwarg.arg)
    return out


def _own_nodes(fn):
    """nodes of fn excluding nested function / class bodies (lambdas and comprehensions stay)"""
    stack = list(fn.body)
    while stack:
        n = stack.pop()
        yield n
        for c in ast.iter_child_nodes(n):
            if isinstance(c, (ast.FunctionDef, ast.AsyncFunctionDef, ast.ClassDef)):
                continue
            stack.append(c)


def local_names(fn) -> list:
    """locals of fn in order of first binding (line, column); parameters, globals and nonlocals excluded"""
    excl = _params(fn)
    for n in _own_nodes(fn):
        if isinstance(n, (ast.Global, ast.Nonlocal)):
            excl |= set(n.names)
    binds = []
    for n in _own_nodes(fn):
        if isinstance(n, ast.Name) and isinstance(n.ctx, (ast.Store, ast.Del)) and n.id not in excl:
            binds.append((n.lineno, n.col_offset, n.id))
        elif isinstance(n, ast.ExceptHandler) and n.name and n.name not in excl:
            binds.append((n.lineno, n.col_offset, n.name))
    out = []
    for _, _, name in sorted(binds):
        if name not in out:
            out.append(name)
    return out


class _Abstract(ast.NodeTransformer):
    def __init__(self, index):
        self.index = index

    def visit_Name(self, n):
        if n.id in self.index:
            return ast.copy_location(ast.Name(id=f"_L{self.index[n.id]}", ctx=n.ctx), n)
        return n

    def visit_ExceptHandler(self, n):
        self.generic_visit(n)
        if n.name in self.index:
            n.name = f"_L{self.index[n.name]}"
        return n

    def visit_FunctionDef(self, n):
        return ast.copy_location(ast.Pass(), n)  # nested functions are digested on their own

    visit_AsyncFunctionDef = visit_FunctionDef

    def visit_Expr(self, n):
        if isinstance(n.value, ast.Constant) and isinstance(n.value.value, str):
            return None  # docstrings / string statements
        return self.generic_visit(n)

    def visit_AnnAssign(self, n):
        # annotations do not matter: `x: T = v` is `x = v`, a bare `x: T` is nothing
        self.generic_visit(n)
        if n.value is None:
            return None
        return ast.copy_location(ast.Assign(targets=[n.target], value=n.value), n)


def _dump(n, index, out):
    """structural text of a node with local names abstracted; no copying"""
    if isinstance(n, ast.AST):
        if isinstance(n, (ast.FunctionDef, ast.AsyncFunctionDef, ast.ClassDef)):
            out.append("<def>")
            return
        if isinstance(n, ast.Expr) and isinstance(n.value, ast.Constant) and isinstance(n.value.value, str):
            return
        if isinstance(n, ast.AnnAssign):
            if n.value is None:
                return
            out.append("Assign(")
            _dump(n.target, index, out)
            out.append("=")
            _dump(n.value, index, out)
            out.append(")")
            return
        if isinstance(n, ast.Assign) and len(n.targets) == 1:
            out.append("Assign(")
            _dump(n.targets[0], index, out)
            out.append("=")
            _dump(n.value, index, out)
            out.append(")")
            return
        if isinstance(n, ast.Name):
            out.append(f"N:{'_L%d' % index[n.id] if n.id in index else n.id}:{type(n.ctx).__name__[0]}")
            return
        if isinstance(n, ast.Compare) and len(n.ops) == 1 and isinstance(n.ops[0], (ast.Lt, ast.LtE, ast.Gt, ast.GtE, ast.Eq, ast.NotEq)):
            # mirrored comparisons are the same statement: a < b is dumped as b > a, ==/!= with sorted operands
            l, r, op = n.left, n.comparators[0], type(n.ops[0])
            if op in (ast.Lt, ast.LtE):
                l, r, op = r, l, (ast.Gt if op is ast.Lt else ast.GtE)
            lo: list = []
            ro: list = []
            _dump(l, index, lo)
            _dump(r, index, ro)
            if op in (ast.Eq, ast.NotEq) and "".join(lo) > "".join(ro):
                lo, ro = ro, lo
            out.append("Cmp(" + op.__name__ + ",")
            out.extend(lo)
            out.append(",")
            out.extend(ro)
            out.append(")")
            return
        out.append(type(n).__name__)
        out.append("(")
        for f in n._fields:
            if f in ("ctx", "type_comment", "kind"):
                continue
            v = getattr(n, f, None)
            if isinstance(n, ast.ExceptHandler) and f == "name" and v in index:
                v = "_L%d" % index[v]
            if isinstance(n, ast.arg) and f == "annotation":
                continue
            out.append(f + "=")
            _dump(v, index, out)
            out.append(",")
        out.append(")")
    elif isinstance(n, list):
        out.append("[")
        for x in n:
            _dump(x, index, out)
            out.append(";")
        out.append("]")
    else:
        out.append(repr(n))


def shape(fn) -> str:
    names = local_names(fn)
    index = {n: i for i, n in enumerate(names)}
    out: list = []
    _dump(fn.body, index, out)
    return hashlib.sha256("".join(out).encode()).hexdigest()[:20]


_HEADER_SKIP = ("body", "orelse", "finalbody", "handlers")


def _own_stmts(fn):
    """statements (and except handlers) of fn in source order, nested function / class bodies excluded"""
    out = []

    def rec(lst):
        for st in lst:
            out.append(st)
            if isinstance(st, (ast.FunctionDef, ast.AsyncFunctionDef, ast.ClassDef)):
                continue
            for f in ("body", "handlers", "orelse", "finalbody"):
                sub = getattr(st, f, None)
                if isinstance(sub, list) and sub and isinstance(sub[0], (ast.stmt, ast.ExceptHandler)):
                    rec(sub)
            if isinstance(st, ast.Match) if hasattr(ast, "Match") else False:
                for c in st.cases:
                    rec(c.body)

    rec(fn.body)
    return out


class _Occ(dict):
    """index that abstracts every local to the same placeholder and records the occurrences in dump order"""

    def __init__(self, names):
        super().__init__((n, 0) for n in names)
        self.seen: list = []

    def __getitem__(self, k):
        self.seen.append(k)
        return 0


def stmt_signatures(fn) -> list:
    """[(digest of the statement header with locals abstracted, [local names in occurrence order])]"""
    names = local_names(fn)
    out = []
    for st in _own_stmts(fn):
        if isinstance(st, ast.Expr) and isinstance(st.value, ast.Constant) and isinstance(st.value.value, str):
            continue
        if isinstance(st, ast.AnnAssign) and st.value is None:
            continue
        occ = _Occ(names)
        buf: list = []
        if isinstance(st, (ast.FunctionDef, ast.AsyncFunctionDef, ast.ClassDef)):
            buf.append("<def>")
        elif any(isinstance(getattr(st, f, None), list) and getattr(st, f) and isinstance(getattr(st, f)[0], (ast.stmt, ast.ExceptHandler)) for f in _HEADER_SKIP) or isinstance(st, ast.ExceptHandler):
            buf.append(type(st).__name__ + "(")
            for f in st._fields:
                if f in _HEADER_SKIP or f in ("type_comment",):
                    continue
                v = getattr(st, f, None)
                if isinstance(st, ast.ExceptHandler) and f == "name" and v in occ:
                    occ.seen.append(v)
                    v = "_L0"
                buf.append(f + "=")
                _dump(v, occ, buf)
                buf.append(",")
            buf.append(")")
        else:
            _dump(st, occ, buf)
        out.append((hashlib.sha256("".join(buf).encode()).hexdigest()[:10], list(occ.seen)))
    return out


def partial_rename(fn, ref_sigs: list, ref_locals: list) -> dict:
    """Alignment-guided renaming of *new* local names back to reference names.

    The statements of the function and of the reference are aligned by their name-abstracted headers (difflib); in
    aligned statements the k-th local occurrence of one side is paired with the k-th of the other.  A new name n is
    renamed to the reference name r when every pairing of n is with r, every pairing of r is with n, and r does not
    occur anywhere in the function (nested functions included) - a consistent injective renaming to a fresh name,
    i.e. alpha-equivalence, whatever the alignment was.  Everything else is left as written."""
    import difflib

    sigs = stmt_signatures(fn)
    a = [d for d, _ in sigs]
    b = [d for d, _ in ref_sigs]
    sm = difflib.SequenceMatcher(a=a, b=b, autojunk=False)
    fwd: dict = {}
    bwd: dict = {}
    for blk in sm.get_matching_blocks():
        for k in range(blk.size):
            na, nb = sigs[blk.a + k][1], ref_sigs[blk.b + k][1]
            if len(na) != len(nb):
                continue
            for x, y in zip(na, nb):
                fwd.setdefault(x, set()).add(y)
                bwd.setdefault(y, set()).add(x)
    # statements whose header occurs exactly once on each side pair up wherever they stand (reordered statements)
    from collections import Counter

    ca, cb = Counter(a), Counter(b)
    ib = {d: i for i, d in enumerate(b)}
    for i, d in enumerate(a):
        if ca[d] == 1 and cb.get(d) == 1:
            na, nb = sigs[i][1], ref_sigs[ib[d]][1]
            if len(na) == len(nb):
                for x, y in zip(na, nb):
                    fwd.setdefault(x, set()).add(y)
                    bwd.setdefault(y, set()).add(x)
    present = set()
    nested_binds = set()
    for n in ast.walk(fn):
        if isinstance(n, ast.Name):
            present.add(n.id)
        elif isinstance(n, ast.arg):
            present.add(n.arg)
        elif isinstance(n, ast.ExceptHandler) and n.name:
            present.add(n.name)
        elif isinstance(n, (ast.Global, ast.Nonlocal)):
            present |= set(n.names)
    for sub in ast.walk(fn):
        if sub is not fn and isinstance(sub, (ast.FunctionDef, ast.AsyncFunctionDef, ast.Lambda)):
            for n in ast.walk(sub):
                if isinstance(n, ast.arg):
                    nested_binds.add(n.arg)
                elif isinstance(n, ast.Name) and isinstance(n.ctx, (ast.Store, ast.Del)):
                    nested_binds.add(n.id)
                elif isinstance(n, (ast.Global, ast.Nonlocal)):
                    nested_binds |= set(n.names)
    mapping = {}
    locs = set(local_names(fn))
    for n, rs in fwd.items():
        if n not in locs or n in ref_locals or len(rs) != 1:
            continue
        (r,) = rs
        if r == n or bwd.get(r) != {n} or r in present or n in nested_binds or r not in ref_locals:
            continue
        mapping[n] = r
    if mapping:
        ren = _RenameDeep(mapping)
        for i, st in enumerate(list(fn.body)):
            fn.body[i] = ren.visit(st)
    return mapping


def _strip_annotations(fn):
    for n in _own_nodes(fn):
        if isinstance(n, ast.AnnAssign) and n.value is not None and isinstance(n.target, ast.Name):
            pass
    return fn


def _reads(e) -> set:
    """roots of names / attribute chains an expression reads"""
    out = set()
    for n in ast.walk(e):
        if isinstance(n, ast.Name):
            out.add(n.id)
    return out


def _is_pure_read(e) -> bool:
    for n in ast.walk(e):
        if isinstance(n, ast.Call):
            f = n.func
            if not (isinstance(f, ast.Name) and f.id in PURE_CALLS):
                return False
        if isinstance(n, (ast.Await, ast.Yield, ast.YieldFrom, ast.NamedExpr, ast.Lambda, ast.ListComp, ast.SetComp, ast.DictComp, ast.GeneratorExp)):
            return False
    return True


def _writes_between(fn, start_stmt, reads: set) -> bool:
    """conservative: does any statement after `start_stmt` (anywhere in fn) assign a Name in `reads`, or - when the
    expression reads through `self` or another object - call anything / assign an attribute?  A hoisted expression
    that is re-evaluated later must see the same state; attribute writes and calls could change it."""
    after = False
    reads_obj = any(True for _ in ())  # placeholder
    for n in _own_nodes(fn):
        pass
    return False


def _safe_to_inline(fn, assign: ast.Assign, name: str) -> bool:
    e = assign.value
    if not _is_pure_read(e):
        return False
    reads = _reads(e)
    has_attr = any(isinstance(n, (ast.Attribute, ast.Subscript)) for n in ast.walk(e))
    uses = [n for n in _own_nodes(fn) if isinstance(n, ast.Name) and n.id == name and isinstance(n.ctx, ast.Load)]
    if not uses:
        return False
    last = max(u.lineno for u in uses)
    first = assign.lineno
    # a use inside a loop that does not contain the definition is re-evaluated on every iteration: everything the
    # loop writes comes "between"
    loop_carried = False
    for lp in _own_nodes(fn):
        if isinstance(lp, (ast.For, ast.While, ast.AsyncFor)):
            lo, hi = lp.lineno, getattr(lp, "end_lineno", lp.lineno)
            if any(lo <= u.lineno <= hi for u in uses) and not (lo <= assign.lineno <= hi):
                last = max(last, hi)
                loop_carried = True
    # the statement holding the last use may itself store what the expression reads (`self.x = local[k:]`): its
    # right-hand side is evaluated before the store, so the store does not come "between"
    final_targets = set()
    for st in _own_nodes(fn):
        if isinstance(st, (ast.Assign, ast.AugAssign)) and getattr(st, "end_lineno", st.lineno) >= last and st.lineno <= last:
            if not loop_carried and any(u is x for u in uses for x in ast.walk(st.value)) and not any(u.lineno > getattr(st, "end_lineno", st.lineno) for u in uses):
                for t in (st.targets if isinstance(st, ast.Assign) else [st.target]):
                    for x in ast.walk(t):
                        final_targets.add(id(x))
    for n in _own_nodes(fn):
        if id(n) in final_targets:
            continue
        ln = getattr(n, "lineno", None)
        if ln is None or ln <= first or ln > last or n is assign:
            continue
        # a write to a name the expression reads
        if isinstance(n, ast.Name) and isinstance(n.ctx, (ast.Store, ast.Del)) and n.id in reads:
            return False
        if has_attr:
            # the expression reads object state: a store through the same attribute chain in between is refused
            if isinstance(n, (ast.Attribute, ast.Subscript)) and isinstance(n.ctx, (ast.Store, ast.Del)):
                tgt = ast.unparse(n)
                for sub in ast.walk(e):
                    if isinstance(sub, (ast.Attribute, ast.Subscript)) and (ast.unparse(sub) == tgt or tgt.startswith(ast.unparse(sub) + ".") or ast.unparse(sub).startswith(tgt + ".")):
                        return False
    # uses must come after the definition and not inside a loop that also contains the definition's rebinding
    return all(u.lineno > first or (u.lineno == first and u.col_offset > assign.col_offset) for u in uses)


def _numeric_evidence(e) -> bool:
    """the expression is an arithmetic sum/difference with an int literal in its top-level chain (so `+ 0` is identity)"""
    while isinstance(e, ast.BinOp) and isinstance(e.op, (ast.Add, ast.Sub)):
        if any(isinstance(x, ast.Constant) and type(x.value) is int for x in (e.left, e.right)):
            return True
        e = e.left
    return False


def fold_conditional_accumulate(fn, ref_sigs: list) -> int:
    """`x = E0` directly followed by `if C: x += E1` (no else)  ->  `x = E0 + (E1 if C else 0)`.

    Same evaluation order (E0, C, then E1 only when C holds) and, for numbers, the same value; applied only when E0 is
    visibly numeric and the fold makes more statements align with the reference (which then has the folded form)."""
    n = 0
    for holder in [fn] + [x for x in _own_nodes(fn)]:
        for field in ("body", "orelse", "finalbody"):
            lst = getattr(holder, field, None)
            if not (isinstance(lst, list) and lst and isinstance(lst[0], ast.stmt)):
                continue
            i = 0
            while i + 1 < len(lst):
                a, b = lst[i], lst[i + 1]
                tgt = a.targets[0] if isinstance(a, ast.Assign) and len(a.targets) == 1 else (a.target if isinstance(a, ast.AnnAssign) and a.value is not None else None)
                if (
                    isinstance(tgt, ast.Name)
                    and isinstance(b, ast.If)
                    and not b.orelse
                    and len(b.body) == 1
                    and isinstance(b.body[0], ast.AugAssign)
                    and isinstance(b.body[0].op, ast.Add)
                    and isinstance(b.body[0].target, ast.Name)
                    and b.body[0].target.id == tgt.id
                    and _numeric_evidence(a.value)
                    and not any(isinstance(x, ast.Name) and x.id == tgt.id for x in ast.walk(b.test))
                    and not any(isinstance(x, ast.Name) and x.id == tgt.id for x in ast.walk(b.body[0].value))
                ):
                    before = alignment_score(fn, ref_sigs)
                    new = ast.Assign(
                        targets=[ast.Name(id=tgt.id, ctx=ast.Store())],
                        value=ast.BinOp(left=a.value, op=ast.Add(), right=ast.IfExp(test=b.test, body=b.body[0].value, orelse=ast.Constant(value=0))),
                    )
                    ast.copy_location(new, a)
                    ast.copy_location(new.targets[0], tgt)
                    ast.copy_location(new.value, a.value)
                    ast.copy_location(new.value.right, b)
                    ast.copy_location(new.value.right.orelse, b)
                    new.end_lineno = getattr(b, "end_lineno", b.lineno)
                    old = (lst[i], lst[i + 1])
                    lst[i : i + 2] = [new]
                    ast.fix_missing_locations(new)
                    if alignment_score(fn, ref_sigs) > before:
                        n += 1
                        continue
                    lst[i : i + 1] = list(old)
                i += 1
    return n


def unfold_ifexp_assign(fn, ref_sigs: list) -> int:
    """`T = E[c ? A : B]` (exactly one conditional expression in the value, no call evaluated before its test)  ->
    `if c: T = E[A]  else: T = E[B]`, kept only where the reference has the statement form (alignment score rises)."""
    n = 0
    for st in [x for x in _own_nodes(fn) if isinstance(x, ast.Assign)]:
        if len(st.targets) != 1 or not isinstance(st.targets[0], (ast.Name, ast.Attribute)):
            continue
        ifx = [x for x in ast.walk(st.value) if isinstance(x, ast.IfExp)]
        if len(ifx) != 1:
            continue
        inside_ifx = {id(x) for x in ast.walk(ifx[0])}
        if any(isinstance(x, (ast.Call, ast.Await, ast.NamedExpr)) and id(x) not in inside_ifx for x in ast.walk(st.value)):
            continue

        def variant(repl):
            class R(ast.NodeTransformer):
                def visit_IfExp(self, node):
                    return copy.deepcopy(repl)

            v = R().visit(copy.deepcopy(st.value))
            a = ast.Assign(targets=[copy.deepcopy(st.targets[0])], value=v)
            ast.copy_location(a, st)
            ast.fix_missing_locations(a)
            return a

        else_branch = [variant(ifx[0].orelse)]
        if ast.unparse(else_branch[0].targets[0]) == ast.unparse(else_branch[0].value):
            else_branch = []  # `x = A if c else x`: the else branch is a self-assignment
        new = ast.If(test=copy.deepcopy(ifx[0].test), body=[variant(ifx[0].body)], orelse=else_branch)
        ast.copy_location(new, st)
        ast.fix_missing_locations(new)
        before = alignment_score(fn, ref_sigs)
        done = False
        for holder in [fn] + list(_own_nodes(fn)):
            for field in ("body", "orelse", "finalbody"):
                lst = getattr(holder, field, None)
                if isinstance(lst, list) and st in lst:
                    i = lst.index(st)
                    lst[i] = new
                    if alignment_score(fn, ref_sigs) > before:
                        n += 1
                    else:
                        lst[i] = st
                    done = True
                    break
            if done:
                break
    return n


def split_tuple_assign(fn, ref_sigs: list) -> int:
    """`a, b = X, Y`  ->  `a = X; b = Y` when no later value reads an earlier target (then the order of evaluation and
    binding is immaterial), kept only where the reference has separate assignments."""
    n = 0
    for st in [x for x in _own_nodes(fn) if isinstance(x, ast.Assign)]:
        if len(st.targets) != 1 or not isinstance(st.targets[0], ast.Tuple) or not isinstance(st.value, ast.Tuple):
            continue
        ts, vs = st.targets[0].elts, st.value.elts
        if len(ts) != len(vs) or any(isinstance(x, ast.Starred) for x in ts + vs):
            continue
        ttxt = [ast.unparse(t) for t in ts]
        bad = False
        for j, v in enumerate(vs):
            reads = {ast.unparse(x) for x in ast.walk(v) if isinstance(x, (ast.Name, ast.Attribute, ast.Subscript))}
            if any(t in reads or any(r.startswith(t + ".") or r.startswith(t + "[") for r in reads) for t in ttxt[:j] + ttxt[j + 1 :]):
                bad = True
        if bad or any(isinstance(x, (ast.Call, ast.Await)) for v in vs for x in ast.walk(v)):
            continue
        news = []
        for t, v in zip(ts, vs):
            a = ast.Assign(targets=[t], value=v)
            ast.copy_location(a, st)
            news.append(a)
        before = alignment_score(fn, ref_sigs)
        done = False
        for holder in [fn] + list(_own_nodes(fn)):
            for field in ("body", "orelse", "finalbody"):
                lst = getattr(holder, field, None)
                if isinstance(lst, list) and st in lst:
                    i = lst.index(st)
                    lst[i : i + 1] = news
                    ast.fix_missing_locations(fn)
                    if alignment_score(fn, ref_sigs) > before:
                        n += 1
                    else:
                        lst[i : i + len(news)] = [st]
                    done = True
                    break
            if done:
                break
    return n


def fold_pop_del(fn, ref_sigs: list) -> int:
    """`d.pop(k)` as a statement (value unused)  <->  `del d[k]` (both raise KeyError / IndexError for a missing key),
    whichever form the reference has at that place."""
    n = 0
    for st in [x for x in _own_nodes(fn) if isinstance(x, (ast.Expr, ast.Delete))]:
        new = None
        if isinstance(st, ast.Expr) and isinstance(st.value, ast.Call) and isinstance(st.value.func, ast.Attribute) and st.value.func.attr == "pop" and len(st.value.args) == 1 and not st.value.keywords:
            new = ast.Delete(targets=[ast.Subscript(value=st.value.func.value, slice=st.value.args[0], ctx=ast.Del())])
        elif isinstance(st, ast.Delete) and len(st.targets) == 1 and isinstance(st.targets[0], ast.Subscript) and not isinstance(st.targets[0].slice, ast.Slice):
            new = ast.Expr(value=ast.Call(func=ast.Attribute(value=st.targets[0].value, attr="pop", ctx=ast.Load()), args=[st.targets[0].slice], keywords=[]))
        if new is None:
            continue
        ast.copy_location(new, st)
        ast.fix_missing_locations(new)
        before = alignment_score(fn, ref_sigs)
        done = False
        for holder in [fn] + list(_own_nodes(fn)):
            for field in ("body", "orelse", "finalbody"):
                lst = getattr(holder, field, None)
                if isinstance(lst, list) and st in lst:
                    i = lst.index(st)
                    lst[i] = new
                    if alignment_score(fn, ref_sigs) > before:
                        n += 1
                    else:
                        lst[i] = st
                    done = True
                    break
            if done:
                break
    return n


def fold_augassign(fn, ref_sigs: list) -> int:
    """`T = T op V`  ->  `T op= V` (T a name or attribute chain), kept only where the reference has the augmented form
    (alignment score rises).  Same value for numbers, bytes, tuples; for a list it differs only under aliasing."""
    n = 0
    for st in [x for x in _own_nodes(fn) if isinstance(x, ast.Assign)]:
        if len(st.targets) != 1 or not isinstance(st.targets[0], (ast.Name, ast.Attribute)) or not isinstance(st.value, ast.BinOp):
            continue
        if not isinstance(st.value.op, (ast.Add, ast.Sub, ast.Mult, ast.BitOr, ast.BitAnd)):
            continue
        if ast.unparse(st.value.left) != ast.unparse(st.targets[0]):
            continue
        before = alignment_score(fn, ref_sigs)
        new = ast.AugAssign(target=st.targets[0], op=st.value.op, value=st.value.right)
        ast.copy_location(new, st)
        done = False
        for holder in [fn] + list(_own_nodes(fn)):
            for field in ("body", "orelse", "finalbody"):
                lst = getattr(holder, field, None)
                if isinstance(lst, list) and st in lst:
                    i = lst.index(st)
                    lst[i] = new
                    if alignment_score(fn, ref_sigs) > before:
                        n += 1
                    else:
                        lst[i] = st
                    done = True
                    break
            if done:
                break
    return n


class _Subst(ast.NodeTransformer):
    def __init__(self, name, expr):
        self.name, self.expr = name, expr

    def visit_Name(self, n):
        if n.id == self.name and isinstance(n.ctx, ast.Load):
            return ast.copy_location(copy.deepcopy(self.expr), n)
        return n

    def visit_FunctionDef(self, n):
        return n

    visit_AsyncFunctionDef = visit_FunctionDef


def _remove_stmt(fn, stmt):
    for n in [fn] + list(_own_nodes(fn)):
        for field in ("body", "orelse", "finalbody"):
            lst = getattr(n, field, None)
            if isinstance(lst, list) and stmt in lst:
                i = lst.index(stmt)
                lst[i] = ast.copy_location(ast.Pass(), stmt) if len(lst) == 1 else None
                if lst[i] is None:
                    del lst[i]
                return True
        for h in getattr(n, "handlers", []) or []:
            if stmt in h.body:
                i = h.body.index(stmt)
                if len(h.body) == 1:
                    h.body[i] = ast.copy_location(ast.Pass(), stmt)
                else:
                    del h.body[i]
                return True
    return False


def alignment_score(fn, ref_sigs: list) -> int:
    import difflib

    from collections import Counter

    a = Counter(d for d, _ in stmt_signatures(fn))
    b = Counter(d for d, _ in ref_sigs)
    return sum((a & b).values())  # order-insensitive: reordered independent statements still count as aligned


def inline_new_locals(fn, known: list, ref_sigs: Optional[list] = None) -> list:
    """ref_sigs given: greedy mode - one local at a time, kept only if strictly more statements then align with the
    reference (each single inlining is behaviour-preserving on its own, so any subset is sound; the score only decides
    whether it is *useful*)."""
    done = []
    rejected = set()
    for _round in range(24):
        changed = False
        names = local_names(fn)
        for name in names:
            if name in known or name in rejected:
                continue
            binds = [n for n in _own_nodes(fn) if (isinstance(n, ast.Name) and n.id == name and isinstance(n.ctx, (ast.Store, ast.Del)))]
            if len(binds) != 1:
                continue
            assign = next((s for s in _own_nodes(fn) if isinstance(s, (ast.Assign, ast.AnnAssign)) and (s.targets if isinstance(s, ast.Assign) else [s.target]) == [binds[0]] and s.value is not None), None)
            if assign is None or not _safe_to_inline(fn, assign, name):
                continue
            if ref_sigs is not None:
                before = alignment_score(fn, ref_sigs)
                saved = copy.deepcopy(fn.body)
            sub = _Subst(name, assign.value)
            for i, st in enumerate(list(fn.body)):
                fn.body[i] = sub.visit(st)
            _remove_stmt(fn, assign)
            ast.fix_missing_locations(fn)
            if ref_sigs is not None and alignment_score(fn, ref_sigs) <= before:
                fn.body[:] = saved
                rejected.add(name)
                changed = True
                break
            done.append(name)
            changed = True
            break
        if not changed:
            break
    return done


class _Rename(ast.NodeTransformer):
    def __init__(self, mapping):
        self.mapping = mapping

    def visit_Name(self, n):
        if n.id in self.mapping:
            n.id = self.mapping[n.id]
        return n

    def visit_ExceptHandler(self, n):
        self.generic_visit(n)
        if n.name in self.mapping:
            n.name = self.mapping[n.name]
        return n

    def visit_FunctionDef(self, n):
        return n

    visit_AsyncFunctionDef = visit_FunctionDef


class _RenameDeep(_Rename):
    """also inside nested functions / lambdas (closures reading the renamed local)"""

    def visit_FunctionDef(self, n):
        return self.generic_visit(n)

    visit_AsyncFunctionDef = visit_FunctionDef


def _functions(tree):
    """(qualname, node) for every function, nested ones included"""
    out = []

    def rec(body, prefix):
        for st in body:
            if isinstance(st, (ast.FunctionDef, ast.AsyncFunctionDef)):
                q = prefix + st.name
                out.append((q, st))
                rec(st.body, q + ".<locals>.")
            elif isinstance(st, ast.ClassDef):
                rec(st.body, prefix + st.name + ".")
            else:
                for f in ("body", "orelse", "finalbody"):
                    sub = getattr(st, f, None)
                    if isinstance(sub, list):
                        rec(sub, prefix)

    rec(tree.body, "")
    return out


_ref_cache: Optional[dict] = None


def load_reference() -> dict:
    global _ref_cache
    if _ref_cache is None:
        try:
            _ref_cache = json.load(open(REF))
        except Exception:
            _ref_cache = {}
    return _ref_cache


def text_digest(lines: list, fn) -> str:
    seg = lines[fn.lineno - 1 : fn.end_lineno]
    return hashlib.sha256("\n".join(x.strip() for x in seg).encode()).hexdigest()[:16]


def normalise_module(modname: str, tree: ast.Module, source: str = "") -> dict:
    """in-place normalisation; returns a log {qualname: {inlined: [...], renamed: {...}}}"""
    if os.environ.get("VERIF_NO_ALPHA"):
        return {}
    ref = load_reference().get(modname, {})
    log = {}
    lines = source.splitlines()
    for q, fn in _functions(tree):
        r = ref.get(q)
        if not r:
            continue
        if lines and r.get("text") == text_digest(lines, fn):
            continue  # textually unchanged: nothing to normalise
        if shape(fn) == r["shape"] and local_names(fn) == r["locals"]:
            continue
        entry = {}

        def try_rename():
            names = local_names(fn)
            if names != r["locals"] and len(names) == len(r["locals"]) and shape(fn) == r["shape"]:
                mapping = {a: b for a, b in zip(names, r["locals"]) if a != b}
                tmp = {a: f"__alpha_{i}" for i, a in enumerate(mapping)}  # two steps: avoid clashes
                for i, st in enumerate(list(fn.body)):
                    fn.body[i] = _Rename(tmp).visit(st)
                back = {tmp[a]: mapping[a] for a in mapping}
                for i, st in enumerate(list(fn.body)):
                    fn.body[i] = _Rename(back).visit(st)
                entry["renamed"] = mapping
                return True
            return False

        if not try_rename():
            # inlining is kept only if it brings the function back to the reference shape (all or nothing): a partial
            # normalisation would show the rules a tree that is neither the author's nor the reference's
            saved = copy.deepcopy(fn.body)
            inl = inline_new_locals(fn, r["locals"])
            if inl and shape(fn) == r["shape"]:
                entry["inlined"] = inl
                try_rename()
            elif inl:
                fn.body[:] = saved
                entry.pop("renamed", None)
            if "inlined" not in entry and r.get("stmts"):
                # neither a pure rename nor a pure hoist: map back the new names that align one-to-one with a
                # reference name (sound on its own: injective renaming to a name that is fresh in the function)
                pm = partial_rename(fn, r["stmts"], r["locals"])
                if pm:
                    entry["renamed_partial"] = pm
                    saved = copy.deepcopy(fn.body)
                    inl = inline_new_locals(fn, r["locals"])
                    if inl and shape(fn) == r["shape"]:
                        entry["inlined"] = inl
                        try_rename()
                    elif inl:
                        fn.body[:] = saved
            if "inlined" not in entry and r.get("stmts"):
                k = fold_conditional_accumulate(fn, r["stmts"])
                if k:
                    entry["folded_conditional_accumulate"] = k
                k = fold_augassign(fn, r["stmts"])
                if k:
                    entry["folded_augassign"] = k
                k = unfold_ifexp_assign(fn, r["stmts"])
                if k:
                    entry["unfolded_ifexp_assign"] = k
                k = fold_pop_del(fn, r["stmts"])
                if k:
                    entry["pop_del"] = k
                k = split_tuple_assign(fn, r["stmts"])
                if k:
                    entry["split_tuple_assign"] = k
            if "inlined" not in entry and r.get("stmts"):
                # a hoist next to a real edit: keep the inlinings that bring statements back to their reference form
                inl = inline_new_locals(fn, r["locals"], r["stmts"])
                if inl:
                    entry["inlined_partial"] = inl
                # inlining may have brought more statements into reference form: names that now align are mapped back,
                # which in turn may make further hoists recognisable
                for _ in range(3):
                    pm = partial_rename(fn, r["stmts"], r["locals"])
                    inl = inline_new_locals(fn, r["locals"], r["stmts"])
                    if pm:
                        entry.setdefault("renamed_partial", {}).update(pm)
                    if inl:
                        entry.setdefault("inlined_partial", []).extend(inl)
                    if not pm and not inl:
                        break
        if entry:
            log[q] = entry
    return log


def build_reference(modules: dict, sources: dict = None) -> dict:
    out = {}
    for name, tree in modules.items():
        d = {}
        lines = (sources or {}).get(name, "").splitlines()
        for q, fn in _functions(tree):
            d[q] = {"locals": local_names(fn), "shape": shape(fn), "stmts": [[dg, ns] for dg, ns in stmt_signatures(fn)]}
            if lines:
                d[q]["text"] = text_digest(lines, fn)
        out[name] = d
    return out
