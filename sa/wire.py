"""Wire-grammar extraction for push_X / pull_X codec pairs.

A codec function is abstracted to the sequence of primitive wire operations it performs on its
buffer, in evaluation order:

    U8 U16 U32 U64 VAR BYTES(n|*) OPAQUE(k) BLOCK(k){...} LIST(k){item...} EXTS{type: {...}} NT(name)

`with push_extension(buf, T)` and the `extension_type == T` branches of a pull_extension closure are
both abstracted to EXTS entries, so an extensions block compares as an unordered map type -> body.
Conditionals and loops are flattened (presence / repetition is data dependent on both sides).
Nothing is executed; the result is a structural summary that the rule compares for equality.
"""
from __future__ import annotations

import ast
from typing import Optional

from .pyfacts import call_name, norm

PRIMS = {"uint8": "U8", "uint16": "U16", "uint32": "U32", "uint64": "U64", "uint_var": "VAR"}


class Extractor:
    def __init__(self, repo, mod, side: str, buf: str = "buf"):
        self.repo, self.mod, self.side, self.buf = repo, mod, side, buf
        self.local_fns: dict[str, ast.FunctionDef] = {}
        self.unknown: list[str] = []

    # ---- entry -------------------------------------------------------------------------------
    def function(self, fn: ast.FunctionDef) -> list:
        for st in ast.walk(fn):
            if isinstance(st, ast.FunctionDef) and st is not fn:
                self.local_fns[st.name] = st
        return self.block(fn.body)

    def block(self, stmts) -> list:
        out = []
        for st in stmts:
            out += self.stmt(st)
        return out

    def stmt(self, st) -> list:
        if isinstance(st, (ast.FunctionDef, ast.ClassDef, ast.Pass, ast.Nonlocal, ast.Global)):
            return []
        if isinstance(st, (ast.With, ast.AsyncWith)):
            inner = None
            for it in st.items:
                c = it.context_expr
                if isinstance(c, ast.Call):
                    cn = call_name(c)
                    if cn in ("pull_block", "push_block") and len(c.args) == 2:
                        k = self.repo.const(self.mod, c.args[1])
                        inner = ("BLOCK", k)
                    elif cn == "push_extension" and len(c.args) == 2:
                        inner = ("EXT", self._ext_name(c.args[1]))
            body = self.block(st.body)
            if inner is None:
                return body
            if inner[0] == "BLOCK":
                return [self._norm_block(inner[1], body)]
            return [("EXT", inner[1], body)]
        if isinstance(st, ast.If):
            return self.expr(st.test) + self.block(st.body) + self.block(st.orelse)
        if isinstance(st, (ast.For, ast.While)):
            head = self.expr(st.iter) if isinstance(st, ast.For) else self.expr(st.test)
            return head + self.block(st.body)
        if isinstance(st, ast.Try):
            out = self.block(st.body)
            for h in st.handlers:
                out += self.block(h.body)
            return out + self.block(st.orelse) + self.block(st.finalbody)
        if isinstance(st, ast.Raise):
            return []
        out = []
        for f, v in ast.iter_fields(st):
            if f in ("targets", "target") and not isinstance(st, ast.AugAssign):
                continue
            vals = v if isinstance(v, list) else [v]
            for x in vals:
                if isinstance(x, ast.expr):
                    out += self.expr(x)
        return out

    # ---- expressions ---------------------------------------------------------------------------
    def expr(self, e) -> list:
        if e is None:
            return []
        if isinstance(e, ast.Call):
            return self.call(e)
        if isinstance(e, ast.Lambda):
            return []
        out = []
        for c in ast.iter_child_nodes(e):
            if isinstance(c, ast.expr):
                out += self.expr(c)
            elif isinstance(c, ast.keyword):
                out += self.expr(c.value)
            elif isinstance(c, ast.comprehension):
                out += self.expr(c.iter)
                for i in c.ifs:
                    out += self.expr(i)
        return out

    def call(self, c: ast.Call) -> list:
        cn = call_name(c)
        pre = "pull_" if self.side == "pull" else "push_"
        # buffer primitives
        if isinstance(c.func, ast.Attribute) and norm(c.func.value) == self.buf and c.func.attr.startswith(pre):
            what = c.func.attr[len(pre) :]
            inner = []
            for a in c.args:
                inner += self.expr(a)
            if what == "uint16" and self.side == "push" and c.args and isinstance(c.args[0], ast.BinOp) and isinstance(c.args[0].op, ast.BitOr) and 0x4000 in (self.repo.const(self.mod, c.args[0].left), self.repo.const(self.mod, c.args[0].right)):
                return inner + [("VAR",)]  # 2-byte varint written by hand: value | 0x4000
            if what in PRIMS:
                return inner + [(PRIMS[what],)]
            if what == "bytes":
                n = "*"
                if self.side == "pull" and c.args:
                    v = self.repo.const(self.mod, c.args[0])
                    n = v if isinstance(v, int) else "*"
                return inner + [("BYTES", n)]
        if cn in (pre + "opaque",) and len(c.args) >= 2:
            return [("OPAQUE", self.repo.const(self.mod, c.args[1]))]
        if cn in (pre + "list",) and len(c.args) >= 3:
            k = self.repo.const(self.mod, c.args[1])
            return [("LIST", k, self.item(c.args[2]))]
        if cn == "pull_handshake_type":
            return [("U8",)]
        if cn.startswith(pre) and isinstance(c.func, ast.Name) and c.args and norm(c.args[0]) == self.buf:
            name = cn[len(pre) :]
            if cn in self.local_fns:
                return self._local(cn)
            return [("NT", name)]
        if isinstance(c.func, ast.Name) and cn in self.local_fns:
            return self._local(cn)
        # anything else: look inside the arguments (constructors of message objects etc.)
        out = self.expr(c.func) if not isinstance(c.func, (ast.Name, ast.Attribute)) else []
        if isinstance(c.func, ast.Attribute):
            out += self.expr(c.func.value)
        for a in c.args:
            out += self.expr(a)
        for k in c.keywords:
            out += self.expr(k.value)
        return out

    def item(self, f) -> list:
        """grammar of one list element given the callable passed to pull_list / push_list"""
        pre = "pull_" if self.side == "pull" else "push_"
        if isinstance(f, ast.Attribute) and norm(f.value) == self.buf and f.attr.startswith(pre) and f.attr[len(pre) :] in PRIMS:
            return [(PRIMS[f.attr[len(pre) :]],)]
        if isinstance(f, ast.Call) and call_name(f) == "partial" and f.args:
            g = f.args[0]
            if isinstance(g, ast.Name):
                if g.id in self.local_fns:
                    return self._local(g.id)
                if g.id.startswith(pre):
                    return [("NT", g.id[len(pre) :])]
        if isinstance(f, ast.Name):
            if f.id in self.local_fns:
                return self._local(f.id)
            if f.id.startswith(pre):
                return [("NT", f.id[len(pre) :])]
        self.unknown.append(norm(f))
        return [("?", norm(f))]

    def _local(self, name: str) -> list:
        fn = self.local_fns[name]
        if name == "pull_extension":
            return [self._pull_extension(fn)]
        sub = Extractor(self.repo, self.mod, self.side, self.buf)
        sub.local_fns = dict(self.local_fns)
        g = sub.block(fn.body)
        self.unknown += sub.unknown
        return g

    # ---- extensions -----------------------------------------------------------------------------
    def _ext_name(self, e) -> str:
        t = norm(e)
        return t.split(".")[-1] if t.startswith("ExtensionType.") else "*"

    def _pull_extension(self, fn: ast.FunctionDef):
        table = {}
        for st in fn.body:
            if isinstance(st, ast.If):
                cur = st
                while True:
                    name = None
                    neg = False
                    t = cur.test
                    if isinstance(t, ast.Compare) and len(t.ops) == 1 and isinstance(t.ops[0], (ast.Eq, ast.NotEq)):
                        a, b = t.left, t.comparators[0]
                        if norm(b) == "extension_type" and norm(a).startswith("ExtensionType."):
                            a, b = b, a  # mirrored comparison
                        if norm(a) == "extension_type":
                            name = self._ext_name(b)
                            neg = isinstance(t.ops[0], ast.NotEq)
                    if name is None:
                        # a guard such as `if after_psk: raise` or the trailing length check
                        break
                    # `if type != X: <rest> else: <X>` is the same dispatch with the branches swapped
                    mine, rest = (cur.orelse, cur.body) if neg else (cur.body, cur.orelse)
                    table[name] = _flat(self.block(mine))
                    if len(rest) == 1 and isinstance(rest[0], ast.If):
                        cur = rest[0]
                        continue
                    if rest:
                        table["*"] = _flat(self.block(rest))
                    break
        return ("EXTS", table)

    def _norm_block(self, k, body):
        flat = _flat(body)
        if flat and all(x[0] == "EXT" for x in flat):
            table = {}
            for x in flat:
                table[x[1]] = _flat(x[2])
            return ("LIST", k, [("EXTS", table)])
        return ("BLOCK", k, flat)


def _flat(seq) -> list:
    return [x for x in seq]


def equal(a, b) -> Optional[str]:
    """None when the grammars agree, else a description of the first difference"""
    if len(a) != len(b):
        return f"{len(a)} vs {len(b)} elements: {show(a)}  <>  {show(b)}"
    for x, y in zip(a, b):
        d = _eq1(x, y)
        if d:
            return d
    return None


def _eq1(x, y) -> Optional[str]:
    if x[0] != y[0]:
        return f"{show([x])} <> {show([y])}"
    k = x[0]
    if k == "BYTES":
        return None if x[1] == y[1] or "*" in (x[1], y[1]) else f"BYTES({x[1]}) <> BYTES({y[1]})"
    if k == "OPAQUE":
        return None if x[1] == y[1] else f"OPAQUE({x[1]}) <> OPAQUE({y[1]})"
    if k in ("BLOCK", "LIST"):
        if x[1] != y[1]:
            return f"{k} length prefix {x[1]} <> {y[1]} bytes"
        return equal(x[2], y[2])
    if k == "EXTS":
        if set(x[1]) != set(y[1]):
            return f"extension sets differ: only one side has {sorted(set(x[1]) ^ set(y[1]))}"
        for t in x[1]:
            d = equal(x[1][t], y[1][t])
            if d:
                return f"extension {t}: {d}"
        return None
    if k == "NT":
        return None if x[1] == y[1] else f"NT({x[1]}) <> NT({y[1]})"
    return None


def show(seq) -> str:
    out = []
    for x in seq:
        if x[0] in ("BLOCK", "LIST"):
            out.append(f"{x[0]}({x[1]}){{{show(x[2])}}}")
        elif x[0] == "EXTS":
            out.append("EXTS{" + ", ".join(f"{t}: {show(b)}" for t, b in sorted(x[1].items())) + "}")
        elif x[0] == "EXT":
            out.append(f"EXT({x[1]}){{{show(x[2])}}}")
        elif len(x) > 1:
            out.append(f"{x[0]}({x[1]})")
        else:
            out.append(x[0])
    return " ".join(out)
