"""Query helpers over functions: statements, calls, assignments, raises, path
conditions (from CFG dominance), comparison normalisation, local def-use."""
from __future__ import annotations

import ast
import sys
from typing import Callable, Iterable, Optional

from .cfg import CFG, cfg_of
from .pyfacts import Repo, attr_chain, call_name, norm, stmts_of, walk_no_nested
from .report import AnalysisError


class Fn:
    consulted: set = set()  # every function a rule set looked at during this run (reported in the evidence)

    def __init__(self, repo: Repo, ref: str):
        self.repo = repo
        self.ref = ref
        self.node = repo.func(ref)
        if sys._getframe(1).f_globals.get("__name__", "").startswith("rules."):
            Fn.consulted.add(ref)
        self.mod = self.node._module  # type: ignore[attr-defined]
        self.qual = self.node._qualname  # type: ignore[attr-defined]
        self._cfg: Optional[CFG] = None

    @property
    def cfg(self) -> CFG:
        if self._cfg is None:
            self._cfg = cfg_of(self.node)
        return self._cfg

    def loc(self, n: ast.AST) -> str:
        return self.repo.loc(n, self.mod)

    # ---- enumeration -----------------------------------------------------
    def stmts(self, pred: Optional[Callable] = None) -> list[ast.stmt]:
        return [s for s in stmts_of(self.node) if pred is None or pred(s)]

    def nodes(self, typ=None, pred=None) -> list[ast.AST]:
        out = []
        for st in stmts_of(self.node):
            for n in _walk_stmt_exprs(st):
                if (typ is None or isinstance(n, typ)) and (pred is None or pred(n)):
                    out.append(n)
        return out

    def calls(self, name: Optional[str] = None, suffix: Optional[str] = None, pred=None) -> list[ast.Call]:
        """name: exact dotted callee ('self._set_state'); suffix: last attribute ('handle_frame')"""
        out = []
        for c in self.nodes(ast.Call):
            cn = call_name(c)
            if name is not None and cn != name:
                continue
            if suffix is not None and not (cn == suffix or cn.endswith("." + suffix)):
                continue
            if pred is not None and not pred(c):
                continue
            out.append(c)
        return out

    def assigns(self, chain: Optional[str] = None, suffix: Optional[str] = None) -> list[tuple[ast.stmt, ast.expr, Optional[ast.expr]]]:
        """(stmt, target, value) for Assign / AugAssign / AnnAssign whose target chain matches"""
        if not hasattr(self, "_all_assigns"):
            self._all_assigns = self._assigns_scan()
        out = []
        for st, t, val, c in self._all_assigns:
            if chain is not None and c != chain:
                continue
            if suffix is not None and not (c == suffix or c.endswith("." + suffix)):
                continue
            out.append((st, t, val))
        return out

    def _assigns_scan(self):
        out = []
        for st in stmts_of(self.node):
            targets = []
            if isinstance(st, ast.Assign):
                for t in st.targets:
                    targets += _flatten_targets(t)
                val = st.value
            elif isinstance(st, ast.AugAssign):
                targets, val = [st.target], st.value
            elif isinstance(st, ast.AnnAssign) and st.value is not None:
                targets, val = [st.target], st.value
            else:
                targets, val = [], None
            for t in targets:
                c = attr_chain(t)
                if c is None:
                    continue
                out.append((st, t, val, c))
            # assignment expressions bound in this statement's own expressions (`if (x := e) is not None:`)
            for n in _walk_stmt_exprs(st):
                if isinstance(n, ast.NamedExpr):
                    out.append((st, n.target, n.value, n.target.id))
        return out

    def updates(self, chain: str) -> list[tuple[ast.stmt, ast.operator, ast.expr]]:
        """(stmt, op, operand) for `T op= V` and for the spelled-out `T = T op V` (same thing for numbers)"""
        out = []
        for st, t, v in self.assigns(chain=chain):
            if isinstance(st, ast.AugAssign):
                out.append((st, st.op, st.value))
            elif isinstance(st, ast.Assign) and len(st.targets) == 1 and isinstance(v, ast.BinOp) and norm(v.left) == norm(t):
                out.append((st, v.op, v.right))
        return out

    def raises(self, exc: Optional[str] = None) -> list[ast.Raise]:
        out = []
        for st in stmts_of(self.node):
            if isinstance(st, ast.Raise):
                if exc is None or raise_class(st) == exc:
                    out.append(st)
        return out

    def returns(self) -> list[ast.Return]:
        return [s for s in stmts_of(self.node) if isinstance(s, ast.Return)]

    # ---- control -----------------------------------------------------------
    def block_of(self, st: ast.stmt) -> list[ast.stmt]:
        """the statement list (body / orelse / handler body ...) that directly contains st"""
        for n in ast.walk(self.node):
            for f in ("body", "orelse", "finalbody"):
                b = getattr(n, f, None)
                if isinstance(b, list) and any(x is st for x in b):
                    return b
        raise AnalysisError(f"{self.ref}: statement has no enclosing block")

    def reaches_assuming(self, src: int, dst: int, assume: Iterable[tuple[str, bool]], avoid: Iterable[int] = (), expand: bool = False) -> bool:
        """is there a CFG path src -> dst that avoids `avoid` and takes no branch edge whose condition contradicts
        one of the assumed atoms?  (path-sensitive in the assumed atoms only: `if a and b: X; if a: Y` and the nested
        form prune the same edges.)  The assumed atoms must not be written on the way - the caller's business."""
        cfg = self.cfg
        neg = {negate(a) for a in assume} - {None}
        edge_atoms = {}
        ex = (lambda e: self.expand(e, 4)) if expand else None
        for st, n in cfg.tedge.items():
            if isinstance(st, (ast.If, ast.While)):
                edge_atoms[n] = unit_propagate(atoms_of(st.test, True, expand=ex) + list(assume))
        for st, n in cfg.fedge.items():
            if isinstance(st, (ast.If, ast.While)):
                edge_atoms[n] = unit_propagate(atoms_of(st.test, False, expand=ex) + list(assume))
        avoid = set(avoid)
        seen = {src}
        stack = [src]
        while stack:
            n = stack.pop()
            if n == dst:
                return True
            for x in cfg.nodes[n].succ:
                if x in seen or x in avoid:
                    continue
                if x in edge_atoms and (any(a in neg for a in edge_atoms[x]) or contradictory(edge_atoms[x])):
                    continue
                seen.add(x)
                stack.append(x)
        return False

    def before(self, a: ast.AST, b: ast.AST) -> bool:
        """a completed normally on every path that reaches b"""
        try:
            return self.cfg.completed_before(a, b)
        except KeyError:
            return False

    def always_after(self, a: ast.AST, b: ast.AST) -> bool:
        """every normal path from a to the function exit passes through b"""
        try:
            return self.cfg.always_followed_by(a, b)
        except KeyError:
            return False

    def reachable(self, n: ast.AST) -> bool:
        try:
            return self.cfg.reachable(self.cfg.node_of(n))
        except KeyError:
            return False

    def guards(self, n: ast.AST) -> list[tuple[ast.expr, bool, ast.stmt]]:
        """tests that must have evaluated to the given polarity on every path to n:
        [(test expr, polarity, stmt)].  `while`/`for` bodies count as polarity True."""
        cfg = self.cfg
        try:
            target = cfg.node_of(n)
        except KeyError:
            return []
        out = []
        for st, tn in cfg.tedge.items():
            if not isinstance(st, (ast.If, ast.While)):
                continue
            if cfg.dominates(tn, target) and not _inside(n, st.test):
                out.append((st.test, True, st))
            fn = cfg.fedge.get(st)
            if fn is not None and cfg.dominates(fn, target) and not _inside(n, st.test):
                out.append((st.test, False, st))
        return out

    def guard_atoms(self, n: ast.AST) -> list[tuple[str, bool]]:
        """path condition of n flattened into atoms: ('a > b', True) ...; conjunctions under True
        and disjunctions under False are split, `not` is folded into the polarity."""
        atoms = []
        for test, pol, _ in self.guards(n):
            atoms += flatten_cond(test, pol)
        return unit_propagate(atoms)

    def lexical_guards(self, n: ast.AST, expand: bool = True) -> list[tuple[str, bool]]:
        """atoms contributed by the if/while statements that lexically enclose n (not by
        earlier `if ...: raise/return` statements whose false edge merely precedes n)"""
        atoms = []
        child = n
        p = getattr(n, "_parent", None)
        while p is not None and p is not self.node:
            if isinstance(p, (ast.If, ast.While)) and not _inside(n, p.test):
                pol = any(child is s or _inside(child, s) for s in p.body) if not (child in p.body) else True
                if child in p.orelse or any(_inside(child, s) for s in p.orelse):
                    pol = False
                ex = (lambda e: self.expand(e, 4)) if expand else None
                atoms += atoms_of(p.test, pol, expand=ex)
            child = p
            p = getattr(p, "_parent", None)
        return unit_propagate(atoms)

    def guard_atoms_x(self, n: ast.AST) -> list[tuple[str, bool]]:
        """like guard_atoms, with single-definition locals inlined (robust to renaming locals)"""
        atoms = []
        for test, pol, _ in self.guards(n):
            atoms += atoms_of(test, pol, expand=lambda e: self.expand(e, 4))
        return unit_propagate(atoms)

    def has_guard(self, n: ast.AST, op: str, holds: bool, contains: Iterable[str]) -> bool:
        """some guard atom on every path to n is (after normalisation and inlining of locals) a
        comparison `A op B` holding/failing as stated whose text contains all given fragments.
        op 'truth' matches a bare truth test."""
        return bool(self.find_guards(self.guard_atoms_x(n), op, holds, contains))

    @staticmethod
    def find_guards(atoms, op: str, holds: bool, contains: Iterable[str]):
        if op == "truth":
            want_pol = holds
            return [a for a in atoms if a[1] == want_pol and not a[0].startswith("(") and not _has_cmp(a[0]) and all(c in a[0] for c in contains)]
        probe = ast.parse(f"__l {op} __r", mode="eval").body
        t, pol = cmp_atom(probe.left, probe.ops[0], probe.comparators[0], holds)
        sym = " " + t.replace("__l", "").replace("__r", "").strip() + " "
        out = []
        for a in atoms:
            if a[1] == pol and sym in a[0] and all(c in a[0] for c in contains):
                out.append(a)
        return out

    def enclosing_handlers(self, n: ast.AST) -> list[ast.ExceptHandler]:
        """except handlers whose try-body lexically contains n (innermost first)"""
        out = []
        p = getattr(n, "_parent", None)
        child = n
        while p is not None and p is not self.node:
            if isinstance(p, ast.Try) and any(child is s or _inside(child, s) for s in p.body):
                out += p.handlers
            child = p
            p = getattr(p, "_parent", None)
        return out

    # ---- local def-use -----------------------------------------------------------
    def local_defs(self, name: str) -> list[ast.expr]:
        """all expressions assigned to local `name` (flow-insensitive)"""
        out = []
        for st, t, v in self.assigns(chain=name):
            if isinstance(st, ast.AugAssign):
                out.append(ast.BinOp(left=t, op=st.op, right=v))
            elif v is not None:
                out.append(v)
        return out

    def expand(self, e: ast.expr, depth: int = 3) -> str:
        """normalised text of e with single-definition locals inlined"""
        if not hasattr(self, "_xmemo"):
            self._xmemo = {}
        k = (id(e), depth)
        r = self._xmemo.get(k)
        if r is None or r[0] is not e:
            r = (e, norm(self._expand(e, depth, set())))
            self._xmemo[k] = r
        return r[1]

    def _expand(self, e, depth, seen):
        if depth == 0:
            return e
        fn = self

        class T(ast.NodeTransformer):
            def visit_Name(self, n):
                if isinstance(n.ctx, ast.Load) and n.id not in seen:
                    defs = fn.local_defs(n.id)
                    if len(defs) == 1 and not fn.is_param(n.id) and fn._simple_def(n.id) and not fn._stale_in_loop(n.id, e):
                        d = defs[0]
                        if not any(isinstance(x, ast.Name) and x.id == n.id for x in ast.walk(d)):
                            return fn._expand(d, depth - 1, seen | {n.id})
                return n

        return T().visit(clone(e))

    def _stale_in_loop(self, name: str, use: ast.AST) -> bool:
        """the single definition of `name` lies outside a loop that contains the use, reads object state (an attribute
        chain) and the loop writes that state: the local holds the value from before the loop, the expression does not"""
        loop = getattr(use, "_parent", None)
        while loop is not None and not isinstance(loop, (ast.For, ast.While, ast.AsyncFor)):
            loop = getattr(loop, "_parent", None)
        if loop is None:
            return False
        ds = self.assigns(chain=name)
        if len(ds) != 1 or ds[0][2] is None or _inside(ds[0][0], loop):
            return False
        reads = {attr_chain(x) for x in ast.walk(ds[0][2]) if isinstance(x, ast.Attribute)} - {None}
        if not reads:
            return False
        for st, t, v in self.assigns():
            if _inside(st, loop):
                c = attr_chain(t) if isinstance(t, (ast.Attribute, ast.Name)) else attr_chain(getattr(t, "value", None)) if isinstance(t, ast.Subscript) else None
                if c and any(c == r or r.startswith(c + ".") or c.startswith(r + ".") for r in reads):
                    return True
        return False

    def _simple_def(self, name: str) -> bool:
        """the single definition is `name = expr` (not tuple unpacking / loop target)"""
        if not hasattr(self, "_nonsimple"):
            self._nonsimple = self._nonsimple_scan()
        return name not in self._nonsimple

    def _nonsimple_scan(self) -> set:
        bad = set()

        def names(t):
            return {x.id for x in ast.walk(t) if isinstance(x, ast.Name)}

        for st in stmts_of(self.node):
            if isinstance(st, (ast.For, ast.AsyncFor)):
                bad |= names(st.target)
            if isinstance(st, (ast.With, ast.AsyncWith)):
                for it in st.items:
                    if it.optional_vars is not None:
                        bad |= names(it.optional_vars)
            if isinstance(st, ast.Assign):
                for t in st.targets:
                    if isinstance(t, (ast.Tuple, ast.List)):
                        bad |= names(t)
        return bad

    def _unused_simple_def(self, name: str) -> bool:
        for st in stmts_of(self.node):
            if isinstance(st, (ast.For, ast.AsyncFor)) and any(isinstance(x, ast.Name) and x.id == name for x in ast.walk(st.target)):
                return False
            if isinstance(st, (ast.With, ast.AsyncWith)):
                for it in st.items:
                    if it.optional_vars is not None and any(isinstance(x, ast.Name) and x.id == name for x in ast.walk(it.optional_vars)):
                        return False
            if isinstance(st, ast.Assign):
                for t in st.targets:
                    if isinstance(t, (ast.Tuple, ast.List)) and any(isinstance(x, ast.Name) and x.id == name for x in ast.walk(t)):
                        return False
        return True

    def is_param(self, name: str) -> bool:
        a = self.node.args
        return name in [x.arg for x in a.posonlyargs + a.args + a.kwonlyargs] or (a.vararg and a.vararg.arg == name) or (a.kwarg and a.kwarg.arg == name)

    def closure_chains(self, e: ast.expr, depth: int = 6) -> set:
        """all attribute chains / names the value of e may depend on through local assignments"""
        out = set()
        seen = set()
        work = [e]
        while work and depth:
            nxt = []
            for x in work:
                for n in ast.walk(x):
                    if isinstance(n, (ast.Attribute, ast.Name)):
                        p = getattr(n, "_parent", None)
                        if isinstance(p, ast.Attribute) and p.value is n:
                            continue
                        c = attr_chain(n)
                        if c is None:
                            continue
                        out.add(c)
                        if isinstance(n, ast.Name) and n.id not in seen:
                            seen.add(n.id)
                            nxt += self.local_defs(n.id)
            work = nxt
            depth -= 1
        return out


def clone(n):
    """structural copy of an AST subtree (does not follow the _parent back-links)"""
    if isinstance(n, ast.AST):
        new = n.__class__()
        for f in n._fields:
            if hasattr(n, f):
                setattr(new, f, clone(getattr(n, f)))
        for a in ("lineno", "col_offset", "end_lineno", "end_col_offset"):
            if hasattr(n, a):
                setattr(new, a, getattr(n, a))
        return new
    if isinstance(n, list):
        return [clone(x) for x in n]
    return n


def _flatten_targets(t):
    if isinstance(t, (ast.Tuple, ast.List)):
        out = []
        for e in t.elts:
            out += _flatten_targets(e)
        return out
    if isinstance(t, ast.Starred):
        return _flatten_targets(t.value)
    return [t]


def _walk_stmt_exprs(st: ast.stmt):
    """expression nodes belonging to this statement only (not to nested statements)"""
    if isinstance(st, (ast.FunctionDef, ast.AsyncFunctionDef, ast.ClassDef)):
        return
    for field, value in ast.iter_fields(st):
        if field in ("body", "orelse", "finalbody", "handlers", "cases"):
            continue
        vals = value if isinstance(value, list) else [value]
        for v in vals:
            if isinstance(v, ast.AST):
                if isinstance(v, ast.withitem):
                    yield from walk_no_nested(v)
                else:
                    yield from walk_no_nested(v)


def _inside(node: ast.AST, root: ast.AST) -> bool:
    n = node
    while n is not None:
        if n is root:
            return True
        n = getattr(n, "_parent", None)
    return False


def inside(node, root):
    return _inside(node, root)


def raise_class(st: ast.Raise) -> Optional[str]:
    if st.exc is None:
        return None
    e = st.exc
    if isinstance(e, ast.Call):
        e = e.func
    return attr_chain(e)


def raise_kw(st: ast.Raise, kw: str) -> Optional[ast.expr]:
    if isinstance(st.exc, ast.Call):
        for k in st.exc.keywords:
            if k.arg == kw:
                return k.value
    return None


# ---- condition normalisation -------------------------------------------------------

_SWAP = {ast.Lt: ast.Gt, ast.Gt: ast.Lt, ast.LtE: ast.GtE, ast.GtE: ast.LtE, ast.Eq: ast.Eq, ast.NotEq: ast.NotEq}
_NEG = {ast.Lt: ast.GtE, ast.Gt: ast.LtE, ast.LtE: ast.Gt, ast.GtE: ast.Lt, ast.Eq: ast.NotEq, ast.NotEq: ast.Eq, ast.Is: ast.IsNot, ast.IsNot: ast.Is, ast.In: ast.NotIn, ast.NotIn: ast.In}
_SYM = {ast.Lt: "<", ast.Gt: ">", ast.LtE: "<=", ast.GtE: ">=", ast.Eq: "==", ast.NotEq: "!=", ast.Is: "is", ast.IsNot: "is not", ast.In: "in", ast.NotIn: "not in"}


class _Walrus(ast.NodeTransformer):
    def visit_NamedExpr(self, n):
        return ast.copy_location(ast.Name(id=n.target.id, ctx=ast.Load()), n)


def _strip_walrus(test):
    """`(x := e) is not None` is a statement about x once it is bound: atoms name the target"""
    if any(isinstance(x, ast.NamedExpr) for x in ast.walk(test)):
        return _Walrus().visit(clone(test))
    return test


def flatten_cond(test: ast.expr, pol: bool) -> list[tuple[str, bool]]:
    """split a test under a polarity into atoms (text, polarity); text is normalised so that
    a > b, b < a, not a <= b  all become ('a > b', True)."""
    test = _strip_walrus(test)
    if isinstance(test, ast.UnaryOp) and isinstance(test.op, ast.Not):
        return flatten_cond(test.operand, not pol)
    if isinstance(test, ast.Constant) and bool(test.value) == pol:
        return []  # `while True:` contributes no condition
    if isinstance(test, ast.BoolOp):
        if (isinstance(test.op, ast.And) and pol) or (isinstance(test.op, ast.Or) and not pol):
            out = []
            for v in test.values:
                out += flatten_cond(v, pol)
            return out
        # not splittable: a disjunction that holds (`a or b` true, or `a and b` false = `not a or not b`).  One canonical
        # form - a positive disjunction of canonical operands - so that De Morgan rewrites give the same atom
        return [(_disjunction(test.values, pol, None), True)] if _CANON_DISJ else [("(" + norm(test) + ")", pol)]
    if isinstance(test, ast.Compare) and len(test.ops) == 1:
        return [cmp_atom(test.left, test.ops[0], test.comparators[0], pol)]
    return [(norm(test), pol)]


_CANON_DISJ = True


def _operand_text(v, pol, expand) -> str:
    """canonical text of one operand that has to hold with polarity `pol`"""
    if isinstance(v, ast.UnaryOp) and isinstance(v.op, ast.Not):
        return _operand_text(v.operand, not pol, expand)
    if isinstance(v, ast.BoolOp):
        if (isinstance(v.op, ast.Or) and pol) or (isinstance(v.op, ast.And) and not pol):
            return _disjunction(v.values, pol, expand)
        # a conjunction that holds
        return "(" + " and ".join(_operand_text(x, pol, expand) for x in v.values) + ")"
    if isinstance(v, ast.Compare) and len(v.ops) == 1:
        t, p = cmp_atom(v.left, v.ops[0], v.comparators[0], pol, expand)
        return t if p else "not " + t
    t = expand(v) if expand else norm(v)
    return t if pol else "not " + t


def _disjunction(values, pol, expand) -> str:
    return "(" + " or ".join(_operand_text(x, pol, expand) for x in values) + ")"


def cmp_atom(left, op, right, pol=True, expand: Optional[Callable] = None) -> tuple[str, bool]:
    t = type(op)
    if not pol and t in _NEG:
        t = _NEG[t]
        pol = True
    # canonical direction: use > and >= (swap < and <=)
    if t in (ast.Lt, ast.LtE):
        left, right = right, left
        t = _SWAP[t]
    ls = expand(left) if expand else norm(left)
    rs = expand(right) if expand else norm(right)
    # emptiness tests: len(x) > 0, len(x) != 0, len(x) >= 1, 0 < len(x) ... are the truth of x (sized containers / bytes)
    for a, b, swapped in ((left, right, False), (right, left, True)):
        if isinstance(a, ast.Call) and isinstance(a.func, ast.Name) and a.func.id == "len" and len(a.args) == 1 and not a.keywords and isinstance(b, ast.Constant) and type(b.value) is int:
            inner = expand(a.args[0]) if expand else norm(a.args[0])
            k = b.value
            tt = t
            if swapped:  # canonical direction has only > and >=: `k > len(x)` / `k >= len(x)`
                if tt is ast.Gt and k == 1:
                    return (inner, not pol)  # 1 > len(x)
                if tt is ast.GtE and k == 0:
                    return (inner, not pol)  # 0 >= len(x)
            else:
                if (tt is ast.Gt and k == 0) or (tt is ast.GtE and k == 1):
                    return (inner, pol)
            if k == 0 and tt is ast.NotEq:
                return (inner, pol)
            if k == 0 and tt is ast.Eq:
                return (inner, not pol)
    if t in (ast.Eq, ast.NotEq) and ls > rs:
        ls, rs = rs, ls
    return (f"{ls} {_SYM[t]} {rs}", pol)


def atoms_of(test: ast.expr, pol: bool = True, expand=None) -> list[tuple[str, bool]]:
    if expand is None:
        return flatten_cond(test, pol)
    test = _strip_walrus(test)
    out = []

    def rec(t, p):
        if isinstance(t, ast.UnaryOp) and isinstance(t.op, ast.Not):
            return rec(t.operand, not p)
        if isinstance(t, ast.Constant) and bool(t.value) == p:
            return
        if isinstance(t, ast.BoolOp) and ((isinstance(t.op, ast.And) and p) or (isinstance(t.op, ast.Or) and not p)):
            for v in t.values:
                rec(v, p)
            return
        if isinstance(t, ast.Compare) and len(t.ops) == 1:
            out.append(cmp_atom(t.left, t.ops[0], t.comparators[0], p, expand))
            return
        if isinstance(t, ast.BoolOp) and _CANON_DISJ:
            out.append((_disjunction(t.values, p, expand), True))
            return
        txt = expand(t)
        if isinstance(t, ast.BoolOp):
            txt = "(" + txt + ")"
        out.append((txt, p))

    rec(test, pol)
    return out


_disj_cache: dict = {}


def unit_propagate(atoms: list) -> list:
    """add what a holding disjunction implies once all but one of its operands are refuted by the other atoms
    (`(A or B)` with `not A` known gives B): `if a and b: X elif a: Y` then yields the same atoms for Y as
    `if a: if b: X else: Y`.  Only adds implied atoms; never removes any."""
    if not any(t.startswith("(") and " or " in t for t, p in atoms if p):
        return atoms
    atoms = list(atoms)
    for _ in range(4):
        known = set(atoms)
        added = False
        for t, p in list(atoms):
            if not (p and t.startswith("(") and " or " in t):
                continue
            ops = _disj_cache.get(t)
            if ops is None:
                try:
                    e = ast.parse(t, mode="eval").body
                except SyntaxError:
                    e = None
                ops = []
                if isinstance(e, ast.BoolOp) and isinstance(e.op, ast.Or):
                    ops = [(flatten_cond(v, True), flatten_cond(v, False)) for v in e.values]
                _disj_cache[t] = ops
            if not ops:
                continue
            open_ = [pos for pos, neg in ops if not _refuted(pos, neg, known)]
            if len(open_) == 1:
                for a in open_[0]:
                    if a not in known:
                        atoms.append(a)
                        known.add(a)
                        added = True
        if not added:
            break
    return atoms


def _refuted(pos: list, neg: list, known: set) -> bool:
    """an operand (pos = its atoms when it holds, neg = the atoms of its negation) cannot hold given `known`:
    its negation is known, or - for a conjunction operand - one of its conjuncts is known to fail"""
    if all(a in known for a in neg):
        return True
    for a in pos:
        n = negate(a)
        if n is not None and n in known:
            return True
    return False


def contradictory(atoms: list) -> bool:
    """some atom together with its negation, or a holding disjunction all of whose operands are refuted"""
    known = set(atoms)
    for a in atoms:
        t, p = a
        if p and t.startswith("(") and " or " in t:
            unit_propagate([a])  # fills the cache
            ops = _disj_cache.get(t) or []
            if ops and all(_refuted(pos, neg, known) for pos, neg in ops):
                return True
        else:
            n = negate(a)
            if n is not None and n in known:
                return True
    return False


def negate(atom: tuple[str, bool]) -> Optional[tuple[str, bool]]:
    """the canonical atom that holds exactly when `atom` does not (None for disjunction atoms)"""
    t, p = atom
    if t.startswith("(") and (" or " in t or " and " in t):
        return None
    r = flatten_cond(ast.parse(t, mode="eval").body, not p)
    return r[0] if len(r) == 1 else None


def _has_cmp(text: str) -> bool:
    return any(f" {o} " in text for o in ("==", "!=", ">", ">=", "<", "<=", "is", "is not", "in", "not in"))


def need(fn: Fn, items: list, what: str):
    """anchor helper: at least one item or AnalysisError"""
    if not items:
        raise AnalysisError(f"{fn.ref}: {what} not found")
    return items


def natom(text: str, pol: bool = True) -> tuple[str, bool]:
    """normalised atom of a test written as source text (same canonical form as guard atoms)"""
    r = flatten_cond(ast.parse(text, mode="eval").body, pol)
    if len(r) != 1:
        raise ValueError(f"not an atom: {text}")
    return r[0]
