#!/bin/bash
# usage: verify_seed.sh <seed dir containing patch.diff demo.py> <result json>
# Confirms in a scratch worktree of /repo HEAD: suite passes with the patch, demo fails with it, demo passes without it.
set -u
SEED="$1"; OUT="$2"
WT=$(mktemp -d /tmp/sv.XXXXXX)
git -C /repo worktree add --detach "$WT" HEAD >/dev/null 2>&1 || { echo "{\"error\":\"worktree\"}" > "$OUT"; exit 1; }
cp /repo/src/aioquic/*.so "$WT/src/aioquic/" 2>/dev/null
cd "$WT"
touches_c=0; grep -q '^+++ b/.*\.c$' "$SEED/patch.diff" && touches_c=1
run_demo() { ( cd "$SEED" && sed "s#/tmp/wt5\?/C[0-9][0-9]#$WT#g" demo.py > "$WT/_demo.py" && cd "$WT" && PYTHONPATH="$WT/src" timeout 300 /venv/bin/python _demo.py >"$WT/_demo.out" 2>&1; echo $? ); }
base_rc=$(run_demo)
if ! git apply "$SEED/patch.diff" 2>"$WT/_apply.err"; then
  echo "{\"error\":\"patch does not apply\", \"detail\": \"$(head -c 200 $WT/_apply.err | tr '\n\"' '  ')\"}" > "$OUT"
  cd /; git -C /repo worktree remove --force "$WT"; exit 1
fi
[ $touches_c = 1 ] && /venv/bin/python setup.py build_ext --inplace >/dev/null 2>&1
suite=$(PYTHONPATH="$WT/src" timeout 900 /venv/bin/python -m pytest -q -p no:cacheprovider -n 4 tests 2>&1 | tail -1)
mut_rc=$(run_demo)
mut_out=$(tail -c 300 "$WT/_demo.out" | tr '\n"\\' '   ')
python3 - "$OUT" "$base_rc" "$mut_rc" "$suite" "$mut_out" "$touches_c" <<'PY'
import json,sys
out,base,mut,suite,mo,tc=sys.argv[1:]
json.dump({"demo_rc_without_patch":int(base),"demo_rc_with_patch":int(mut),"suite_with_patch":suite.strip(),"demo_tail_with_patch":mo,"touches_c":bool(int(tc)),
 "confirmed": int(base)==0 and int(mut)!=0 and "470 passed" in suite},open(out,"w"),indent=1)
PY
cd /; git -C /repo worktree remove --force "$WT" >/dev/null 2>&1; rm -rf "$WT"
