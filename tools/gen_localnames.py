#!/usr/bin/env python3
"""Writes reference/local_names.json: per function of /repo/src/aioquic the local names in binding order and a digest of
the function's shape with local names abstracted (see sa/alpha.py).  Re-run after every commit to /repo."""
import ast
import json
import os
import sys

ROOT = os.path.dirname(os.path.dirname(os.path.abspath(__file__)))
sys.path.insert(0, ROOT)
from sa import alpha  # noqa: E402

src = os.path.join(sys.argv[1] if len(sys.argv) > 1 else "/repo", "src", "aioquic")
mods = {}
srcs = {}
for dp, dn, fn in os.walk(src):
    dn[:] = [d for d in dn if d != "__pycache__"]
    for f in sorted(fn):
        if f.endswith(".py"):
            path = os.path.join(dp, f)
            rel = os.path.relpath(path, src)
            name = rel[:-3].replace(os.sep, ".")
            if name.endswith("__init__"):
                name = name[: -len("__init__")].rstrip(".")
            srcs[name] = open(path, encoding="utf8").read()
            mods[name] = ast.parse(srcs[name])
ref = alpha.build_reference(mods, srcs)
json.dump(ref, open(alpha.REF, "w"), indent=0, sort_keys=True)
print(f"{sum(len(v) for v in ref.values())} functions in {len(ref)} modules -> {alpha.REF}")
