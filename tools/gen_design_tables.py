#!/usr/bin/env python3
"""Regenerates the tables of DESIGN.md section 9 between the <!-- gen:NAME --> ... <!-- /gen:NAME -->
markers from the committed artefacts (evidence/, known_findings.json, seeded/*/meta.json,
selftest/mutants/*.json).  Run after `./check Cxx` for all properties."""
import glob
import json
import os
import re

ROOT = os.path.dirname(os.path.dirname(os.path.abspath(__file__)))


def esc(s: str) -> str:
    return s.replace("|", "\\|").replace("\n", " ")


def rules_table() -> str:
    out = ["| id | obligations on the current tree | rules (as implemented) |", "|---|---|---|"]
    for f in sorted(glob.glob(os.path.join(ROOT, "evidence", "C*.json"))):
        d = json.load(open(f))
        c = d["coverage"]
        per = c.get("per_rule", {})
        cnt = ", ".join(f"{k}: {v['obligations'] if isinstance(v, dict) else v}" for k, v in per.items())
        rule = c.get("rule", "")
        rule = re.sub(r"; (R\d)", r"<br>\1", rule)
        out.append(f"| {d['property_id']} | {c['obligations']} ({cnt}) | {esc(rule)} |")
    return "\n".join(out)


def findings_table() -> str:
    d = json.load(open(os.path.join(ROOT, "known_findings.json")))
    out = ["| property | rule | status | what failed (demonstration under findings/) |", "|---|---|---|---|"]
    for e in d["findings"]:
        what = e.get("line") or e.get("what") or ""
        what = re.sub(r"^fixed: property=\S+ \S+ ", "", what)
        st = "fixed " + e["commit"] if e["status"] == "fixed" else "**open (known finding)**"
        out.append(f"| {e['property']} | {e['rule']} | {st} | {esc(what)[:420]} |")
    return "\n".join(out)


def seeds_table() -> str:
    out = ["| seed | change (one line) | reported by | first report of the property's own check |", "|---|---|---|---|"]
    for m in sorted(glob.glob(os.path.join(ROOT, "seeded", "C*", "*", "meta.json"))):
        d = json.load(open(m))
        sid = "/".join(m.split(os.sep)[-3:-1])
        det = d.get("detected_by", [])
        own = d["property"]
        fr = d.get("first_report", {})
        first = fr.get(own) or (fr.get(det[0]) if det else "")
        out.append(f"| {sid} | {esc(d['summary'])[:260]} | {', '.join(det) or '**none**'} | {esc(first or '')[:240]} |")
    return "\n".join(out)


def mutants_table() -> str:
    out = ["| property | hand-written variants (breaking / benign twins) | independent seeds | rules exercised |", "|---|---|---|---|"]
    for pid in [f"C{i:02d}" for i in range(1, 21)]:
        f = os.path.join(ROOT, "selftest", "mutants", pid + ".json")
        ms = []
        if os.path.exists(f):
            d = json.load(open(f))
            ms = d if isinstance(d, list) else d.get("mutants", [])
        benign = [m for m in ms if m.get("expect") in ("silent", "clean", "benign") or m.get("benign")]
        rules = sorted({m.get("rule", "?") for m in ms if m not in benign})
        seeds = len(glob.glob(os.path.join(ROOT, "seeded", pid, "*", "meta.json")))
        if not ms and not seeds:
            continue
        out.append(f"| {pid} | {len(ms) - len(benign)} / {len(benign)} | {seeds} | {', '.join(rules)} |")
    return "\n".join(out)


GEN = {"rules": rules_table, "findings": findings_table, "seeds": seeds_table, "mutants": mutants_table}


def main():
    p = os.path.join(ROOT, "DESIGN.md")
    s = open(p).read()
    for name, fn in GEN.items():
        a, b = f"<!-- gen:{name} -->", f"<!-- /gen:{name} -->"
        if a in s and b in s:
            i, j = s.index(a) + len(a), s.index(b)
            s = s[:i] + "\n" + fn() + "\n" + s[j:]
    open(p, "w").write(s)


if __name__ == "__main__":
    main()
