#!/usr/bin/env python3
"""Copy verified seeds from /tmp/seedout/<pid>/<x>/ into /verif/seeded/<pid>/<x>/ (patch.diff, demo.py, meta.json)."""
import json, os, shutil, sys, glob
src = sys.argv[1] if len(sys.argv) > 1 else "/tmp/seedout"
dst = os.path.join(os.path.dirname(os.path.dirname(os.path.abspath(__file__))), "seeded")
for d in sorted(glob.glob(os.path.join(src, "C*", "*"))):
    v = os.path.join(d, "verify.json")
    if not (os.path.exists(v) and os.path.exists(os.path.join(d, "patch.diff"))):
        continue
    ver = json.load(open(v))
    if not ver.get("confirmed"):
        print("NOT CONFIRMED", d, ver)
        continue
    pid, x = d.split("/")[-2:]
    out = os.path.join(dst, pid, x)
    os.makedirs(out, exist_ok=True)
    shutil.copy(os.path.join(d, "patch.diff"), out)
    demo = open(os.path.join(d, "demo.py")).read().replace(f"/tmp/wt5/{pid}", "/repo").replace(f"/tmp/wt/{pid}", "/repo")
    open(os.path.join(out, "demo.py"), "w").write(demo)
    meta = {}
    try:
        meta = json.load(open(os.path.join(d, "meta.json")))
    except Exception:
        pass
    old = {}
    if os.path.exists(os.path.join(out, "meta.json")):
        old = json.load(open(os.path.join(out, "meta.json")))
    meta["property"] = pid
    meta["origin"] = "written by an independent sub-agent that saw only the property text and a scratch worktree of /repo (nothing from /verif)"
    meta["confirmed_by"] = {
        "what_i_ran": "tools/verify_seed.sh in a fresh scratch worktree of /repo HEAD: demo on the clean tree, git apply patch.diff (+ build_ext for C changes), full test suite, demo again",
        "suite_with_patch": ver.get("suite_with_patch"),
        "demo_exit_without_patch": ver.get("demo_rc_without_patch"),
        "demo_exit_with_patch": ver.get("demo_rc_with_patch"),
        "demo_tail_with_patch": ver.get("demo_tail_with_patch", "")[-200:],
        "touches_c": ver.get("touches_c"),
    }
    meta["detected_by"] = old.get("detected_by", [])
    json.dump(meta, open(os.path.join(out, "meta.json"), "w"), indent=1)
    print("imported", pid, x)
