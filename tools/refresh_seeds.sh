#!/bin/bash
# Re-bases every seeded patch onto /repo HEAD (3-way apply in a scratch worktree) so that the seeds keep
# applying after fix: commits.  A patch that no longer merges is reported (and left untouched).
WT=$(mktemp -d /tmp/rs.XXXXXX)
git -C /repo worktree add --detach "$WT" HEAD >/dev/null 2>&1 || exit 1
for d in /verif/seeded/C*/* /verif/twins/C*/*; do
  [ -f "$d/patch.diff" ] || continue
  git -C "$WT" reset -q --hard HEAD; git -C "$WT" clean -fdq
  if git -C "$WT" apply --check "$d/patch.diff" 2>/dev/null; then continue; fi
  if git -C "$WT" apply --3way "$d/patch.diff" >/dev/null 2>&1 && ! git -C "$WT" diff --name-only --diff-filter=U | grep -q .; then
    git -C "$WT" diff HEAD > "$d/patch.diff.new" && mv "$d/patch.diff.new" "$d/patch.diff" && echo "rebased $d"
  else
    echo "CONFLICT $d"
  fi
done
git -C /repo worktree remove --force "$WT"
