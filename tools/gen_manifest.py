#!/usr/bin/env python3
"""Regenerates MANIFEST.json from the table below (run: python3-vt tools/gen_manifest.py)."""
import json
import os

HERE = os.path.dirname(os.path.dirname(os.path.abspath(__file__)))
BASELINE = "cd /repo && /venv/bin/python -m pytest -ra -q -p no:cacheprovider --timeout=900 --continue-on-collection-errors"

# property -> (level category, technique, level text, level note, design ref)
CLAIMED = {
    "C04": (
        "proof",
        "abstract interpretation (intervals + linear inequalities, Fourier-Motzkin entailment) over the clang AST of both C modules; path-enumerating, every memory access an obligation",
        "Every array subscript, dereference, memcpy/memset/memcmp, OpenSSL/CPython extent, non-constant pointer addition, Buffer object invariant and error return in _crypto.c/_buffer.c is an obligation discharged on every path for all argument values; obligations == discharged is required. The claim is for-all lengths/offsets, which is what the property quantifies over.",
        "Trusted: clang front end, documented CPython/OpenSSL API extents (table in sa/cbounds.py, rules/c04.py), LP64 no-wrap assumption, y# lengths <= 2^31-1 for _crypto. Contents of memory are not tracked (only extents).",
        "DESIGN.md#c04",
    ),
    "C11": (
        "other",
        "exhaustive abstract evaluation of the TLS dispatcher over State x HandshakeType against an RFC 8446 reference automaton; transition-graph extraction; typestate reachability; CFG dominance of authenticating comparisons over key releases",
        "All 13x13 (state, message type) pairs of the dispatcher are evaluated and compared with the reference automaton (exhaustive, finite); the transition graph, the writers of the skip-certificate flag and the dominance of Finished/binder/signature checks over key releases and transitions are decided on the CFG for all paths. This covers the SMACK-style skip attacks structurally rather than by enumeration of adversarial flights.",
        "Reference automaton transcribed by hand from RFC 8446; guards are matched after normalisation and inlining of single-definition locals; exception edges are over-approximated (sound for dominance).",
        "DESIGN.md#c11",
    ),
    "C03": (
        "other",
        "CFG dominance / post-dominance and def-use queries over tls.py and connection.py: verification dominates progress, transcript coverage with affine slice tiling, transport-parameter authentication guards, negotiate() totality",
        "Decides necessary structural conditions of authentication for every path: signature/certificate/Finished/binder checks dominate what they authorise and their failures raise; every dispatched message is hashed whole; every pushed message is inside push_message; CID/version comparisons guard raises. Equality of the two endpoints' secrets is declined.",
        "Third-party verification primitives are trusted to raise as documented; name-based receiver resolution inside tls.Context.",
        "DESIGN.md#c03",
    ),
    "C05": (
        "other",
        "interprocedural exception-escape analysis (least fixpoint over a resolved call graph with function-value flow, try/except class-hierarchy filtering, precondition discharge at call sites by CFG guards and linear arithmetic), handler-table consistency, symbolic frame-capacity accounting",
        "For the five API boundaries the set of exception classes that may propagate out is computed over every reachable function (about 300 functions, 2100 call sites, 94% resolved) from an explicit raise model (raise, assert, C helper raise summary, third-party table, partial operations on parsed data); every source is caught, converted, discharged by a dominating guard, or reported with its call chain. May-analysis: sound for the modelled sources on all paths, not for TypeErrors in general. Plus: conversion points exist, frame table consistent with the epoch tables, bytes pushed by every frame writer bounded by its declared capacity.",
        "Unresolved calls are treated as not raising (rate floored at 90%, listed in evidence); 35 named suppressions with reasons in rules/suppressions.json (several with their justifying facts checked); write-side buffer overflow is an assumption except for frame writers.",
        "DESIGN.md#c05",
    ),
    "C16": (
        "other",
        "same exception-escape engine at the HTTP/3 and HTTP/0.9 event boundaries; structural checks of the ProtocolError conversion, of the facts behind each suppression, and of close-frame emission",
        "Every exception source reachable from H3Connection.handle_event / H0Connection.handle_event is caught, converted or discharged on all paths; ProtocolError is converted into close(error_code, reason); the closing packet is emitted for any reason phrase (truncation + QuicPacketBuilderStop caught).",
        "pylsqpack raise behaviour from a table; one assumption about resume_header; TypeErrors not modelled.",
        "DESIGN.md#c16",
    ),
    "C15": (
        "other",
        "comparison-partition evaluation of the header validators' decision trees (every byte value x position class, all representative combinations up to length 3, regex atoms included) against an RFC 9113/9114 reference; CFG reachability (no path to an event construction avoids its validator); def-use and guard extraction for pseudo-header and content-length bookkeeping",
        "R1 is exhaustive and exact for the character-class clause: the validators touch bytes only through comparisons with constants (anything else stops the analysis), so evaluating the extracted decision tree on the induced partition decides all inputs (about 2,600 decisions + 2 x 19k representative combinations). R2-R5 decide on all paths that the pseudo-header order/allow/repeat/required checks guard raises, that no HeadersReceived/PushPromiseReceived/DataReceived construction is reachable without the matching validator / body-byte count / content-length comparison, and that rejections are MessageError (0x10E) converted into close().",
        "Level 'other' because R2-R4 are necessary structural conditions, not an equivalence proof with an independent validator on whole messages; the reference table is transcribed by hand from the RFCs.",
        "DESIGN.md#c15",
    ),
    "C20": (
        "other",
        "two-level (logging / protocol) non-interference analysis: control-dependence of every logger use on a not-None test (CFG dominance), effect and purity analysis of the logging regions and of the logger classes over the resolved call graph, syntactic information-flow check for logging values outside regions, exception-escape analysis of regions and logger methods, type inference of logged values, structural per-packet record checks",
        "Transparency is a relation between two runs; it is decided here through its standard static sufficient conditions on all paths: (R1) loggers are only used where proven non-None, (R2) the 76 logging regions and 36 logger methods write only logging state, call only pure callees and never alter control flow, (R3) logging values never reach protocol assignments, arguments or returns, (R4) no modelled exception escapes logging code, (R5) logged values are JSON types, (R6) packet records are emitted per packet on every path.",
        "Logging locations are identified by attribute / parameter name (_quic_logger, quic_logger, quic_logger_frames, secrets_log_file) and by the classes of quic/logger.py; purity of unresolved third-party calls comes from a small allow-list; R5 flags only values whose type is inferred (18 of 306 remain untyped and are counted, not failed).",
        "DESIGN.md#c20",
    ),
    "C12": (
        "other",
        "who-may-write analysis of the ACK queue and ACK deadline over the whole package, CFG dominance (recording dominated by successful decryption; deadline cleared only after start_frame), CFG reachability (no path of the frame loop bypasses the ack-eliciting classification), def-use of the delivery-handler arguments, linear-arithmetic satisfiability of early-exit conditions against 'ACK overdue', constant folding of the delay constants",
        "Soundness (only authenticated packets of the same space are ever recorded; pruning only on acknowledgement of an ACK frame, by a bound fixed when it was written; ACK frames encode that queue) is decided on all paths. For timeliness the plumbing is decided: classification on every frame path, arming, deadline visible to get_timer for every space, cleared only after emission, emission conditions, pacing bypass, local delay 1 ms <= advertised 25 ms.",
        "The measured delay under a schedule is not decided (timing). The equality case ack_at == now of the pacing test was triaged as harmless (findings/c12_pacing_demo.py) and is not demanded.",
        "DESIGN.md#c12",
    ),
    "C02": (
        "other",
        "structural checks of every AEAD call site (Python AST) and of AEAD_encrypt/AEAD_decrypt (clang AST: argument order, nonce loop evaluated for all iterations, tag position, verification result checked); effect analysis of receive_datagram against CFG dominance by decrypt_packet with an allow-list of five reasoned categories; gating of Retry / Version Negotiation effects; constant folding of salts, keys, nonces and HKDF labels against an RFC 9001/9369 reference table; sibling comparison of the v1 / v2 label sets; def-use of the key-update chain",
        "Decides, on all paths, that every byte of a packet is covered by the AEAD (header as associated data, payload as its complement, full 64-bit packet number in the nonce, tag checked), that receive_datagram has no state effect before successful decryption other than the five allow-listed kinds, that Retry is acted upon only after the integrity-tag comparison, and that all constants and labels equal the RFCs for both versions and all three cipher suites. These are necessary conditions of 'only authentic packets are accepted'.",
        "Bit-exact interoperability and packet-number expansion are declined (numeric); OpenSSL's AEAD is the trusted base; the allow-list of pre-authentication effects is part of the rule (each entry has its reason in rules/c02.py:ALLOW).",
        "DESIGN.md#c02",
    ),
    "C13": (
        "other",
        "ownership-chain analysis (who-may-write over the builder and connection classes) for the size clause; guard extraction and field-dependency closure for the padding flag and pad target; CFG dominance of the budget installation over every emitting call; linear normal form of the budget expression; writer enumeration for is_validated",
        "R1 (no datagram exceeds the configured size) is proved from the ownership chain datagrams_to_send -> flush() -> _buffer.data -> Buffer(max_datagram_size) together with C04's object invariant. R2/R3 decide the plumbing of the padding flag, of the pad target and of the 3x budget on every emitting path (including the closing branch).",
        "Level reported as 'other' while the two R2.floor findings (pad target lowered below 1200 by the congestion / amplification budget) are open; the numeric 3x inequality over a schedule is decided only through the plumbing.",
        "DESIGN.md#c13",
    ),
    "C08": (
        "other",
        "who-may-write analysis of the sent-packet ledger, bytes_in_flight and per-packet accounting fields over the whole package; pairing analysis of every removal from the ledger with exactly one congestion callback (three idioms) using lexical guards, CFG dominance and post-dominance; sibling comparison of all controllers registered through register_congestion_control; abstract classification of every congestion_window assignment (floor / non-decreasing / initial / reduction); CFG reachability for the probe allowance; constant folding of K_MINIMUM_WINDOW and the frame-type exemption sets",
        "Decides on all paths the accounting discipline that 'bytes in flight equal the tracked in-flight packets, never negative, frames reported once, window never below two datagrams' rests on: who may change the ledger, that each removal is reported to the controller exactly once for in-flight packets (and to each delivery handler once), that Reno and CUBIC update bytes_in_flight identically on every path of the four callbacks, that every loss response is floored, and that the congestion budget and the single probe datagram are plumbed into the packet builder.",
        "Numeric window evolution is declined; CUBIC's interpolation formulas and `= self._W_est` are listed in the evidence as not proved rather than claimed.",
        "DESIGN.md#c08",
    ),
    "C09": (
        "other",
        "writer enumeration and guard extraction for the close deadline and the close event, abstract reading of get_timer (result only lowered to non-None values), CFG post-dominance (deadline cleared only with TERMINATED; closing branch clears its flag on every path), call-graph climb from every event-queuing function to the public methods that can reach it, constant folding of the closing-period coefficient and END_STATES",
        "Decides on all paths that a connection which is not TERMINATED has a non-None deadline from connect() / its first datagram onwards (writers and their guards), that the per-packet re-arming cannot overwrite a closing/draining deadline, that the termination event has a single producer with two guarded callers, that receive_datagram / datagrams_to_send are inert in the end states and no event can be queued from any other public entry point, and that the closing period is 3 x PTO.",
        "Timing under schedules is declined; API misuse after termination (calling handle_timer with a None deadline) is an assumption.",
        "DESIGN.md#c09",
    ),
    "C06": (
        "other",
        "caller enumeration for get_frame and the stream-frame writers, structural normal form of the max_offset expression (sum/difference multiset), CFG dominance (clamp before frame construction; blocked test before every stream-naming writer), def-use of the credit charged, guard extraction for every writer of the peer's limits, complement check between the blocking and the releasing test",
        "Decides on all paths that application stream data can leave only through one writer whose offset bound is min(connection credit left, per-stream limit) and is honoured by get_frame, that connection credit is charged by the highest-offset delta only and by nobody else, that the peer's limits only rise, that no frame naming a stream is written for a stream blocked by MAX_STREAMS, and that blocked streams are released by exactly the complementary test when the limit rises or the handshake completes.",
        "The arithmetic of credit under loss/retransmission schedules is declined; limits installed by _parse_transport_parameters (initial values, 0-RTT remembered values) are exempt from the 'only rises' rule.",
        "DESIGN.md#c06",
    ),
    "C07": (
        "other",
        "CFG dominance of the three receive-side limit tests over the receiver calls, strict-comparator and operand normal forms via guard atoms, effect pairing (charged amount = checked amount), whole-call-graph enumeration of growth operations on retained state reachable from receive_datagram (256 functions) with a directional size-test rule and a table of 20 reasoned exemptions whose supporting facts are themselves checked",
        "Decides on all paths that stream-count, per-stream and connection limits (strict `>` against the advertised value) and the final-size tests precede acceptance in both handlers and in the receiver, that the charged amount is the checked amount, and that every one of the ~50 growth sites of peer-reachable retained state is bounded by a size test or by a documented construction (each exemption names the fact that bounds it).",
        "Exact boundary behaviour after arbitrary histories of limit raises is declined; the exemption table is part of the rule (rules/c07.py:EXEMPT).",
        "DESIGN.md#c07",
    ),
    "C01": (
        "other",
        "inverse-operation pairing between every frame writer's consumption and its delivery handler's re-arming (a table of nine pairs confirmed by reading, each side located and checked on the AST), exhaustiveness of handler registration over all start_frame call sites with frame types resolved through callers, CFG dominance / reachability for consume-after-emit ordering and for parse-before-lookup in frame handlers, guard extraction for duplicate suppression and the receiver's direct-delivery shortcut",
        "Decides the structural necessary conditions of reliable exactly-once delivery on all paths: no reliable frame is written without a handler; what a writer consumes is exactly what the handler restores on loss (from the handler's own arguments) and what the scheduler tests again; pending state is consumed only when emission is certain; a duplicated packet is dropped before any frame of it is handled; the loss timer reaches detection or the probe path; frame handlers cannot desynchronise the frame parser; the in-order shortcut requires an empty reassembly buffer.",
        "Prefix / no-gap / no-repeat delivery of bytes and liveness are declined (relations over runtime byte strings and schedules). The pairing table is part of the rule; a new handler or a changed consumption makes the check fail until the table is re-confirmed.",
        "DESIGN.md#c01",
    ),
    "C18": (
        "other",
        "CFG dominance (retire before consume; filter before choice; violation tests before removal), writer / mutator enumeration for the peer-ID list, the seen-sequence set, retire-prior-to and the issued-ID list, guard extraction with canonical atoms for every limit and eligibility test, post-dominance of replenishment, and the consume / re-arm pairing machinery of C01 restricted to the RETIRE_CONNECTION_ID and NEW_CONNECTION_ID frames",
        "Decides on all paths that an abandoned peer ID is always queued for retirement (and the frame re-queued on loss, consumed only after it was written), that stored and issued IDs are bounded by the advertised / the peer's limits, that only IDs at or above a monotone retire-prior-to and never seen before are accepted and used, that a replacement is taken only when one exists, and that issued IDs stay accepted until the peer retires them through a handler that rejects unknown and in-use IDs.",
        "The wire-level history property (never addressing a retired ID) is declined as such; the structural conditions above are its necessary conditions.",
        "DESIGN.md#c18",
    ),
    "C19": (
        "other",
        "writer enumeration and shape checks for the server's routing table, CFG reachability (no path from the retry branch to QuicConnection(...) avoids validate_token's normal return; handlers installed before the first delivery), slot / completion ordering of every future the adapter creates (created where, stored where, cleared before completion, completed by which event branches, awaited through shield), post-dominance of the receive -> events -> transmit cycle and of timer re-arming",
        "Every adapter callback is synchronous, so each is atomic on the single-threaded loop; the rules decide what then holds at callback boundaries for every callback order: who may change the routing table and that termination removes every entry of the protocol, that address validation gates state creation, that each waiter has a slot which both its success event and termination complete exactly once (and cannot be created after termination), and that every input is followed by event processing and a transmit that re-arms the timer.",
        "Byte-exact stream transfer under real interleavings inherits C01's declined clauses; the event loop and asyncio streams are the trusted base.",
        "DESIGN.md#c19",
    ),
    "C17": (
        "other",
        "constant folding of every codec table and enum against an RFC reference (bijection / inverse checks), wire-grammar extraction from encoder and decoder ASTs with structural equality (28 codec pairs: TLS messages and sub-structures, ACK ranges, version information, QUIC frame writers vs handlers), guard extraction for exact-end / maximum-length tests, def-use of every pulled length field, and byte-order / threshold / prefix extraction from the clang AST of the C integer codecs",
        "Decides the structural necessary conditions of round-tripping and RFC agreement for all inputs: tables equal the RFCs and invert each other; each encoder/decoder pair follows the same sequence of primitive fields and length prefixes; a block, an extension and a connection ID are accepted only within their declared / maximal length; every parsed length bounds what is read; the C integer codecs write and read the same bytes in the same order with the RFC 9000 varint thresholds, prefixes and lengths (shared with Python's size_uint_var).",
        "Value-level round-trip equality and byte equality with a second encoder are declined (need execution). Four table-driven or multi-layout pairs are listed as not modelled (rules/c17.py:NOT_MODELLED); out-of-domain integers (silent truncation by CPython's B/H/I/K units) are noted as outside the quantifier.",
        "DESIGN.md#c17",
    ),
    "C14": (
        "other",
        "table agreement between the sending API and the receive paths (frame types, stream types, settings), set comparison between the frame kinds that can block on QPACK and the kinds the unblock path resumes, CFG reachability over the per-stream parse loops (no exit reachable from the loop avoids the buffer trim), def-use of the consumed offset and of the remaining frame size",
        "Independence from chunking and interleaving is a relation between runs; the rules decide its structural necessary conditions on all paths: whatever the API can send the receiver can accept on that stream kind; a frame that blocks on QPACK is resumed as the same kind and its stream is never discarded while blocked; the parse loops only ever restart at an item boundary (consumed offset from buf.tell(), break on an incomplete item, buffer trimmed on every exit); partial DATA delivery is accounted exactly.",
        "The run-to-run equality itself and the unchanged round trip of header lists / bodies are declined (they need execution, e.g. exhaustive splitting).",
        "DESIGN.md#c14",
    ),
}

NOT_APPLICABLE = {
    "C10": "Equality of stream-half outputs with an offset->byte map over all operation histories is a relation between runtime byte strings; no structural clause exists that is a necessary condition without restating stream.py statement by statement (DESIGN.md section 4).",
}

PENDING = "designed in DESIGN.md, rule set not built yet in this session (no placeholder check is registered)"


def main():
    props = [json.loads(l)["id"] for l in open(os.path.join(HERE, "properties.jsonl"))]
    checks = []
    for pid in props:
        if pid in CLAIMED and os.path.exists(os.path.join(HERE, "rules", pid.lower() + ".py")):
            cat, tech, text, note, ref = CLAIMED[pid]
            checks.append(
                {
                    "property_id": pid,
                    "quick_cmd": f"./check {pid} --tier quick",
                    "thorough_cmd": f"./check {pid} --tier thorough",
                    "evidence_file": f"/verif/evidence/{pid}.json",
                    "replay_cmd_template": f"./check {pid} --replay {{path}}",
                    "engine": "sa",
                    "level_claimed": {"category": cat, "text": text, "design_ref": ref},
                    "level_note": note,
                    "technique": "static analysis: " + tech,
                }
            )
    na = []
    for pid in props:
        if pid in [c["property_id"] for c in checks]:
            continue
        na.append({"property_id": pid, "reason": NOT_APPLICABLE.get(pid, PENDING)})
    manifest = {
        "version": 1,
        "setup_cmd": "cd /verif && ./check --self-check",
        "hooks": {
            "guard": "AIOQUIC_VERIF",
            "enable": "no hooks: the checks read /repo/src statically and never import or run it; the guard name is reserved and unused",
            "baseline_off_cmd": BASELINE,
            "source_commits": [],
            "add_only": True,
        },
        "engines": [
            {
                "name": "sa",
                "path": "/verif/sa",
                "serves_properties": [c["property_id"] for c in checks],
                "kind_free_text": "repository-specific static analysers: Python AST/CFG/dominators/call graph/exception-escape/effects (stdlib ast only) and a clang-JSON-AST abstract interpreter for the C helpers",
            }
        ],
        "checks": checks,
        "notes": "All checks decide their property from the source text of /repo's working tree on every run (nothing is executed). Known genuine findings: /verif/known_findings.json. Seeded breakages used to test the checks: /verif/seeded/.",
        "not_applicable": na,
    }
    with open(os.path.join(HERE, "MANIFEST.json"), "w") as fp:
        json.dump(manifest, fp, indent=1)
    try:
        import jsonschema

        schema = json.load(open("/root/.vp/MANIFEST.schema.json"))
        jsonschema.validate(manifest, schema)
        print("MANIFEST.json valid;", len(checks), "checks,", len(na), "not applicable")
    except ImportError:
        print("MANIFEST.json written (jsonschema not available for validation)")


if __name__ == "__main__":
    main()
