#!/usr/bin/env python3
"""Run every registered check against every seeded breakage (on scratch copies of
/repo/src, removed afterwards) and print which checks report which seed.

usage: tools/seedmatrix.py [seed-root ...]   (default: /verif/seeded)
"""
import concurrent.futures as cf
import json
import os
import shutil
import subprocess
import sys
import tempfile

HERE = os.path.dirname(os.path.dirname(os.path.abspath(__file__)))


def claimed():
    m = json.load(open(os.path.join(HERE, "MANIFEST.json")))
    return [c["property_id"] for c in m["checks"]]


def run_seed(seed_dir, checks):
    tmp = tempfile.mkdtemp(prefix="sm.")
    try:
        shutil.copytree("/repo/src", os.path.join(tmp, "src"), ignore=shutil.ignore_patterns("*.so", "__pycache__"))
        p = subprocess.run(["git", "apply", os.path.join(seed_dir, "patch.diff")], cwd=tmp, capture_output=True, text=True)
        if p.returncode != 0:
            return seed_dir, {"error": p.stderr.strip()[:200]}
        res = {}
        for pid in checks:
            env = dict(os.environ, VERIF_NO_EVIDENCE="1")
            r = subprocess.run([os.path.join(HERE, "check"), pid, "--repo", tmp, "--no-evidence"], capture_output=True, text=True, env=env)
            lines = [l.strip() for l in r.stdout.splitlines() if l.startswith("  ")]
            res[pid] = (r.returncode, lines[:3])
        return seed_dir, res
    finally:
        shutil.rmtree(tmp, ignore_errors=True)


def main():
    record = "--record" in sys.argv
    args = [a for a in sys.argv[1:] if a != "--record"]
    roots = args or [os.path.join(HERE, "seeded")]
    seeds = []
    for root in roots:
        for dp, dn, fn in os.walk(root):
            if "patch.diff" in fn:
                seeds.append(dp)
    seeds.sort()
    checks = claimed()
    with cf.ThreadPoolExecutor(max_workers=12) as ex:
        results = list(ex.map(lambda s: run_seed(s, checks), seeds))
    caught = 0
    for seed, res in results:
        name = os.path.relpath(seed, os.path.dirname(os.path.dirname(seed))) if len(roots) == 1 else seed
        if "error" in res:
            print(f"{name}: PATCH ERROR {res['error']}")
            continue
        hits = [pid for pid, (rc, _) in res.items() if rc == 1]
        errs = [pid for pid, (rc, _) in res.items() if rc == 2]
        if record and os.path.exists(os.path.join(seed, "meta.json")):
            meta = json.load(open(os.path.join(seed, "meta.json")))
            meta["detected_by"] = hits
            meta["first_report"] = {pid: (res[pid][1][0][:300] if res[pid][1] else "") for pid in hits}
            json.dump(meta, open(os.path.join(seed, "meta.json"), "w"), indent=1)
        own = os.path.basename(os.path.dirname(seed)) if len(os.path.basename(seed)) == 1 else os.path.basename(seed).split("-")[0]
        tag = "CAUGHT" if hits else "missed"
        if hits:
            caught += 1
        print(f"{name}: {tag} by {hits}" + (f" own={'yes' if own in hits else 'NO'}" if hits else "") + (f" ANALYSIS-ERROR in {errs}" if errs else ""))
        for pid in hits[:2]:
            for l in res[pid][1][:1]:
                print(f"      {pid}: {l[:170]}")
    print(f"{caught}/{len(results)} seeds reported")


if __name__ == "__main__":
    main()
