#!/usr/bin/env python3
"""Systematic single-edit mutation sweep: which small edits of the code behind a property does its
rule set *not* report?

    tools/mutsweep.py C06 [--funcs REF,REF,...] [--ops CMP,DEL,BOOL,CONST] [--jobs 16] [--out FILE]

Targets: the functions in which the property's rule set places at least one obligation on the clean
tree (or --funcs).  Operators, each applied at one AST node, located by position and edited textually:

    CMP    <  <->  <=,  >  <->  >=,  ==  <->  !=,  is <-> is not, in <-> not in
    DEL    a simple statement (call, assignment, augmented assignment, raise, continue/break, return
           of nothing) is replaced by `pass`
    BOOL   one operand of an and/or is replaced by its neutral element
    CONST  an integer literal n becomes n+1 (and n-1 when n > 0)

The sweep is a tool for *me* (gap finding); it is not a registered check and its survivors are not
verdicts: a surviving mutant is either irrelevant to the property, equivalent, caught by the unit
tests, or a gap in the rules - triaged by reading.  Output: JSON list of survivors with location,
operator and the edited text.
"""
from __future__ import annotations

import argparse
import ast
import concurrent.futures as cf
import importlib
import json
import os
import shutil
import subprocess
import sys
import tempfile

VERIF = os.path.dirname(os.path.dirname(os.path.abspath(__file__)))
sys.path.insert(0, VERIF)

CMP_SWAP = {ast.Lt: "<=", ast.LtE: "<", ast.Gt: ">=", ast.GtE: ">", ast.Eq: "!=", ast.NotEq: "==", ast.Is: "is not", ast.IsNot: "is", ast.In: "not in", ast.NotIn: "in"}
CMP_TEXT = {ast.Lt: "<", ast.LtE: "<=", ast.Gt: ">", ast.GtE: ">=", ast.Eq: "==", ast.NotEq: "!=", ast.Is: "is", ast.IsNot: "is not", ast.In: "in", ast.NotIn: "not in"}


def target_functions(pid: str, repo_root: str) -> list[str]:
    from sa.pyfacts import Repo
    from sa.report import Check

    repo = Repo(repo_root)
    mod = importlib.import_module(f"rules.{pid.lower()}")
    chk = Check(pid, "other", "quick", repo_root)
    import io
    import contextlib

    with contextlib.redirect_stdout(io.StringIO()):
        mod.run(repo, chk)
    spans = {}
    for m in repo.modules.values():
        for q, fn in m.functions.items():
            spans.setdefault(m.path, []).append((fn.lineno, fn.end_lineno, f"{m.name}:{q}"))
    out = set()
    for o in chk.obligations:
        loc = getattr(o, "loc", "") or ""
        if ":" not in loc:
            continue
        path, _, line = loc.rpartition(":")
        try:
            line = int(line)
        except ValueError:
            continue
        best = None
        for p, lst in spans.items():
            if p.endswith(path) or path.endswith(p):
                for a, b, ref in lst:
                    if a <= line <= b and (best is None or (b - a) < best[0]):
                        best = (b - a, ref)
        if best:
            out.add(best[1])
    return sorted(out)


def offsets(src: str):
    lines = src.splitlines(keepends=True)
    starts = [0]
    for l in lines:
        starts.append(starts[-1] + len(l.encode("utf8")))
    return starts


def span(starts, n):
    return starts[n.lineno - 1] + n.col_offset, starts[n.end_lineno - 1] + n.end_col_offset


def mutants_of(src: str, fn: ast.AST, ops: set[str]):
    """yield (op, line, description, new_source)"""
    b = src.encode("utf8")
    starts = offsets(src)

    def edit(a, z, new: str):
        return (b[:a] + new.encode("utf8") + b[z:]).decode("utf8")

    for n in ast.walk(fn):
        if isinstance(n, (ast.FunctionDef, ast.AsyncFunctionDef)) and n is not fn:
            continue
        if "CMP" in ops and isinstance(n, ast.Compare) and len(n.ops) == 1 and type(n.ops[0]) in CMP_SWAP:
            la, lz = span(starts, n.left)
            ra, rz = span(starts, n.comparators[0])
            mid = b[lz:ra].decode("utf8")
            old = CMP_TEXT[type(n.ops[0])]
            if mid.count(old) >= 1 and mid.strip(" ()\n") in (old, old.replace(" ", "  ")) or mid.strip() == old:
                new_mid = mid.replace(old, CMP_SWAP[type(n.ops[0])], 1)
                yield "CMP", n.lineno, f"`{ast.unparse(n)[:70]}`: {old} -> {CMP_SWAP[type(n.ops[0])]}", edit(lz, ra, new_mid)
        if "BOOL" in ops and isinstance(n, ast.BoolOp):
            neutral = "True" if isinstance(n.op, ast.And) else "False"
            for i, v in enumerate(n.values):
                a, z = span(starts, v)
                yield "BOOL", v.lineno, f"operand {i} `{ast.unparse(v)[:50]}` of `{ast.unparse(n)[:60]}` -> {neutral}", edit(a, z, neutral)
        if "CONST" in ops and isinstance(n, ast.Constant) and isinstance(n.value, int) and not isinstance(n.value, bool):
            a, z = span(starts, n)
            txt = b[a:z].decode("utf8")
            if txt.replace("_", "").isdigit() or txt.lower().startswith("0x"):
                yield "CONST", n.lineno, f"{txt} -> {n.value + 1}", edit(a, z, str(n.value + 1))
                if n.value > 0:
                    yield "CONST", n.lineno, f"{txt} -> {n.value - 1}", edit(a, z, str(n.value - 1))
        if "DEL" in ops and isinstance(n, (ast.Expr, ast.Assign, ast.AugAssign, ast.AnnAssign, ast.Raise, ast.Continue, ast.Break, ast.Return, ast.Assert)):
            if isinstance(n, ast.Expr) and isinstance(n.value, ast.Constant):
                continue  # docstring
            if isinstance(n, ast.AnnAssign) and n.value is None:
                continue
            a, z = span(starts, n)
            yield "DEL", n.lineno, f"`{ast.unparse(n)[:80]}` -> pass", edit(a, z, "pass")


def find_fn(tree: ast.AST, qual: str):
    parts = qual.replace(".<locals>", "").split(".")

    def rec(body, parts):
        for st in body:
            if isinstance(st, (ast.FunctionDef, ast.AsyncFunctionDef, ast.ClassDef)) and st.name == parts[0]:
                return st if len(parts) == 1 else rec(st.body, parts[1:])
        return None

    return rec(tree.body, parts)


def run_one(pid: str, repo_root: str, relpath: str, new_src: str):
    tmp = tempfile.mkdtemp(prefix="verif-ms.")
    try:
        shutil.copytree(os.path.join(repo_root, "src"), os.path.join(tmp, "src"), ignore=shutil.ignore_patterns("*.so", "__pycache__", "*.pyc"))
        open(os.path.join(tmp, relpath), "w", encoding="utf8").write(new_src)
        r = subprocess.run([os.path.join(VERIF, "check"), pid, "--repo", tmp, "--no-evidence", "--no-selftest"], capture_output=True, text=True)
        first = next((l.strip() for l in r.stdout.splitlines() if l.startswith("  ") or "ANALYSIS-ERROR" in l), "")
        return r.returncode, first
    finally:
        shutil.rmtree(tmp, ignore_errors=True)


def main():
    ap = argparse.ArgumentParser()
    ap.add_argument("pid")
    ap.add_argument("--repo", default="/repo")
    ap.add_argument("--funcs", default=None)
    ap.add_argument("--ops", default="CMP,DEL,BOOL,CONST")
    ap.add_argument("--jobs", type=int, default=12)
    ap.add_argument("--out", default=None)
    a = ap.parse_args()
    pid = a.pid.upper()
    funcs = a.funcs.split(",") if a.funcs else target_functions(pid, a.repo)
    ops = set(a.ops.split(","))
    from sa.pyfacts import Repo

    repo = Repo(a.repo)
    jobs = []
    for ref in funcs:
        modname, qual = ref.split(":")
        m = repo.modules.get(modname)
        if m is None or not m.path.endswith(".py"):
            continue
        src = open(m.path, encoding="utf8").read()
        fn = find_fn(ast.parse(src), qual)
        if fn is None:
            continue
        rel = os.path.relpath(m.path, a.repo)
        for op, line, desc, new in mutants_of(src, fn, ops):
            try:
                ast.parse(new)
            except SyntaxError:
                continue
            jobs.append((ref, op, line, desc, rel, new))
    print(f"{pid}: {len(funcs)} target functions, {len(jobs)} mutants", file=sys.stderr)
    surv, caught, broken = [], 0, 0
    with cf.ThreadPoolExecutor(max_workers=a.jobs) as ex:
        futs = {ex.submit(run_one, pid, a.repo, j[4], j[5]): j for j in jobs}
        for f in cf.as_completed(futs):
            ref, op, line, desc, rel, _ = futs[f]
            rc, first = f.result()
            if rc == 0:
                surv.append({"function": ref, "op": op, "line": line, "edit": desc})
            elif rc == 1:
                caught += 1
            else:
                broken += 1
    surv.sort(key=lambda s: (s["function"], s["line"], s["op"]))
    res = {"property": pid, "functions": funcs, "mutants": len(jobs), "reported": caught, "analysis_broken(exit 2, counted as noticed)": broken, "survivors": surv}
    out = a.out or f"/tmp/mutsweep_{pid}.json"
    json.dump(res, open(out, "w"), indent=1)
    print(f"{pid}: {len(jobs)} mutants: {caught} reported, {broken} analysis-broken, {len(surv)} survive -> {out}")


if __name__ == "__main__":
    main()
