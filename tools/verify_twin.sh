#!/bin/bash
# usage: verify_twin.sh <twin dir containing patch.diff> <result json>
# Confirms in a scratch worktree of /repo HEAD that the refactoring applies and the unedited suite passes with it.
set -u
TW="$1"; OUT="$2"
WT=$(mktemp -d /tmp/tv.XXXXXX)
git -C /repo worktree add --detach "$WT" HEAD >/dev/null 2>&1 || { echo '{"error":"worktree"}' > "$OUT"; exit 1; }
cp /repo/src/aioquic/*.so "$WT/src/aioquic/" 2>/dev/null
cd "$WT"
if ! git apply --whitespace=nowarn "$TW/patch.diff" 2>"$WT/_apply.err"; then
  echo '{"error":"patch does not apply"}' > "$OUT"; cd /; git -C /repo worktree remove --force "$WT"; exit 1
fi
touches_c=0; grep -q '^+++ b/.*\.c$' "$TW/patch.diff" && touches_c=1
[ $touches_c = 1 ] && /venv/bin/python setup.py build_ext --inplace >/dev/null 2>&1
suite=$(PYTHONPATH="$WT/src" timeout 1200 /venv/bin/python -m pytest -q -p no:cacheprovider -n 4 tests 2>&1 | tail -1)
python3 - "$OUT" "$suite" "$touches_c" <<'PY'
import json,sys
out,suite,tc=sys.argv[1:]
json.dump({"suite_with_patch":suite.strip(),"touches_c":bool(int(tc)),"confirmed":"470 passed" in suite},open(out,"w"),indent=1)
PY
cd /; git -C /repo worktree remove --force "$WT" >/dev/null 2>&1; rm -rf "$WT"
