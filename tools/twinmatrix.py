#!/usr/bin/env python3
"""Run every registered check against every behaviour-preserving refactoring ("twin") under a root (default
/verif/twins) on scratch copies of /repo/src and list every check that is NOT silent on one (exit 1 = false alarm,
exit 2 = the analysis lost an anchor).

usage: tools/twinmatrix.py [root ...]
"""
import concurrent.futures as cf
import os
import sys

sys.path.insert(0, os.path.dirname(os.path.abspath(__file__)))
from seedmatrix import HERE, claimed, run_seed  # noqa: E402


def main():
    roots = sys.argv[1:] or [os.path.join(HERE, "twins")]
    twins = sorted(dp for root in roots for dp, dn, fn in os.walk(root) if "patch.diff" in fn)
    checks = claimed()
    with cf.ThreadPoolExecutor(max_workers=12) as ex:
        results = list(ex.map(lambda s: run_seed(s, checks), twins))
    noisy = 0
    for tw, res in results:
        name = "/".join(tw.split(os.sep)[-2:])
        if "error" in res:
            print(f"{name}: PATCH ERROR {res['error']}")
            continue
        bad = {pid: v for pid, v in res.items() if v[0] != 0}
        if bad:
            noisy += 1
            for pid, (rc, lines) in bad.items():
                print(f"{name}: {pid} exit {rc}: {(lines[0] if lines else '')[:260]}")
    print(f"{len(results) - noisy}/{len(results)} twins left every check silent")


if __name__ == "__main__":
    main()
