#!/usr/bin/env python3
"""Adds to every statement-keyed entry of rules/suppressions.json the field `stmt_x`: the same statement of /repo HEAD
with its single-definition locals expanded (Fn._expand, depth 3).  sa/excflow.py matches a statement of the analysed
tree against `stmt` as written or against `stmt_x` after the same expansion, so a suppression survives hoisting,
inlining or renaming of the locals the statement reads.  Re-run after every commit to /repo."""
import ast
import json
import os
import sys

ROOT = os.path.dirname(os.path.dirname(os.path.abspath(__file__)))
sys.path.insert(0, ROOT)
os.environ["VERIF_NO_ALPHA"] = "1"
from sa.pyfacts import Repo, norm  # noqa: E402
from sa.q import Fn  # noqa: E402

repo = Repo(sys.argv[1] if len(sys.argv) > 1 else "/repo")
p = os.path.join(ROOT, "rules", "suppressions.json")
doc = json.load(open(p))
sup = doc["suppressions"]
n = 0
for s in sup:
    if "stmt" not in s or "in" not in s:
        continue
    try:
        fn = Fn(repo, s["in"])
    except Exception:
        continue
    hits = [st for st in fn.stmts() if isinstance(st, (ast.Assert, ast.Assign, ast.Expr, ast.Return, ast.AugAssign, ast.AnnAssign)) and norm(st).startswith(s["stmt"])]
    if len(hits) != 1:
        s.pop("stmt_x", None)
        continue
    x = norm(fn._expand(hits[0], 3, set()))
    if x != norm(hits[0]):
        s["stmt_x"] = x
        n += 1
    else:
        s.pop("stmt_x", None)
json.dump(doc, open(p, "w"), indent=1)
print(f"{n} of {len(sup)} suppressions carry an expanded form")
