"""C14 - HTTP/3 events independent of chunking; round trip (claimed in part: structural conditions).

R1  writer / reader agreement: every frame type the sending API emits has an accepting branch in the
    receive path of the stream kind it is sent on; every stream type the endpoint creates has a branch
    in the unidirectional receive path; the settings an endpoint sends pass its own validation
R2  blocked / resume agreement: the frame kinds whose handling can raise StreamBlocked (they decode a
    header block) are exactly the kinds the unblock path can resume, with the kind remembered
R3  buffer discipline (necessary for independence from chunking): the per-stream parse loops read from
    a Buffer over stream.buffer, track `consumed` only from buf.tell(), leave on an incomplete item
    with `break`, and every exit of the function after the loop started trims stream.buffer to the
    unconsumed tail (or empties it) - so a delivery boundary at any byte re-parses from an item start
R4  partial DATA delivery counts against the frame: the remaining frame size is decremented by exactly
    the bytes handed out; non-DATA frames wait until complete
"""
from __future__ import annotations

import ast

from sa.pyfacts import Unknown, call_name, get_kw, norm
from sa.q import Fn, inside, natom
from sa.report import AnalysisError

LEVEL = "other"
H3 = "h3.connection:H3Connection."


def _h3_fns(repo):
    m = repo.mod("h3.connection")
    return [Fn(repo, f"h3.connection:{q}") for q in sorted(m.functions) if q.startswith("H3Connection.") and ".<locals>." not in q]


def run(repo, chk):
    chk.rule("R1", "emitted frame types (first argument of encode_frame) and stream types (_create_uni_stream) have receive-side branches; locally sent settings satisfy _validate_settings")
    chk.rule("R2", "the set of frame kinds that can block on QPACK equals the set the unblock path resumes (the blocked kind is stored and used on resume)")
    chk.rule("R3", "parse loops: Buffer(data=stream.buffer); consumed = buf.tell() only; BufferReadError -> break; every function exit reachable from the loop passes `stream.buffer = stream.buffer[consumed:]` or `stream.buffer = b''`")
    chk.rule("R4", "DATA chunks: frame_size -= chunk_size with chunk_size = min(frame_size, bytes available); other frames are handled only when complete")
    chk.decline("independence from chunking / interleaving and unchanged round trip as such (relations between runs over byte strings); R1-R4 are structural necessary conditions")
    r1(repo, chk)
    r1_qpack(repo, chk)
    r2(repo, chk)
    r3(repo, chk)
    r4(repo, chk)


def r1(repo, chk):
    m = repo.mod("h3.connection")
    ft = repo.enum_members(m, repo.cls("h3.connection:FrameType"))
    emitted = {}
    for fn in _h3_fns(repo):
        for c in fn.calls(name="encode_frame"):
            t = norm(c.args[0]) if c.args else "?"
            emitted.setdefault(t, []).append(fn.qual.split(".")[-1])
    chk.count("emitted_frame_types", emitted)
    rp = Fn(repo, H3 + "_handle_request_or_push_frame")
    ctl = Fn(repo, H3 + "_handle_control_frame")
    req_tests = " ".join(norm(st.test) for st in rp.stmts(lambda s: isinstance(s, ast.If)))
    ctl_tests = " ".join(norm(st.test) for st in ctl.stmts(lambda s: isinstance(s, ast.If)))
    for t, where in sorted(emitted.items()):
        on_control = all(w in ("_init_connection",) for w in where)
        tests = ctl_tests if on_control else req_tests
        ok = f"frame_type == {t}" in tests
        # an accepting branch: not one that only raises
        if ok:
            fnx = ctl if on_control else rp
            br = [st for st in fnx.stmts(lambda s: isinstance(s, ast.If)) if norm(st.test).startswith(f"frame_type == {t}")]
            ok = bool(br) and not all(isinstance(s, ast.Raise) for s in br[0].body)
        chk.ob("R1", f"frame type {t} (sent by {', '.join(sorted(set(where)))}) has an accepting branch on the {'control' if on_control else 'request / push'} stream", ok, "the sending API emits a frame the receive path cannot accept", (ctl if on_control else rp).loc((ctl if on_control else rp).node))
    if len(emitted) < 4:
        raise AnalysisError("encode_frame call sites not found")
    # stream types
    created = set()
    for fn in _h3_fns(repo):
        for c in fn.calls(name="self._create_uni_stream"):
            if c.args:
                created.add(norm(c.args[0]))
    uni = Fn(repo, H3 + "_receive_stream_data_uni")
    tests = " ".join(norm(st.test) for st in uni.stmts(lambda s: isinstance(s, ast.If)))
    for t in sorted(created):
        chk.ob("R1", f"stream type {t} has a branch in the unidirectional receive path", f"stream.stream_type == {t}" in tests, "", uni.loc(uni.node))
    # WebTransport bidirectional preamble
    cw = Fn(repo, H3 + "create_webtransport_stream")
    ok = any("encode_uint_var(FrameType.WEBTRANSPORT_STREAM)" in norm(c) for c in cw.calls(name="self._quic.send_stream_data"))
    rr = Fn(repo, H3 + "_receive_request_or_push_data")
    ok2 = any("stream.frame_type == FrameType.WEBTRANSPORT_STREAM" in norm(st.test) for st in rr.stmts(lambda s: isinstance(s, ast.If)))
    chk.ob("R1", "the WEBTRANSPORT_STREAM preamble written by create_webtransport_stream is recognised by the bidirectional receive path", ok and ok2, "", cw.loc(cw.node))
    # settings sent vs own validation: boolean settings sent are 0/1
    gl = Fn(repo, H3 + "_get_local_settings")
    vs = Fn(repo, H3 + "_validate_settings")
    boolean = set()
    for l in vs.stmts(lambda s: isinstance(s, ast.For)):
        if isinstance(l.iter, (ast.List, ast.Tuple)):
            boolean |= {norm(e) for e in l.iter.elts}
    sent = {}
    for st in gl.stmts():
        if isinstance(st, (ast.Assign, ast.AnnAssign)) and isinstance(st.value, ast.Dict):
            for k, v in zip(st.value.keys, st.value.values):
                sent[norm(k)] = v
        if isinstance(st, ast.Assign) and isinstance(st.targets[0], ast.Subscript):
            sent[norm(st.targets[0].slice)] = st.value
    bad = [k for k, v in sent.items() if k in boolean and not (isinstance(v, ast.Constant) and v.value in (0, 1))]
    chk.ob("R1", "the boolean settings this endpoint sends are 0 or 1 (its own validation would accept them)", not bad and bool(sent), f"{bad}", gl.loc(gl.node))
    ok = "Setting.H3_DATAGRAM" in sent if "Setting.ENABLE_WEBTRANSPORT" in sent else True
    chk.ob("R1", "ENABLE_WEBTRANSPORT is only sent together with H3_DATAGRAM (the peer's validation requires it)", ok, "", gl.loc(gl.node))
    es, ps = Fn(repo, "h3.connection:encode_settings"), Fn(repo, "h3.connection:parse_settings")
    ok = [norm(c) for c in es.calls() if call_name(c).startswith("buf.push_")] == ["buf.push_uint_var(setting)", "buf.push_uint_var(value)"] and sum(1 for c in ps.calls(name="buf.pull_uint_var")) == 2
    chk.ob("R1", "settings are written and read as (varint id, varint value) pairs", ok, "", es.loc(es.node))
    ef = Fn(repo, "h3.connection:encode_frame")
    ok = [norm(c) for c in ef.calls() if call_name(c).startswith("buf.push_")] == ["buf.push_uint_var(frame_type)", "buf.push_uint_var(frame_length)", "buf.push_bytes(frame_data)"]
    chk.ob("R1", "encode_frame writes (varint type, varint length, payload), what the receive loops read", ok, "", ef.loc(ef.node))


def r1_qpack(repo, chk):
    """the QPACK limits each side works with are the ones the other side was told"""
    cf = Fn(repo, H3 + "_handle_control_frame")
    aps = cf.calls(name="self._encoder.apply_settings")
    want = {"max_table_capacity": "Setting.QPACK_MAX_TABLE_CAPACITY", "blocked_streams": "Setting.QPACK_BLOCKED_STREAMS"}
    ok = len(aps) == 1
    got = {}
    if ok:
        for k in aps[0].keywords:
            v = k.value
            got[k.arg] = norm(v.args[0]) if isinstance(v, ast.Call) and call_name(v) == "settings.get" and v.args else norm(v)
        ok = got == want
    chk.ob("R1", "the encoder is configured from the peer's SETTINGS of the same meaning (table capacity, blocked streams)", ok, f"{got}: an encoder that believes the peer tolerates more blocked streams than it advertised makes the peer fail with QPACK_DECOMPRESSION_FAILED - only when many requests overtake the encoder stream", cf.loc(cf.node))
    ini = Fn(repo, H3 + "__init__")
    dec = [c for c in ini.calls(name="pylsqpack.Decoder")]
    ok = len(dec) == 1 and [norm(a) for a in dec[0].args] == ["self._max_table_capacity", "self._blocked_streams"]
    chk.ob("R1", "the decoder is created with the limits this endpoint advertises", ok, "", ini.loc(ini.node))
    # a header block is registered with the encoder under the stream it is sent on (the peer's decoder acknowledges
    # that stream id; the encoder must find the block there)
    m_ = repo.mod("h3.connection")
    n_enc = 0
    for q in sorted(m_.functions):
        if not q.startswith("H3Connection.") or ".<locals>." in q:
            continue
        f_ = Fn(repo, "h3.connection:" + q)
        for c in f_.calls(name="self._encode_headers"):
            n_enc += 1
            sid = norm(c.args[0]) if c.args else None
            outer = None
            p_ = getattr(c, "_parent", None)
            while p_ is not None and not isinstance(p_, ast.stmt):
                if isinstance(p_, ast.Call) and call_name(p_) == "self._quic.send_stream_data":
                    outer = p_
                p_ = getattr(p_, "_parent", None)
            if outer is None:
                # encoded into a local first: the function sends on exactly one request stream
                tgt = {norm(x.args[0]) for x in f_.calls(name="self._quic.send_stream_data") if x.args and norm(x.args[0]) in {a.arg for a in f_.node.args.args}}
                okc = tgt == {sid}
            else:
                okc = bool(outer.args) and norm(outer.args[0]) == sid
            chk.ob("R1", f"{q.split('.')[-1]}: the header block is encoded for the stream it is sent on", okc, f"_encode_headers({sid}, ...): the peer acknowledges the block under the stream that carried it; the encoder finds nothing there and fails the connection with QPACK_DECODER_STREAM_ERROR - only once a block references the dynamic table", f_.loc(c))
    if n_enc < 2:
        raise AnalysisError("H3Connection: _encode_headers call sites not found")
    ls = Fn(repo, H3 + "_get_local_settings")
    txt = " ".join(norm(st) for st in ls.stmts())
    ok = "Setting.QPACK_MAX_TABLE_CAPACITY: self._max_table_capacity" in txt and "Setting.QPACK_BLOCKED_STREAMS: self._blocked_streams" in txt
    chk.ob("R1", "the advertised QPACK settings are the decoder's limits", ok, "", ls.loc(ls.node))
    # body bytes are counted where they are delivered, whichever way they reached the buffer (the C15-R4 obligation):
    # a fragment that is delivered but not counted makes the outcome depend on how the body was split
    from . import c15

    class Sub:
        n = 0

        def ob(self, rule, key, ok, msg="", loc="", detail=None):
            if "is preceded by `content_length +=" in key:
                Sub.n += 1
                return chk.ob("R4", key, ok, msg, loc, detail)
            return ok

        def count(self, *a):
            pass

    c15.r4(repo, Sub())
    if Sub.n < 2:
        raise AnalysisError("C14: the body-accounting obligations of C15-R4 were not generated")


def r2(repo, chk):
    rp = Fn(repo, H3 + "_handle_request_or_push_frame")
    decs = rp.calls(name="self._decode_headers")
    kinds = set()
    for c in decs:
        for a in rp.guard_atoms(c) + rp.lexical_guards(c, expand=False):
            if a[1] and a[0].startswith("FrameType.") and " == frame_type" in a[0]:
                kinds.add(a[0].split(" == ")[0])
            if a[1] and a[0].startswith("frame_type == FrameType."):
                kinds.add(a[0].split(" == ")[1])
            if a[1] and "frame_type == FrameType." in a[0] and a[0].startswith("("):
                for part in a[0].strip("()").split(" and "):
                    if part.startswith("frame_type == FrameType."):
                        kinds.add(part.split(" == ")[1])
    chk.count("frame_kinds_that_can_block", sorted(kinds))
    uni = Fn(repo, H3 + "_receive_stream_data_uni")
    resumes = [c for c in uni.calls(name="self._handle_request_or_push_frame") if get_kw(c, "frame_data") is not None and norm(get_kw(c, "frame_data")) == "None"]
    chk.ob("R2", "the unblock path resumes blocked streams", len(resumes) >= 1, "", uni.loc(uni.node))
    # the variable that holds the resumed stream in the unblock loop (the reference rebinds the parameter `stream`)
    svs = {norm(get_kw(c, "stream", 2)) for c in resumes if get_kw(c, "stream", 2) is not None}
    S = svs.pop() if len(svs) == 1 else "stream"
    if resumes:
        defs = [norm(v) for st, t, v in uni.assigns(chain=S) if _loop_of(st) is not None and _loop_of(st) is _loop_of(resumes[0])]
        chk.ob("R2", "the resumed stream is looked up from the decoder's unblocked stream ids", len(defs) == 1 and defs[0].startswith("self._stream["), f"{S} bound by {defs}", uni.loc(resumes[0]))
    resumed = set()
    dynamic = False
    for c in resumes:
        t = get_kw(c, "frame_type")
        if t is not None and norm(t).startswith("FrameType."):
            resumed.add(norm(t))
        elif t is not None:
            dynamic = True  # resumes with a remembered kind
    ok = dynamic or kinds <= resumed
    chk.ob("R2", "every frame kind that can block on QPACK is resumed as that kind", ok, f"kinds that decode headers {sorted(kinds)}, kinds the unblock path resumes {sorted(resumed)}: a blocked {sorted(kinds - resumed)} is re-entered as {sorted(resumed)} and validated as the wrong message, depending on when the encoder stream arrives", uni.loc(uni.node))
    rr = Fn(repo, H3 + "_receive_request_or_push_data")
    hs = [h for st in rr.stmts(lambda s: isinstance(s, ast.Try)) for h in st.handlers if h.type is not None and "StreamBlocked" in norm(h.type)]
    ok = len(hs) == 1 and any(norm(s) == "stream.blocked = True" for s in hs[0].body) and isinstance(hs[0].body[-1], ast.Break)
    chk.ob("R2", "a blocked frame marks the stream blocked and stops parsing that stream", ok, "", rr.loc(rr.node))
    gate = [r for r in rr.returns() if ("stream.blocked", True) in rr.guard_atoms(r)]
    adds = [st for st, t, v in rr.assigns(chain="stream.buffer") if isinstance(st, ast.AugAssign)]
    ok = len(gate) >= 1 and bool(adds) and all(rr.before(a, gate[0]) for a in adds)
    chk.ob("R2", "data arriving for a blocked stream is buffered, not parsed", ok, "", rr.loc(rr.node))
    ub = [st for st, t, v in uni.assigns(chain=f"{S}.blocked") if isinstance(v, ast.Constant) and v.value is False]
    ok = len(ub) == 1 and all(uni.before(c, ub[0]) for c in resumes)
    chk.ob("R2", "a stream is unblocked only after its pending frame was resumed", ok, "", uni.loc(uni.node))
    if dynamic:
        # the remembered kind is recorded where the frame blocks, and the resumed branch can find what it needs
        rec = [st for st, t, v in rr.assigns(chain="stream.blocked_frame_type") if norm(v) == "frame_type" and any(st in h.body for h in hs)]
        chk.ob("R2", "the kind of the blocked frame is recorded when it blocks", len(rec) == 1, "", rr.loc(rr.node))
        for c in resumes:
            chk.ob("R2", "the unblock path resumes with the recorded kind", norm(get_kw(c, "frame_type")) == f"{S}.blocked_frame_type", "", uni.loc(c))
        for c in decs:
            a = c.args[1] if len(c.args) > 1 else None
            txt = norm(a) if a is not None else ""
            at = rp.guard_atoms(c) + rp.lexical_guards(c, expand=False)
            ok = txt in ("frame_data", "None") or ("frame_data is not None", True) in at or ("frame_data is None", False) in at
            chk.ob("R2", f"`{norm(c)[:60]}` is safe to re-enter with frame_data=None", ok, "a resumed frame would slice / parse a None payload", rp.loc(c))
    # everything else a resumed frame needs is read from where the blocking path stored it
    if dynamic:
        # (a) push id of a blocked PUSH_PROMISE
        pid_defs = [(st, norm(v)) for st, t, v in rp.assigns(chain="push_id")]
        on_resume = [v for st, v in pid_defs if ("frame_data is None", True) in rp.lexical_guards(st, expand=False)]
        stored = [st for st, t, v in rp.assigns(chain="stream.blocked_push_id") if norm(v) == "push_id"]
        ok = on_resume == ["stream.blocked_push_id"] and len(stored) == 1 and all(rp.before(stored[0], c) for c in decs if rp.lexical_guards(c, expand=False) == rp.lexical_guards(stored[0], expand=False))
        chk.ob("R2", "a resumed PUSH_PROMISE takes its push id from where the blocked frame stored it (before decoding could block)", ok, f"push id on resume: {on_resume}, stored by {[norm(x) for x in stored]}: the promise would be reported with another (or no) push id, only when the encoder stream arrives late", rp.loc(rp.node))
        # (b) sizes used for logging on resume
        for n in rp.nodes(ast.Attribute):
            pass
        # (c) in the unblock loop, the per-frame blocked state is cleared before parsing continues: the continued parse may
        #     block again and record new state, which a later clear would wipe
        cont_calls = [c for c in uni.calls(name="self._receive_request_or_push_data")]
        clears = [st for st, t, v in uni.assigns(suffix="blocked_frame_type") + uni.assigns(suffix="blocked_frame_size") + uni.assigns(suffix="blocked") if norm(t).startswith(f"{S}.blocked") and isinstance(v, ast.Constant) and v.value in (None, False)]
        loops = {id(_loop_of(st)) for st in clears}
        cont_calls = [c for c in cont_calls if id(_loop_of(c)) in loops]
        ok = len(clears) >= 3 and len(loops) == 1 and None not in [_loop_of(st) for st in clears] and bool(cont_calls) and all(st.lineno < c.lineno for st in clears for c in cont_calls)
        chk.ob("R2", "the unblock loop clears blocked / blocked_frame_type / blocked_frame_size before it continues parsing the stream", ok, "a frame that blocks again during the continued parse records its kind, and a clear placed after the call wipes it: the second blocked frame is later resumed as nothing (events and end-of-stream lost)", uni.loc(uni.node))
        ok = all(c.lineno < st.lineno for st in clears for c in resumes)
        chk.ob("R2", "the recorded kind is cleared only after the resume call has read it", ok, "", uni.loc(uni.node))
    # end-of-stream is attached to the frame that really is the last thing of the stream: nothing buffered behind it
    for c in resumes:
        se = get_kw(c, "stream_ended")
        chk.ob("R2", "a resumed frame carries end-of-stream only if the stream ended and nothing is buffered behind the frame", se is not None and uni.expand(se, 2) in (f"{S}.receiving_ended and (not {S}.buffer)", "{0}.receiving_ended and (not {0}.buffer)".format(uni.expand(ast.parse(S, mode="eval").body, 1))), f"stream_ended={norm(se) if se is not None else None}: end-of-stream would be reported before (and again after) the buffered frames, depending on when the encoder stream arrived", uni.loc(c))
    for c in rr.calls(name="self._handle_request_or_push_frame"):
        se = get_kw(c, "stream_ended")
        if _loop_of(c) is not None:
            chk.ob("R2", "in the parse loop a frame carries end-of-stream only if the stream ended and the frame is the last thing in the buffer", se is not None and rr.expand(se, 2) == "stream.receiving_ended and buf.eof()", f"stream_ended={norm(se) if se is not None else None}", rr.loc(c))
    ie = Fn(repo, "h3.connection:H3Stream.is_ended")
    rets = [r for r in ie.returns() if r.value is not None]
    ok = bool(rets) and all("not self.blocked" in norm(r.value) and " or " not in norm(r.value) for r in rets)
    chk.ob("R2", "a blocked stream is never discarded (is_ended requires not blocked)", ok, "the stream object of a blocked request is deleted when both directions finished; the unblock path then fails and the response events are lost - only when the encoder stream arrives late", ie.loc(ie.node))
    cont = [c for c in uni.calls(name="self._receive_request_or_push_data") if (f"{S}.buffer", True) in uni.guard_atoms(c) and c.args and norm(c.args[0]) == S]
    chk.ob("R2", "bytes buffered while blocked are parsed after the resume", len(cont) >= 1, "", uni.loc(uni.node))


def _loop_of(n):
    p = getattr(n, "_parent", None)
    while p is not None and not isinstance(p, (ast.FunctionDef, ast.AsyncFunctionDef)):
        if isinstance(p, (ast.For, ast.While)):
            return p
        p = getattr(p, "_parent", None)
    return None


def r3(repo, chk):
    for name in ("_receive_request_or_push_data", "_receive_stream_data_uni"):
        fn = Fn(repo, H3 + name)
        bufs = [st for st, t, v in fn.assigns(chain="buf") if norm(v) == "Buffer(data=stream.buffer)"]
        loops = [l for l in fn.stmts(lambda s: isinstance(s, ast.While)) if "buf.eof()" in norm(l.test)]
        if len(bufs) != 1 or len(loops) != 1:
            raise AnalysisError(f"{name}: parse loop over Buffer(data=stream.buffer) not found")
        loop = loops[0]
        cons = [(st, v) for st, t, v in fn.assigns(chain="consumed")]
        ok = all(norm(v) in ("0", "buf.tell()") for st, v in cons) and any(norm(v) == "0" and fn.before(st, loop) for st, v in cons)
        chk.ob("R3", f"{name}: `consumed` starts at 0 and is only ever set to buf.tell()", ok, f"{[norm(v) for st, v in cons]}", fn.loc(fn.node))
        # the parse offset is an offset into what the Buffer was built from: nothing else is sliced with it
        wrong = [norm(n) for n in fn.nodes(ast.Subscript) if isinstance(n.slice, ast.Slice) and any(isinstance(x, ast.Name) and x.id == "consumed" for b in (n.slice.lower, n.slice.upper) if b is not None for x in ast.walk(b)) and norm(n.value) != "stream.buffer"]
        chk.ob("R3", f"{name}: the parse offset only ever slices the buffer it was measured in", not wrong, f"{wrong}: `consumed` counts bytes of the accumulated stream buffer; applied to the current delivery it drops (or duplicates) as many payload bytes as were left over from earlier deliveries - only when a delivery boundary falls inside a preamble", fn.loc(fn.node))
        app = [st for st, t, v in fn.assigns(chain="stream.buffer") if isinstance(st, ast.AugAssign) and norm(v) == "data"]
        ok = len(app) == 1 and fn.before(app[0], bufs[0]) and not fn.lexical_guards(app[0], expand=False)
        chk.ob("R3", f"{name}: new bytes are appended to the stream's buffer before parsing", ok, "", fn.loc(fn.node))
        # incomplete item: BufferReadError -> break, inside the loop
        for t in fn.stmts(lambda s: isinstance(s, ast.Try) and inside(s, loop)):
            for h in t.handlers:
                if h.type is not None and norm(h.type) == "BufferReadError":
                    ok = len(h.body) == 1 and isinstance(h.body[0], ast.Break)
                    chk.ob("R3", f"{name}: an incomplete item (`{norm(t.body[0])[:40]}...`) leaves the loop with `break`, consuming nothing", ok, "an incomplete frame header / item exits the function without trimming the buffer (return) or keeps parsing (continue / pass): the bytes already handled in this delivery are parsed again on the next one", fn.loc(h))
            # consumed is updated only after the whole item was pulled
            pulls = [c for c in ast.walk(t) if isinstance(c, ast.Call) and call_name(c).startswith("buf.pull_") and any(c is x or inside(c, x) for x in t.body)]
            if pulls and any(h.type is not None and norm(h.type) == "BufferReadError" for h in t.handlers):
                ups = [st for st, v in cons if norm(v) == "buf.tell()" and inside(st, loop) and fn.before(t, st)]
                chk.ob("R3", f"{name}: after `{norm(t.body[0])[:40]}...` succeeded the consumed offset is advanced", bool(ups), "", fn.loc(t))
        # every exit reachable from the loop passes a trim / clear of stream.buffer
        trims = [st for st, t, v in fn.assigns(chain="stream.buffer") if norm(v) in ("stream.buffer[consumed:]", "b''")]
        cfg = fn.cfg
        avoid = {cfg.begin[st] for st in trims}
        head = cfg.tedge[loop]
        escapes = cfg.reaches(head, cfg.exit, avoid=avoid)
        chk.ob("R3", f"{name}: every return reachable from inside the parse loop first trims stream.buffer to the unconsumed tail (or empties it)", not escapes and bool(trims), "a path leaves the function with processed bytes still in stream.buffer: the next delivery parses them again, so the events depend on where the delivery boundary fell", fn.loc(loop))
        # whatever was pulled successfully is accounted for before the loop goes round or the remainder is stored
        upd = [st for st, v in cons if norm(v) == "buf.tell()" and inside(st, loop)]
        avoid_upd = {cfg.begin[st] for st in upd}
        # an item whose later part is missing is abandoned as a whole (BufferReadError -> break): nothing of it counts as handled
        for t in fn.stmts(lambda s: isinstance(s, ast.Try) and inside(s, loop)):
            for h in t.handlers:
                if h.type is not None and norm(h.type) == "BufferReadError":
                    avoid_upd |= {cfg.begin[b] for b in h.body if b in cfg.begin}
        targets = [cfg.begin[loop]] + [cfg.begin[st] for st in trims if norm(st.value) == "stream.buffer[consumed:]"]
        for c in fn.calls():
            if not (call_name(c).startswith("buf.pull_") and inside(c, loop)):
                continue
            st = cfg.stmt_of(c)
            if st not in cfg.done:
                continue
            leak = [t for t in targets if cfg.reaches(cfg.done[st], t, avoid=avoid_upd)]
            chk.ob("R3", f"{name}: after `{norm(c)[:40]}` succeeded, `consumed = buf.tell()` runs before the next iteration or the remainder is stored", not leak, "bytes that were pulled and acted upon stay in stream.buffer: they are parsed and reported a second time with the next delivery", fn.loc(c))
        # delegating returns pass the empty chunk (no double append)
        for r in fn.returns():
            if r.value is not None and isinstance(r.value, ast.Call) and call_name(r.value) == "self._receive_request_or_push_data":
                ok = norm(r.value.args[1]) == "b''" if len(r.value.args) > 1 else False
                chk.ob("R3", f"{name}: the push-stream body is handed on without adding the same bytes twice", ok, "", fn.loc(r))


def r4_end_flags(repo, chk):
    """which end-of-stream flag gates what: the content-length comparison of a DATA frame runs for the frame that ends
    the stream (the handler's own `stream_ended` argument), not for every frame parsed after the FIN became known; and a
    WebTransport stream header with nothing behind it still reports the end of the stream"""
    hp = Fn(repo, H3 + "_handle_request_or_push_frame")
    data = natom("frame_type == FrameType.DATA")
    ccl = [c for c in hp.calls(name="self._check_content_length") if data in hp.guard_atoms(c) + hp.lexical_guards(c, expand=False)]
    ok = len(ccl) == 1 and [a for a in hp.lexical_guards(ccl[0], expand=False) if a != data] == [("stream_ended", True)]
    chk.ob("R4", "_handle_request_or_push_frame: the content-length comparison of a DATA frame is made for the frame that ends the stream (argument stream_ended)", ok, "gated on stream.receiving_ended the comparison runs for every DATA frame parsed after the FIN is known: a body in two DATA frames delivered together with the FIN is refused, the same bytes delivered separately are accepted", hp.loc(hp.node))
    rr = Fn(repo, H3 + "_receive_request_or_push_data")
    wt = [c for c in rr.calls(name="WebTransportStreamDataReceived") if norm(get_kw(c, "data")) == "frame_data"]
    ok = len(wt) == 1 and any(a[0] in ("(frame_data or stream_ended)", "(stream_ended or frame_data)") and a[1] for a in rr.lexical_guards(wt[0], expand=False) + rr.guard_atoms(wt[0]))
    chk.ob("R4", "_receive_request_or_push_data: the delivery that completes a WebTransport stream header reports payload or end-of-stream", ok, "an empty bidirectional WebTransport stream whose FIN arrives with the header produces no event at all; with the FIN in a delivery of its own it does", rr.loc(rr.node))


def r4(repo, chk):
    r4_end_flags(repo, chk)
    rr = Fn(repo, H3 + "_receive_request_or_push_data")
    cs = [norm(v) for st, t, v in rr.assigns(chain="chunk_size")]
    ok = cs == ["min(stream.frame_size, buf.capacity - consumed)"]
    chk.ob("R4", "a frame's chunk is min(bytes of the frame still expected, bytes available)", ok, f"{cs}", rr.loc(rr.node))
    dec = [st for st, t, v in rr.assigns(chain="stream.frame_size") if isinstance(st, ast.AugAssign) and isinstance(st.op, ast.Sub)]
    vals = sorted(norm(st.value) for st in dec)
    ok = vals == ["chunk_size", "len(stream.buffer)"]
    chk.ob("R4", "the expected frame size is reduced by exactly the bytes handed out (both in the loop and in the DATA shortcut)", ok, f"{vals}", rr.loc(rr.node))
    brk = [b for b in rr.stmts(lambda s: isinstance(s, ast.Break)) if any("chunk_size" in a[0] and "stream.frame_size" in a[0] for a in rr.lexical_guards(b, expand=False))]
    ok = len(brk) == 1 and natom("stream.frame_type != FrameType.DATA") in rr.lexical_guards(brk[0], expand=False) and natom("chunk_size < stream.frame_size") in rr.lexical_guards(brk[0], expand=False)
    chk.ob("R4", "a frame other than DATA is handled only once it is complete", ok, "", rr.loc(rr.node))
    pull = [c for c in rr.calls(name="buf.pull_bytes") if norm(c.args[0]) == "chunk_size"]
    chk.ob("R4", "exactly the chunk is read from the buffer", len(pull) == 1, "", rr.loc(rr.node))
    reset = [st for st, t, v in rr.assigns(chain="stream.frame_size") if isinstance(v, ast.Constant) and v.value is None and ("stream.frame_size", False) in rr.lexical_guards(st, expand=False)]
    chk.ob("R4", "when a frame is complete the parser returns to the frame-header state", len(reset) == 1, "", rr.loc(rr.node))
    # the DATA shortcut only applies in the middle of a DATA frame
    sc = [st for st in dec if norm(st.value) == "len(stream.buffer)"]
    ok = len(sc) == 1
    if ok:
        at = rr.guard_atoms(sc[0])
        ok = all(natom(a) in at for a in ("stream.frame_type == FrameType.DATA", "stream.frame_size is not None", "len(stream.buffer) < stream.frame_size"))
        blk = rr.block_of(sc[0])
        ok = ok and any(norm(s) == "stream.buffer = b''" for s in blk) and isinstance(blk[-1], ast.Return)
    chk.ob("R4", "the DATA shortcut applies only inside a DATA frame whose remainder exceeds the buffered bytes, and empties the buffer", ok, "", rr.loc(rr.node))
    ended = [c for c in rr.calls(name="self._handle_request_or_push_frame")]
    ok = len(ended) == 1 and rr.expand(get_kw(ended[0], "stream_ended"), 2) == "stream.receiving_ended and buf.eof()"
    chk.ob("R4", "end of stream is attached to the frame that consumes the last buffered byte after the FIN was seen", ok, "", rr.loc(rr.node))
