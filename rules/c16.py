"""C16 - peer stream bytes can never make the HTTP layers raise.

R1  exception-escape set of H3Connection.handle_event / H0Connection.handle_event is empty
R2  handle_event converts every ProtocolError into QuicConnection.close(error_code, reason)
R2b facts behind the suppressions (blocked streams are never deleted; STOP_SENDING on a
    critical stream closes)
R3  the closing packet can always be emitted whatever the reason phrase contains
"""
from __future__ import annotations

import ast

from sa.pyfacts import attr_chain, call_name, norm
from sa.q import natom, Fn
from sa.report import AnalysisError

from .c05 import CONN, engine, engine_health, report_escapes

LEVEL = "other"
H3 = "h3.connection:H3Connection."


def run(repo, chk):
    chk.rule("R1", "least-fixpoint exception-escape analysis: nothing propagates out of H3Connection.handle_event / H0Connection.handle_event (ProtocolError subclasses are converted inside)")
    chk.rule("R2", "handle_event catches ProtocolError around both receive paths, sets _is_done and passes exc.error_code / exc.reason_phrase to QuicConnection.close; every ProtocolError subclass carries an ErrorCode member")
    chk.rule("R2c", "a peer-triggered reset of a send half marks the stream is_stopped_by_peer first, and send_stream_data never writes to a marked stream (so the order in which the application drains StreamDataReceived / StopSendingReceived cannot make write() assert)")
    chk.rule("R2b", "H3Stream.is_ended() requires `not self.blocked`; StopSendingReceived on a local critical stream raises ClosedCriticalStream")
    chk.rule("R3", "_write_connection_close_frame bounds the reason phrase by the space left in the packet and the closing branch of datagrams_to_send catches QuicPacketBuilderStop")
    chk.decline("TypeError/AttributeError from ill-typed events, exceptions raised inside pylsqpack other than its documented error classes")
    chk.assume("pylsqpack.Decoder.resume_header does not raise StreamBlocked for a stream that feed_encoder has just reported unblocked")
    chk.trust("S4 table of pylsqpack raise behaviour (sa/excflow.py:EXT_RAISES)")

    prog, esc = engine(repo)
    engine_health(chk, esc)
    sites = report_escapes(chk, esc, [H3 + "handle_event", "h0.connection:H0Connection.handle_event"])
    chk.count("exception_source_sites_reachable", sites)

    # ---- R2 --------------------------------------------------------------------------
    he = Fn(repo, H3 + "handle_event")
    for name in ("self._receive_stream_data", "self._receive_datagram"):
        cs = he.calls(name=name)
        ok = bool(cs)
        for c in cs:
            hs = [h for h in he.enclosing_handlers(c) if h.type is not None and "ProtocolError" in [norm(t) for t in (h.type.elts if isinstance(h.type, ast.Tuple) else [h.type])]]
            good = False
            for h in hs:
                closes = [x for st in h.body for x in ast.walk(st) if isinstance(x, ast.Call) and call_name(x) == "self._quic.close"]
                done = [st for st in h.body if isinstance(st, ast.Assign) and norm(st.targets[0]) == "self._is_done" and norm(st.value) == "True"]
                for cl in closes:
                    kws = {k.arg: norm(k.value) for k in cl.keywords}
                    if kws.get("error_code") == f"{h.name}.error_code" and kws.get("reason_phrase") == f"{h.name}.reason_phrase" and done:
                        good = True
            ok = ok and good
        chk.ob("R2", f"handle_event: `{name}` under except ProtocolError -> close(error_code, reason_phrase) and _is_done", ok, "conversion of protocol errors into a connection close is incomplete", he.loc(he.node))
    g = [a for c in he.calls(name="self._receive_stream_data") for a in he.guard_atoms(c)]
    chk.ob("R2", "handle_event: nothing is processed once _is_done", ("self._is_done", False) in g, f"guards {g}", he.loc(he.node))
    m = repo.mod("h3.connection")
    codes = repo.enum_members(m, m.classes["ErrorCode"])
    n = 0
    for cq, c in m.classes.items():
        bases = [attr_chain(b) for b in c.bases]
        if "ProtocolError" in bases or cq == "ProtocolError":
            n += 1
            ec = [st for st in c.body if isinstance(st, ast.Assign) and norm(st.targets[0]) == "error_code"]
            ok = bool(ec) and norm(ec[0].value).startswith("ErrorCode.") and norm(ec[0].value)[10:] in codes
            if cq != "ProtocolError" and not ec:
                ok = True  # inherits H3_GENERAL_PROTOCOL_ERROR
            chk.ob("R2", f"{cq}.error_code is an ErrorCode member", ok, "close() would be called with an undefined error code", repo.loc(c, m))
    if n < 8:
        raise AnalysisError("ProtocolError hierarchy not found")

    # ---- R2b ----------------------------------------------------------------------------
    ie = Fn(repo, "h3.connection:H3Stream.is_ended")
    rets = [r for r in ie.returns() if r.value is not None]
    ok = bool(rets) and all("not self.blocked" in norm(r.value) and " or " not in norm(r.value) for r in rets)
    chk.ob("R2b", "H3Stream.is_ended() requires `not self.blocked`", ok, "a blocked stream can be deleted from H3Connection._stream; the unblock loop then raises KeyError out of handle_event", ie.loc(ie.node))
    gc = Fn(repo, H3 + "_get_or_create_stream")
    pops = [c for c in gc.calls(suffix="pop") if "self._stream" in norm(c.func)]
    dels = [st for st in gc.stmts(lambda s: isinstance(s, ast.Delete))]
    dels = [st for st in dels if "self._stream" in norm(st)]
    ok = all(any(a == ("stream.is_ended()", True) for a in gc.guard_atoms(c)) for c in pops + dels)
    chk.ob("R2b", "_get_or_create_stream deletes a stream only when is_ended()", ok and bool(pops + dels), "", gc.loc(gc.node))
    others = []
    for q in m.functions:
        if q.startswith("H3Connection.") and q != "H3Connection._get_or_create_stream":
            f = Fn(repo, "h3.connection:" + q)
            for c in f.calls():
                if isinstance(c.func, ast.Attribute) and c.func.attr in ("pop", "clear", "popitem") and norm(c.func.value) == "self._stream":
                    others.append(f"{q}: {norm(c)}")
            for st in f.stmts(lambda s: isinstance(s, ast.Delete)):
                if "self._stream[" in norm(st):
                    others.append(f"{q}: {norm(st)}")
    chk.ob("R2b", "no other function removes entries from H3Connection._stream", not others, f"{others}", "")
    raises = [r for r in he.raises("ClosedCriticalStream")]
    ok = False
    for r in raises:
        atoms = he.guard_atoms(r)
        txt = " ".join(a[0] for a in atoms if a[1])
        if "isinstance(event, StopSendingReceived)" in txt and all(x in txt for x in ("self._local_control_stream_id", "self._local_decoder_stream_id", "self._local_encoder_stream_id")):
            ok = True
    chk.ob("R2b", "handle_event: StopSendingReceived on a local critical stream raises ClosedCriticalStream", ok, "a peer STOP_SENDING on the control/QPACK stream resets its send half; the next write asserts", he.loc(he.node))
    ends = []
    for q in m.functions:
        if q.startswith("H3Connection."):
            f = Fn(repo, "h3.connection:" + q)
            for c in f.calls(name="self._quic.send_stream_data"):
                sid = norm(c.args[0]) if c.args else ""
                if sid in ("self._local_control_stream_id", "self._local_decoder_stream_id", "self._local_encoder_stream_id"):
                    fin = [k for k in c.keywords if k.arg == "end_stream"] or c.args[2:3]
                    if fin:
                        ends.append(f"{q}: {norm(c)[:60]}")
    chk.ob("R2b", "the local critical streams are never finished", not ends, f"{ends}", "")

    # ---- R2c: a write can never reach a send half that the peer made us reset ---------------
    ssd = Fn(repo, CONN + "send_stream_data")
    ws = ssd.calls(suffix="write")
    ws = [c for c in ws if "sender.write" in call_name(c)]
    ok = bool(ws) and all(any(a[0].endswith(".is_stopped_by_peer") and a[1] is False for a in ssd.guard_atoms(c)) for c in ws)
    chk.ob("R2c", "send_stream_data: sender.write() only runs for a stream the peer has not stopped", ok, "after a peer STOP_SENDING the send half is reset at once; a write before the application has drained StopSendingReceived asserts", ssd.loc(ssd.node))
    qm = repo.mod("quic.connection")
    n_reset = 0
    for q in sorted(qm.functions):
        if not q.startswith("QuicConnection.") or q == "QuicConnection.reset_stream":
            continue
        f = Fn(repo, "quic.connection:" + q)
        for c in f.calls(suffix="reset"):
            if not call_name(c).endswith("sender.reset"):
                continue
            n_reset += 1
            recv = call_name(c)[: -len(".sender.reset")]
            marks = [st for st, t, v in f.assigns(chain=recv + ".is_stopped_by_peer") if isinstance(v, ast.Constant) and v.value is True]
            ok = any(f.before(st, c) for st in marks)
            chk.ob("R2c", f"{q}: `{norm(c)[:60]}` (reset caused by the peer) is preceded by marking the stream is_stopped_by_peer", ok, "send_stream_data cannot tell that this stream was reset and will assert on the next write", f.loc(c))
    if n_reset < 1:
        raise AnalysisError("no peer-triggered sender.reset() found in QuicConnection (anchor for C16-R2c vanished)")
    clears = []
    for mname in ("quic.connection", "quic.stream"):
        mm = repo.mod(mname)
        for q in mm.functions:
            f = Fn(repo, mname + ":" + q)
            for st, t, v in f.assigns(suffix="is_stopped_by_peer"):
                if not (isinstance(v, ast.Constant) and v.value is True) and not q.endswith("__init__"):
                    clears.append(f"{q}: {norm(st)}")
    chk.ob("R2c", "is_stopped_by_peer is never cleared", not clears, f"{clears}", "")
    # the HTTP/3 layer itself never resets its critical streams
    bad = []
    for q in m.functions:
        if q.startswith("H3Connection."):
            f = Fn(repo, "h3.connection:" + q)
            for c in f.calls(name="self._quic.reset_stream"):
                sid = norm(c.args[0]) if c.args else ""
                if "_local_" in sid:
                    bad.append(f"{q}: {norm(c)[:60]}")
    chk.ob("R2c", "the HTTP/3 layer never resets its own control/QPACK streams", not bad, f"{bad}", "")

    # ---- R3 ------------------------------------------------------------------------------
    wc = Fn(repo, CONN + "_write_connection_close_frame")
    # hoisted single-definition locals (`encoded = reason.encode(...)`, `space = max(0, ...)`) are read through
    rb = [(st, t, wc._expand(v, 4, set()) if v is not None else v) for st, t, v in wc.assigns(chain="reason_bytes")]
    ok = False
    for st, t, v in rb:
        if isinstance(v, ast.Subscript) and isinstance(v.slice, ast.Slice) and v.slice.upper is not None and "remaining_buffer_space" in norm(v.slice.upper) and "encode(" in norm(v.value):
            ok = True
    chk.ob("R3", "_write_connection_close_frame truncates the reason phrase to the space left", ok, "an arbitrarily long reason phrase (built from peer input by the HTTP/3 layer) makes the close frame exceed the packet", wc.loc(wc.node))
    # the truncation leaves room for the fixed part of the frame: upper bound = remaining_buffer_space - K, capacity = K' + len
    Kexpr = None
    for st, t, v in rb:
        up = v.slice.upper if isinstance(v, ast.Subscript) and isinstance(v.slice, ast.Slice) else None
        if isinstance(up, ast.Call) and call_name(up) == "max" and len(up.args) == 2:
            for a in up.args:
                if isinstance(a, ast.BinOp) and isinstance(a.op, ast.Sub) and norm(a.left) == "builder.remaining_buffer_space":
                    Kexpr = a.right
    if isinstance(Kexpr, ast.Name):
        defs = wc.assigns(chain=Kexpr.id)
        if defs:
            Kexpr = defs[0][2] if len(defs) == 1 else None

    def kval(e, guards):
        """reserved bytes on the path described by guards; IfExp on a test the path decides is resolved, otherwise the minimum"""
        if e is None:
            return None
        if isinstance(e, ast.IfExp):
            a, b = kval(e.body, guards), kval(e.orelse, guards)
            t = norm(e.test)
            if natom(t, True) in guards or (t, True) in guards:
                return a
            if natom(t, False) in guards or (t, False) in guards:
                return b
            return None if a is None or b is None else min(a, b)
        if isinstance(e, ast.BinOp) and isinstance(e.op, ast.Mult):
            a, b = kval(e.left, guards), kval(e.right, guards)
            return None if a is None or b is None else a * b
        if isinstance(e, ast.BinOp) and isinstance(e.op, ast.Add):
            a, b = kval(e.left, guards), kval(e.right, guards)
            return None if a is None or b is None else a + b
        v = repo.const(wc.mod, e)
        return v if isinstance(v, int) else None

    for c in wc.calls(name="builder.start_frame"):
        capn = next((k.value for k in c.keywords if k.arg == "capacity"), None)
        Kp = None
        if isinstance(capn, ast.BinOp) and isinstance(capn.op, ast.Add):
            for side, other in ((capn.left, capn.right), (capn.right, capn.left)):
                if norm(other) == "reason_length":
                    kv = repo.const(wc.mod, side)
                    Kp = kv if isinstance(kv, int) else None
        K = kval(Kexpr, wc.lexical_guards(c, expand=False))
        chk.ob("R3", f"_write_connection_close_frame: the truncation reserves at least the fixed part of `{norm(capn) if capn is not None else None}`", K is not None and Kp is not None and K >= Kp, f"reserved by the truncation: {K}, fixed part of the frame: {Kp}: a reason that has to be truncated makes the frame larger than the space left; start_frame refuses it and no CONNECTION_CLOSE is sent at all", wc.loc(c))
    sfs = wc.calls(name="builder.start_frame")
    for c in sfs:
        cap = next((norm(k.value) for k in c.keywords if k.arg == "capacity"), "")
        chk.ob("R3", f"_write_connection_close_frame: capacity `{cap}` accounts for the reason bytes pushed", "reason_length" in cap and any(norm(v) == "len(reason_bytes)" for st, t, v in wc.assigns(chain="reason_length")), "", wc.loc(c))
    ds = Fn(repo, CONN + "datagrams_to_send")
    for c in ds.calls(name="self._write_connection_close_frame") + [c for c in ds.calls(name="builder.start_packet")]:
        caught = any(h.type is not None and "QuicPacketBuilderStop" in norm(h.type) for h in ds.enclosing_handlers(c))
        chk.ob("R3", f"datagrams_to_send: `{norm(c)[:45]}` under except QuicPacketBuilderStop", caught, "a close frame that does not fit raises out of datagrams_to_send", ds.loc(c))
    enc = [c for c in wc.calls(suffix="encode")]
    chk.ob("R3", "_write_connection_close_frame encodes the reason as UTF-8", all(c.args and isinstance(c.args[0], ast.Constant) and c.args[0].value in ("utf8", "utf-8") for c in enc) and bool(enc), "", wc.loc(wc.node))
