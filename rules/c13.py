"""C13 - datagram size, Initial padding, anti-amplification (claimed in part).

R1  size (proved by an ownership chain): every datagram returned by datagrams_to_send is the content
    of the one Buffer allocated with the configured max_datagram_size
R2  padding: the needs-padding flag is set for (client or ack-eliciting) Initial packets, cleared only
    by datagram initialisation / in-packet padding; the pad target is the amplification-clamped
    capacity and (R2.floor) must not be lowered below 1200 by the congestion or amplification budget
R3  anti-amplification plumbing: bytes received are counted for the whole datagram before anything
    else, bytes sent for every datagram returned, the 3x budget is installed before the first packet
    on every emitting path, the builder never exceeds it, is_validated has exactly three writers
"""
from __future__ import annotations

import ast

from sa.linear import Lin
from sa.pyfacts import Unknown, attr_chain, call_name, chains_in, get_kw, norm
from sa.q import Fn, inside, natom
from sa.report import AnalysisError

LEVEL = "other"
CONN = "quic.connection:QuicConnection."
PB = "quic.packet_builder:QuicPacketBuilder."


def _class_fns(repo, mod, cls):
    m = repo.mod(mod)
    return [Fn(repo, f"{mod}:{q}") for q in sorted(m.functions) if q.startswith(cls + ".") and ".<locals>." not in q]


def run(repo, chk):
    chk.rule("R1", "ownership chain: datagrams_to_send returns only elements of builder.flush(); QuicPacketBuilder._datagrams only ever receives self._buffer.data; self._buffer is allocated once with the max_datagram_size the connection passes, itself assigned once from the configuration; Buffer.data is bounded by the capacity (C04 invariant)")
    chk.rule("R2", "needs-padding flag: set for (is_client or is_ack_eliciting) and INITIAL; cleared only at datagram initialisation or by in-packet padding; the end-of-datagram pad target is the budget-clamped capacity")
    chk.rule("R2.floor", "the pad target of a datagram that needs padding is not lowered below 1200 bytes by the congestion budget or by the anti-amplification budget")
    chk.rule("R3", "bytes_received += whole datagram before any processing; bytes_sent += len(datagram) for every datagram returned; max_total_bytes = 3*received - sent installed before the first start_packet on every emitting path; start_packet clamps the datagram capacity by it; is_validated=True only by connect(), a processed Handshake packet, a matching PATH_RESPONSE")
    chk.decline("the numeric 3x inequality over a whole schedule (decided only through the plumbing R3); coalescing decisions per schedule")
    chk.trust("Buffer.data returns at most `capacity` bytes (object invariant base <= pos <= end proved by the C04 check)")
    r1(repo, chk)
    r2(repo, chk)
    r3(repo, chk)


def r1(repo, chk):
    ds = Fn(repo, CONN + "datagrams_to_send")
    flushes = [st for st in ds.stmts(lambda s: isinstance(s, ast.Assign)) if isinstance(st.value, ast.Call) and call_name(st.value).endswith(".flush")]
    if len(flushes) != 1 or not isinstance(flushes[0].targets[0], ast.Tuple):
        raise AnalysisError("datagrams_to_send: `datagrams, packets = builder.flush()` not found")
    dvar = norm(flushes[0].targets[0].elts[0])
    bvar = call_name(flushes[0].value)[: -len(".flush")]
    rets = ds.returns()
    retvars = {norm(r.value) for r in rets if r.value is not None and not (isinstance(r.value, ast.List) and not r.value.elts)}
    ok = len(retvars) == 1
    rv = next(iter(retvars)) if ok else None
    chk.ob("R1", "datagrams_to_send returns [] or one local list", ok, f"returns {sorted(retvars)}", ds.loc(ds.node))
    if rv:
        inits = [v for st, t, v in ds.assigns(chain=rv)]
        ok = all(isinstance(v, ast.List) and not v.elts for v in inits) and len(inits) == 1
        apps = [c for c in ds.calls(name=f"{rv}.append")]
        muts = [c for c in ds.calls() if isinstance(c.func, ast.Attribute) and norm(c.func.value) == rv and c.func.attr != "append"]
        good = ok and bool(apps) and not muts
        for c in apps:
            loops = [l for l in ds.stmts(lambda s: isinstance(s, ast.For)) if inside(c, l) and norm(l.iter) == dvar]
            a = c.args[0] if c.args else None
            good = good and bool(loops) and isinstance(a, ast.Tuple) and norm(a.elts[0]) == norm(loops[0].target)
        chk.ob("R1", "every returned datagram is an element of builder.flush()", good, "the result list receives something that is not a flushed datagram", ds.loc(ds.node))
    # builder construction
    ctors = [(st, v) for st, t, v in ds.assigns(chain=bvar) if isinstance(v, ast.Call) and call_name(v) == "QuicPacketBuilder"]
    ok = len(ctors) == 1 and len(ds.assigns(chain=bvar)) == 1 and norm(get_kw(ctors[0][1], "max_datagram_size")) == "self._max_datagram_size"
    chk.ob("R1", "the builder is constructed with max_datagram_size=self._max_datagram_size", ok, "", ds.loc(ds.node))
    writers = []
    for fn in _class_fns(repo, "quic.connection", "QuicConnection"):
        for st, t, v in fn.assigns(chain="self._max_datagram_size"):
            writers.append((fn.qual, norm(v)))
    ok = writers == [("QuicConnection.__init__", "configuration.max_datagram_size")]
    chk.ob("R1", "self._max_datagram_size is assigned once, from the configuration", ok, f"writers {writers}", "")
    # inside the builder
    bw, dw, dapp = [], [], []
    for fn in _class_fns(repo, "quic.packet_builder", "QuicPacketBuilder"):
        for st, t, v in fn.assigns(chain="self._buffer"):
            bw.append((fn.qual, norm(v)))
        for st, t, v in fn.assigns(chain="self._datagrams"):
            dw.append((fn.qual, norm(v)))
        for c in fn.calls():
            if isinstance(c.func, ast.Attribute) and norm(c.func.value) == "self._datagrams":
                dapp.append((fn.qual, c.func.attr, norm(c.args[0]) if c.args else ""))
    init = Fn(repo, PB + "__init__")
    ok = len(bw) == 1 and bw[0][0] == "QuicPacketBuilder.__init__" and bw[0][1] in ("Buffer(max_datagram_size)", "Buffer(capacity=max_datagram_size)")
    chk.ob("R1", "QuicPacketBuilder._buffer is allocated once: Buffer(max_datagram_size)", ok, f"writers {bw}", init.loc(init.node))
    ok = all(v == "[]" for q, v in dw) and all(k == "append" and a == "self._buffer.data" for q, k, a in dapp) and bool(dapp)
    chk.ob("R1", "QuicPacketBuilder._datagrams only ever receives self._buffer.data", ok, f"assignments {dw}, calls {dapp}", "")
    fl = Fn(repo, PB + "flush")
    r = [x for x in fl.returns() if x.value is not None]
    ok = len(r) == 1 and isinstance(r[0].value, ast.Tuple) and fl.expand(r[0].value.elts[0], 2) == "self._datagrams"
    chk.ob("R1", "flush() returns the assembled self._datagrams", ok, "", fl.loc(fl.node))
    # nothing is appended to a datagram after .data was taken (bytes are immutable; the only risk is concatenation in datagrams_to_send)
    cat = [n for n in ds.nodes(ast.BinOp) if isinstance(n.op, ast.Add) and any(x in chains_in(n) for x in ("datagram",))]
    chk.ob("R1", "datagrams_to_send does not extend a flushed datagram", not cat, f"{[norm(c) for c in cat]}", ds.loc(ds.node))


def r2(repo, chk):
    ep = Fn(repo, PB + "_end_packet")
    sp = Fn(repo, PB + "start_packet")
    fd = Fn(repo, PB + "_flush_current_datagram")
    sets, clears = [], []
    for fn in _class_fns(repo, "quic.packet_builder", "QuicPacketBuilder"):
        for st, t, v in fn.assigns(chain="self._datagram_needs_padding"):
            if isinstance(v, ast.Constant) and v.value is True:
                sets.append((fn, st))
            else:
                clears.append((fn, st, v))
    good = False
    for fn, st in sets:
        lg = fn.lexical_guards(st, expand=False)
        need = {("(self._is_client or self._packet.is_ack_eliciting)", True), natom("self._packet_type == QuicPacketType.INITIAL")}
        allowed = need | {natom("packet_size > self._header_size")}
        if fn.qual == "QuicPacketBuilder._end_packet" and need <= set(lg) and not [a for a in lg if a not in allowed]:
            good = True
    chk.ob("R2", "_end_packet marks the datagram for padding exactly for (client or ack-eliciting) Initial packets", good and len(sets) == 1, f"{[(f.qual, f.lexical_guards(s, expand=False)) for f, s in sets]}", ep.loc(ep.node))
    # the packet's ack-eliciting flag is final when _end_packet runs: set only by start_frame
    for fn, st, v in clears:
        if fn.qual == "QuicPacketBuilder.__init__":
            continue
        if fn.qual == "QuicPacketBuilder.start_packet":
            ok = ("self._datagram_init", True) in fn.lexical_guards(st, expand=False)
            chk.ob("R2", "start_packet clears the padding flag only when a new datagram is initialised", ok, "", fn.loc(st))
        elif fn.qual == "QuicPacketBuilder._end_packet":
            lg = fn.lexical_guards(st, expand=False)
            ok = ("self._datagram_needs_padding", True) in lg and natom("self._packet_type == QuicPacketType.ONE_RTT") in lg
            pads = [s2 for s2, t2, v2 in fn.assigns(chain="padding_size") if inside(s2, st._parent)]
            chk.ob("R2", "_end_packet clears the padding flag only after padding inside a 1-RTT packet", ok and bool(pads), "", fn.loc(st))
        else:
            chk.ob("R2", f"{fn.qual}: `{norm(st)}` does not drop a pending padding obligation", False, "unexpected writer", fn.loc(st))
    # datagram init resets the flag: the flush sets _datagram_init
    ok = any(isinstance(v, ast.Constant) and v.value is True for st, t, v in fd.assigns(chain="self._datagram_init"))
    chk.ob("R2", "_flush_current_datagram re-arms datagram initialisation", ok, "", fd.loc(fd.node))

    # end-of-datagram padding
    pushes = [c for c in fd.calls(name="self._buffer.push_bytes")]
    target = None
    for c in pushes:
        lg = fd.lexical_guards(c, expand=False)
        if ("self._datagram_needs_padding", True) not in lg:
            continue
        a = c.args[0]
        if isinstance(a, ast.Call) and call_name(a) == "bytes" and a.args:
            size = fd._expand(a.args[0], 3, set())
            if isinstance(size, ast.BinOp) and isinstance(size.op, ast.Sub):
                r_ = size.right
                is_tell = norm(r_) == "self._buffer.tell()"
                if not is_tell and isinstance(r_, ast.Name):
                    # a local that still holds tell(): its last assignment before this point is `self._buffer.tell()`
                    prior = sorted([(st_.lineno, v_) for st_, t_, v_ in fd.assigns(chain=r_.id) if st_.lineno < c.lineno], key=lambda x: x[0])
                    pushes_between = [p_ for p_ in pushes if prior and prior[-1][0] < p_.lineno < c.lineno]
                    is_tell = bool(prior) and prior[-1][1] is not None and norm(prior[-1][1]) == "self._buffer.tell()" and not pushes_between
                if is_tell:
                    target = size.left
        extra = [x for x in lg if x[0] not in ("self._datagram_needs_padding", "datagram_bytes") and "extra_bytes > 0" not in x[0] and "> 0" not in x[0]]
        chk.ob("R2", "_flush_current_datagram pads whenever the flag is set", not extra, f"additional conditions {extra}", fd.loc(c))
    chk.ob("R2", "_flush_current_datagram pads a marked datagram up to a target size", target is not None, "padding push of `bytes(target - tell())` under the flag not found", fd.loc(fd.node))
    if target is None:
        return
    tname = norm(target)
    chk.ob("R2", "the pad target is the budget-clamped capacity (never the raw buffer size)", tname in ("self._flight_capacity", "self._buffer_capacity"), f"pad target `{tname}` ignores the anti-amplification budget that start_packet applied to _buffer_capacity", fd.loc(fd.node))
    # provenance of the target
    deps = _field_deps(repo, tname)
    chk.count("pad_target", tname)
    chk.count("pad_target_depends_on", sorted(deps))
    chk.ob("R2.floor", "the pad target does not depend on the congestion budget (max_flight_bytes)", "self.max_flight_bytes" not in deps, f"`{tname}` is lowered to max_flight_bytes - _flight_bytes by start_packet: with a nearly full congestion window a datagram carrying a client / ack-eliciting Initial is shorter than 1200 bytes", sp.loc(sp.node))
    floor = False
    for fn in (fd, sp):
        for n in fn.nodes(ast.Name):
            if n.id == "SMALLEST_MAX_DATAGRAM_SIZE":
                floor = True
    chk.ob("R2.floor", "the pad target does not depend on the anti-amplification budget without a 1200-byte floor (or the datagram is withheld)", "self.max_total_bytes" not in deps or floor, f"`{tname}` is lowered to max_total_bytes - _total_bytes: a server whose remaining 3x budget is below 1200 emits an ack-eliciting Initial in a short datagram instead of withholding it", sp.loc(sp.node))


def _field_deps(repo, field: str, depth=4) -> set:
    """self.<fields> and builder inputs the value of a builder field may depend on (through assignments in the class)"""
    seen = set()
    work = [field]
    fns = _class_fns(repo, "quic.packet_builder", "QuicPacketBuilder")
    while work and depth:
        nxt = []
        for f in work:
            for fn in fns:
                for st, t, v in fn.assigns(chain=f):
                    for ch in fn.closure_chains(v):
                        if ch.startswith("self.") and ch not in seen:
                            seen.add(ch)
                            nxt.append(ch)
        work = nxt
        depth -= 1
    return seen


def r3(repo, chk):
    rd = Fn(repo, CONN + "receive_datagram")
    incs = [(st, t, v) for st, t, v in rd.assigns(suffix="bytes_received") if isinstance(st, ast.AugAssign)]
    chk.ob("R3", "receive_datagram counts received bytes", len(incs) == 1, f"{len(incs)} increments of bytes_received", rd.loc(rd.node))
    for st, t, v in incs:
        path = norm(t.value)
        src = rd.expand(v, 3)
        ok = src in ("len(data)",) and isinstance(st.op, ast.Add)
        chk.ob("R3", "bytes_received grows by the whole datagram length", ok, f"adds `{src}`", rd.loc(st))
        lg = rd.lexical_guards(st, expand=False)
        ok = lg == [(f"{path}.is_validated", False)]
        chk.ob("R3", "counting is conditional only on the path being unvalidated", ok, f"guards {lg}", rd.loc(st))
        # before any processing: every return that can precede it is the END_STATES return; no loop/try before
        early = [r for r in rd.returns() if rd.cfg.reaches(rd.cfg.entry, rd.cfg.node_of(r), avoid={rd.cfg.begin[st]}) and not rd.before(st, r)]
        bad = [r for r in early if not any("END_STATES" in a[0] and a[1] for a in rd.guard_atoms(r))]
        chk.ob("R3", "no return precedes the counting except for a terminated connection", not bad, f"early returns at lines {[r.lineno for r in bad]}", rd.loc(st))
        pd = [c for c in rd.calls(suffix="decrypt_packet")] + [c for c in rd.calls(name="pull_quic_header")]
        ok = all(rd.before(st, c) or _if_before(rd, st, c) for c in pd)
        chk.ob("R3", "counting precedes header parsing and decryption (dropped packets count too)", ok, "", rd.loc(st))
        fp = [norm(v2) for s2, t2, v2 in rd.assigns(chain=path)]
        chk.ob("R3", "the counted path is the one found for the datagram's source address", fp == ["self._find_network_path(addr)"], f"{fp}", rd.loc(st))

    ds = Fn(repo, CONN + "datagrams_to_send")
    npath = [norm(v) for st, t, v in ds.assigns(chain="network_path")]
    chk.ob("R3", "datagrams_to_send sends on the current (first) network path", npath == ["self._network_paths[0]"], f"{npath}", ds.loc(ds.node))
    flushes = [st for st in ds.stmts(lambda s: isinstance(s, ast.Assign)) if isinstance(st.value, ast.Call) and call_name(st.value).endswith(".flush")]
    dvar = norm(flushes[0].targets[0].elts[0]) if flushes else "datagrams"
    sent = [(st, t, v) for st, t, v in ds.assigns(suffix="bytes_sent") if isinstance(st, ast.AugAssign)]
    ok = False
    for st, t, v in sent:
        loops = [l for l in ds.stmts(lambda s: isinstance(s, ast.For)) if inside(st, l) and norm(l.iter) == dvar]
        if loops and ds.expand(v, 3) == f"len({norm(loops[0].target)})" and norm(t.value) == "network_path":
            inner = [p for p in _ancestors(st) if isinstance(p, (ast.If, ast.Try, ast.While)) and inside(p, loops[0])]
            early = [s for s in ds.stmts(lambda s: isinstance(s, (ast.Break, ast.Continue)) and inside(s, loops[0]))]
            ok = not inner and not early
    chk.ob("R3", "bytes_sent grows by len(datagram) for every datagram returned", ok and len(sent) == 1, "sent bytes are not charged per datagram (e.g. per packet, missing trailing padding)", ds.loc(ds.node))
    # budget installation
    budget = [(st, t, v) for st, t, v in ds.assigns(suffix="max_total_bytes")]
    chk.ob("R3", "datagrams_to_send installs the anti-amplification budget", len(budget) >= 1, "builder.max_total_bytes never set", ds.loc(ds.node))
    m = ds.mod
    holders = []
    for st, t, v in budget:
        lin = _lin(repo, ds, v)
        want = Lin.sym("network_path.bytes_received").scale(3) - Lin.sym("network_path.bytes_sent")
        d = lin - want
        ok = not d.terms and d.const == 0
        chk.ob("R3", "the budget is 3 * bytes_received - bytes_sent of the sending path", ok, f"budget expression `{norm(v)}`", ds.loc(st))
        lg = ds.lexical_guards(st, expand=False)
        mine = [a for a in lg if "is_validated" in a[0]]
        chk.ob("R3", "the budget applies whenever the path is not validated", mine == [("network_path.is_validated", False)], f"guards {lg}", ds.loc(st))
        h = st._parent
        holders.append(h if isinstance(h, ast.If) else st)
    emit = [c for c in ds.calls() if call_name(c).endswith(".start_packet") or any(norm(a) == "builder" for a in c.args) or any(k.arg == "builder" for k in c.keywords)]
    n_emit = 0
    for c in emit:
        n_emit += 1
        ok = any(ds.before(h, c) for h in holders)
        chk.ob("R3", f"`{call_name(c)}` (emits packets) runs after the budget was installed", ok, "this emitting path ignores the anti-amplification budget: an unvalidated address can be sent more than 3x what it sent", ds.loc(c))
    if n_emit < 3:
        raise AnalysisError("datagrams_to_send: emitting calls not found")
    sp = Fn(repo, PB + "start_packet")
    clamp = False
    for st, t, v in sp.assigns(chain="self._buffer_capacity"):
        lg = sp.lexical_guards(st, expand=False)
        src = sp.expand(v, 3)
        if src == "self.max_total_bytes - self._total_bytes" and ("self.max_total_bytes is not None", True) in lg and any("self._buffer_capacity" in a[0] and "remaining_total_bytes" in a[0] for a in lg):
            clamp = True
    chk.ob("R3", "start_packet lowers the datagram capacity to the remaining budget", clamp, "", sp.loc(sp.node))
    fd = Fn(repo, PB + "_flush_current_datagram")
    tot = [(st, v) for st, t, v in fd.assigns(chain="self._total_bytes") if isinstance(st, ast.AugAssign)]
    ok = len(tot) == 1 and norm(tot[0][1]) == "datagram_bytes"
    chk.ob("R3", "the builder charges every flushed datagram (including trailing padding) to the budget", ok, "", fd.loc(fd.node))
    # flight capacity never exceeds buffer capacity
    fc = [(fn.qual, norm(v)) for fn in _class_fns(repo, "quic.packet_builder", "QuicPacketBuilder") for st, t, v in fn.assigns(chain="self._flight_capacity")]
    ok = all(v in ("max_datagram_size", "self._buffer_capacity", "remaining_flight_bytes") for q, v in fc)
    chk.ob("R3", "_flight_capacity is the buffer capacity, only ever lowered", ok, f"{fc}", sp.loc(sp.node))
    # writers of is_validated
    ws = []
    for mod in ("quic.connection",):
        mm = repo.mod(mod)
        for q in sorted(mm.functions):
            fn = Fn(repo, f"{mod}:{q}")
            for st, t, v in fn.assigns(suffix="is_validated"):
                if q == "QuicNetworkPath.__init__":
                    continue
                ws.append((fn, st, v))
            for c in fn.calls(name="QuicNetworkPath"):
                kw = get_kw(c, "is_validated", 1)
                if kw is not None and not (isinstance(kw, ast.Constant) and kw.value is False):
                    ws.append((fn, c, kw))
    for fn, st, v in ws:
        q = fn.qual
        if q == "QuicConnection.connect":
            ok = True
        elif q == "QuicConnection.receive_datagram":
            at = fn.guard_atoms(st)
            decs = fn.calls(suffix="decrypt_packet")
            ok = natom("epoch == tls.Epoch.HANDSHAKE") in at and any(fn.before(d, st) for d in decs)
        elif q == "QuicConnection._handle_path_response_frame":
            pops = [c for c in fn.calls(name="self._local_challenges.pop")]
            ok = bool(pops) and all(fn.before(p, st) for p in pops)
        else:
            ok = False
        chk.ob("R3", f"{q}: `{norm(st)[:60]}` validates a path only by connect(), a decrypted Handshake packet or a matching PATH_RESPONSE", ok, "a path is marked validated without proof of address ownership", fn.loc(st))
    chk.ob("R3", "is_validated has exactly the three expected writers", len(ws) == 3, f"{[(f.qual, norm(s)[:40]) for f, s, v in ws]}", "")


def _ancestors(n):
    p = getattr(n, "_parent", None)
    while p is not None:
        yield p
        p = getattr(p, "_parent", None)


def _if_before(fn, st, c):
    h = st._parent
    return isinstance(h, ast.If) and fn.before(h, c)


def _lin(repo, fn, e) -> Lin:
    c = repo.const(fn.mod, e)
    if isinstance(c, int) and not isinstance(c, bool):
        return Lin.c(c)
    if isinstance(e, ast.BinOp) and isinstance(e.op, ast.Add):
        return _lin(repo, fn, e.left) + _lin(repo, fn, e.right)
    if isinstance(e, ast.BinOp) and isinstance(e.op, ast.Sub):
        return _lin(repo, fn, e.left) - _lin(repo, fn, e.right)
    if isinstance(e, ast.BinOp) and isinstance(e.op, ast.Mult):
        a, b = repo.const(fn.mod, e.left), repo.const(fn.mod, e.right)
        if isinstance(a, int):
            return _lin(repo, fn, e.right).scale(a)
        if isinstance(b, int):
            return _lin(repo, fn, e.left).scale(b)
    return Lin.sym(norm(e))
