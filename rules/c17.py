"""C17 - wire codecs round-trip and agree with an independent codec (claimed in part).

R1  tables: long-header type codes per version are bijections equal to the RFCs and the decode tables are
    their inverses; transport-parameter ids / kinds, frame types, error codes, TLS enums and size
    constants equal reference/quic_wire_tables.json
R2  push / pull grammar symmetry: for every codec pair the sequence of primitive wire operations
    (fixed ints, varints, opaque / block / list length prefixes, extension maps) extracted from the
    encoder equals the one extracted from the decoder
R3  declared lengths are honoured: a block must end exactly where its length said; every TLS extension
    must end where its extension_length said; connection-ID lengths are compared strictly with the
    RFC maximum; a value pulled as a length is consumed as a length
R4  C primitives: push_uintN writes the bytes pull_uintN reads (big endian, all N bytes); the varint
    thresholds, prefixes and lengths agree between Buffer.push_uint_var, Buffer.pull_uint_var, Python's
    size_uint_var and RFC 9000 section 16
"""
from __future__ import annotations

import ast
import json
import os

from sa import cq, wire
from sa.cbounds import ctext, strip
from sa.pyfacts import Unknown, call_name, norm
from sa.q import Fn, inside, natom
from sa.report import AnalysisError

LEVEL = "other"
REF = os.path.join(os.path.dirname(os.path.dirname(os.path.abspath(__file__))), "reference", "quic_wire_tables.json")

# pairs confirmed to extract today; the analysed set may grow but must not silently shrink
TLS_PAIRS = ["alpn_protocol", "certificate", "certificate_request", "certificate_verify", "client_hello", "encrypted_extensions", "finished", "key_share", "new_session_ticket", "offered_psks", "psk_binder", "psk_identity", "server_hello", "server_name"]
PACKET_PAIRS = ["ack_frame", "quic_version_information"]
FRAME_PAIRS = ["crypto", "datagram", "handshake_done", "new_connection_id", "path_challenge", "path_response", "ping", "reset_stream", "retire_connection_id", "stop_sending", "stream", "streams_blocked"]
NOT_MODELLED = {"quic_preferred_address": "alternative encodings of absent addresses (zero-filled) are branches the flattened grammar cannot pair", "quic_transport_parameters": "table-driven (PARAMS) encoder / decoder: checked through R1 instead", "ack": "the ACK handler also reads ECN counts (ACK_ECN); its range encoding is the ack_frame pair", "connection_close": "two frame layouts (transport / application) in one writer"}


def run(repo, chk):
    chk.rule("R1", "constant tables and enum values equal the RFC reference; encode / decode tables are mutually inverse bijections")
    chk.rule("R2", "wire grammar of push_X equals wire grammar of pull_X (TLS messages and sub-structures, ACK ranges, version information, QUIC frames writer vs handler)")
    chk.rule("R3", "pull_block ends exactly at its declared end; every pull_extension closure checks extension_end; CID length tests are `> CONNECTION_ID_MAX_SIZE`; pulled lengths feed pull_bytes / end computations")
    chk.rule("R4", "C: byte order and count of push_uintN vs pull_uintN; varint thresholds / prefixes / lengths of push_uint_var, pull_uint_var and size_uint_var against RFC 9000 section 16")
    chk.decline("value-level round-trip equality and byte equality with a second encoder (needs execution); R1-R4 are structural necessary conditions of both")
    chk.decline("integers outside a codec's domain passed directly to the primitives (push_uint8(256), push_uint_var(2**64 + 5)): CPython's B/H/I/K units truncate silently - outside the property's quantifier; R5 decides only that TLS length prefixes do not go through those units")
    ref = json.load(open(REF))
    r1(repo, chk, ref)
    r2(repo, chk)
    r3(repo, chk, ref)
    r4(repo, chk, ref)
    r5(repo, chk)
    r2_headers(repo, chk)
    r2_presence(repo, chk)


_PRIM = {"uint8": "U8", "uint16": "U16", "uint32": "U32", "uint64": "U64", "uint_var": "VAR", "bytes": "BYTES"}


def r2_headers(repo, chk):
    """packet header writer (QuicPacketBuilder._end_packet) vs reader (pull_quic_header), path by path"""
    ph = Fn(repo, "quic.packet:pull_quic_header")
    ep = Fn(repo, "quic.packet_builder:QuicPacketBuilder._end_packet")

    def seq(fn, prefix, keep):
        out = []
        for c in sorted(fn.calls(), key=lambda c: (c.lineno, c.col_offset)):
            cn = call_name(c)
            if not cn.startswith("buf." + prefix):
                continue
            g = fn.lexical_guards(c, expand=False)
            if not keep(g, c):
                continue
            kind = _PRIM.get(cn[len("buf." + prefix) :], "?")
            if kind == "U16" and prefix == "push_" and c.args and isinstance(c.args[0], ast.BinOp) and isinstance(c.args[0].op, ast.BitOr) and 0x4000 in (repo.const(fn.mod, c.args[0].left), repo.const(fn.mod, c.args[0].right)):
                kind = "VAR"  # two-byte varint written by hand
            out.append((kind, c))
        return out

    def texts(g):
        return {a[0] for a in g if a[1]} , {a[0] for a in g if not a[1]}

    for T in ("INITIAL", "ZERO_RTT", "HANDSHAKE"):
        def keep_r(g, c, T=T):
            pos, neg = texts(g)
            if "is_long_header(first_byte)" not in pos or "QuicProtocolVersion.NEGOTIATION == version" in pos:
                return False
            for X in ("INITIAL", "ZERO_RTT", "HANDSHAKE"):
                if f"QuicPacketType.{X} == packet_type" in pos and X != T:
                    return False
            if f"QuicPacketType.{T} != packet_type" in pos:
                return False
            return True

        def keep_w(g, c, T=T):
            pos, neg = texts(g)
            if "QuicPacketType.ONE_RTT != self._packet_type" not in pos:
                return False
            if "QuicPacketType.INITIAL == self._packet_type" in pos and T != "INITIAL":
                return False
            return True

        r = [("U8", None)] + seq(ph, "pull_", keep_r)  # the first byte is pulled before the long/short test
        w = seq(ep, "push_", keep_w)
        rk, wk = [k for k, _ in r], [k for k, _ in w]
        ok = len(wk) >= 2 and wk[-1] == "U16" and rk == wk[:-1]
        chk.ob("R2", f"long header ({T}): QuicPacketBuilder writes first byte, version, DCID, SCID{', token' if T == 'INITIAL' else ''}, length, packet number in the order pull_quic_header reads them", ok, f"reader {rk}, writer {wk} (last element of the writer is the packet number, which the reader leaves to header-protection removal)", ep.loc(ep.node))
    # destination before source
    wb = [c for k, c in seq(ep, "push_", lambda g, c: "QuicPacketType.ONE_RTT != self._packet_type" in texts(g)[0]) if k == "BYTES"]
    rb = [st for st, t, v in ph.assigns(chain="destination_cid") + ph.assigns(chain="source_cid") if isinstance(v, ast.Call) and call_name(v) == "buf.pull_bytes" and "is_long_header(first_byte)" in texts(ph.lexical_guards(st, expand=False))[0]]
    rb.sort(key=lambda st: st.lineno)
    ok = len(wb) >= 2 and norm(wb[0].args[0]) == "self._peer_cid" and norm(wb[1].args[0]) == "self._host_cid" and [norm(st.targets[0]) for st in rb[:2]] == ["destination_cid", "source_cid"]
    chk.ob("R2", "long header: the peer's connection ID is written where the reader takes the destination ID, ours where it takes the source ID", ok, f"writer {[norm(c.args[0]) for c in wb[:2]]}, reader {[norm(st.targets[0]) for st in rb[:2]]}", ep.loc(ep.node))
    # short header
    rs = [("U8", None)] + seq(ph, "pull_", lambda g, c: "is_long_header(first_byte)" in texts(g)[1])
    ws = seq(ep, "push_", lambda g, c: "QuicPacketType.ONE_RTT == self._packet_type" in texts(g)[0])
    ok = [k for k, _ in rs] == ["U8", "BYTES"] and [k for k, _ in ws] == ["U8", "BYTES", "U16"] and norm(ws[1][1].args[0]) == "self._peer_cid"
    chk.ob("R2", "short header: first byte, destination connection ID, packet number", ok, f"reader {[k for k, _ in rs]}, writer {[k for k, _ in ws]}", ep.loc(ep.node))


def _field_annotation(mod, cls_ann, field: str):
    cname = norm(cls_ann) if cls_ann is not None else ""
    for n in mod.tree.body:
        if isinstance(n, ast.ClassDef) and n.name == cname:
            for st in n.body:
                if isinstance(st, ast.AnnAssign) and isinstance(st.target, ast.Name) and st.target.id == field:
                    return norm(st.annotation)
    return None


def r2_presence(repo, chk):
    """presence of an optional extension on the wire depends on its own field only (the decoder treats every extension
    as independently optional), and the long-header truncation test compares absolute offsets"""
    m = repo.mod("tls")
    n = 0
    for q in sorted(m.functions):
        if not (q.startswith("push_") and "." not in q):
            continue
        f = Fn(repo, "tls:" + q)
        msg = f.node.args.args[1].arg if len(f.node.args.args) > 1 else None
        for st in f.stmts(lambda x: isinstance(x, ast.With)):
            for it in st.items:
                c = it.context_expr
                if isinstance(c, ast.Call) and call_name(c) == "push_extension":
                    n += 1
                    lg = f.lexical_guards(st, expand=False)
                    ok = len(lg) <= 1 and all(msg is not None and a[0].startswith(msg + ".") for a in lg)
                    chk.ob("R2", f"{q}: extension {norm(c.args[1]).split('.')[-1]} is written whenever its own field is set (no other condition)", ok, f"guards {lg}: a value the decoder accepts and the message type can hold is silently dropped by the encoder", f.loc(st))
                    # "set" means `is not None` for an Optional field: a truth test also drops 0 / empty values the
                    # decoder returns and the dataclass can hold (truth tests are for bool fields only)
                    for a in lg:
                        if a[1] and " " not in a[0] and a[0].startswith(msg + "."):
                            ann = _field_annotation(m, f.node.args.args[1].annotation, a[0].split(".", 1)[1])
                            chk.ob("R2", f"{q}: presence of `{a[0]}` is decided by a truth test only because the field is a bool", ann == "bool", f"field annotated `{ann}`: a present-but-falsy value (0, empty) is encoded as absent while the decoder and the message type distinguish the two", f.loc(st))
    if n < 15:
        raise AnalysisError(f"only {n} push_extension blocks found")
    ph = Fn(repo, "quic.packet:pull_quic_header")
    ends = [(st, v) for st, t, v in ph.assigns(chain="packet_end")]
    rs = [r for r in ph.raises("ValueError") if natom("packet_end > buf.capacity") in ph.lexical_guards(r, expand=False)]
    # the assignment that the truncation test reads: the last one before the raise, in the same block
    near = sorted([(st.lineno, norm(v)) for st, v in ends if rs and st.lineno < rs[0].lineno and natom("version == QuicProtocolVersion.NEGOTIATION", False) in ph.lexical_guards(st, expand=False)])
    ok = len(rs) == 1 and bool(near) and near[-1][1] == "buf.tell() + rest_length"
    chk.ob("R3", "pull_quic_header: a long-header packet whose declared length runs past the end of the datagram is refused (absolute end offset > buffer capacity)", ok, f"packet_end = {[norm(v) for st, v in ends]}, {len(rs)} raise(s) under `packet_end > buf.capacity`: a coalesced packet that lies about its length would be returned with a length beyond the buffer", ph.loc(ph.node))


def r5(repo, chk):
    """length prefixes of TLS structures cannot be truncated silently"""
    chk.rule("R5", "TLS length prefixes are written by push_block through int.to_bytes(capacity) (which raises when the body does not fit its prefix); no tls.py writer passes a computed length to the truncating push_uint8/16/32 units of the C buffer")
    pb = Fn(repo, "tls:push_block")
    writes = [c for c in pb.calls(suffix="push_bytes")] + [c for c in pb.calls() if call_name(c).split(".")[-1] in ("push_uint8", "push_uint16", "push_uint32", "push_uint64", "push_uint_var")]
    ok = len(writes) == 1 and call_name(writes[0]).endswith("push_bytes") and writes[0].args and isinstance(writes[0].args[0], ast.Call) and call_name(writes[0].args[0]).endswith(".to_bytes") and writes[0].args[0].args and norm(writes[0].args[0].args[0]) == "capacity"
    chk.ob("R5", "push_block writes the length with length.to_bytes(capacity, ...) only", ok, f"prefix writers: {[norm(w)[:50] for w in writes]}: the C units B/H/I reduce an over-long length mod 2^8 / 2^16 / 2^32 instead of raising, so an over-long field is emitted with a lying prefix", pb.loc(pb.node))
    m = repo.mod("tls")
    n = 0
    for q in sorted(m.functions):
        fn = Fn(repo, "tls:" + q)
        for c in fn.calls():
            if call_name(c).split(".")[-1] in ("push_uint8", "push_uint16", "push_uint32") and c.args:
                n += 1
                a = c.args[0]
                txt = fn.expand(a, 2)
                bad = "len(" in txt or ".tell()" in txt or any(isinstance(x, ast.Name) and x.id in ("length", "size") for x in ast.walk(a))
                chk.ob("R5", f"{q}: `{norm(c)[:60]}` does not push a computed length through a truncating unit", not bad, f"argument `{txt[:80]}`", fn.loc(c)) if bad or True else None
    if n < 15:
        raise AnalysisError(f"only {n} fixed-width pushes found in tls.py")


def _enum(repo, modname, cls):
    m = repo.mod(modname)
    return {k: int(v) for k, v in repo.enum_members(m, repo.cls(f"{modname}:{cls}")).items() if isinstance(v, int)}


def r1(repo, chk, ref):
    pm = repo.mod("quic.packet")
    ptypes = repo.enum_members(pm, repo.cls("quic.packet:QuicPacketType"))
    inv = {v: k for k, v in ptypes.items()}
    for ver in ("1", "2"):
        enc = repo.const(pm, pm.assigns.get(f"PACKET_LONG_TYPE_ENCODE_VERSION_{ver}"))
        ok = enc is not Unknown and {inv.get(k): v for k, v in enc.items()} == ref["long_header_types"][ver]
        chk.ob("R1", f"long header type codes of QUIC v{ver} equal the RFC", ok, f"{enc}", "src/aioquic/quic/packet.py")
        ok2 = enc is not Unknown and len(set(enc.values())) == len(enc) == 4 and set(enc.values()) == {0, 1, 2, 3}
        chk.ob("R1", f"the v{ver} type code table is a bijection onto 0..3", ok2, "", "src/aioquic/quic/packet.py")
        dec = pm.assigns.get(f"PACKET_LONG_TYPE_DECODE_VERSION_{ver}")
        txt = norm(dec) if dec is not None else ""
        ok3 = txt == f"dict(((v, i) for i, v in PACKET_LONG_TYPE_ENCODE_VERSION_{ver}.items()))" or txt == f"dict(((v, i) for (i, v) in PACKET_LONG_TYPE_ENCODE_VERSION_{ver}.items()))" or txt.replace(" ", "") == f"{{v:ifori,vinPACKET_LONG_TYPE_ENCODE_VERSION_{ver}.items()}}"
        if not ok3:
            d = repo.const(pm, dec) if dec is not None else Unknown
            ok3 = d is not Unknown and enc is not Unknown and d == {v: k for k, v in enc.items()}
        chk.ob("R1", f"the v{ver} decode table is the inverse of the encode table", ok3, f"{txt[:80]}", "src/aioquic/quic/packet.py")
    ph = Fn(repo, "quic.packet:pull_quic_header")
    for st in ph.stmts(lambda s: isinstance(s, ast.Assign)):
        v = norm(st.value)
        if v.startswith("PACKET_LONG_TYPE_DECODE_VERSION_"):
            ver = v[len("PACKET_LONG_TYPE_DECODE_VERSION_")]
            at = [a for a in ph.lexical_guards(st, expand=False) if "VERSION_2" in a[0]]
            ok = len(at) == 1 and ((ver == "2") == (at[0][1] if " == " in at[0][0] else not at[0][1])) and "(first_byte & 48) >> 4" in v
            chk.ob("R1", f"pull_quic_header decodes the type bits with the table of the packet's version (v{ver})", ok, f"guards {at}", ph.loc(st))
    params = pm.assigns.get("PARAMS")
    got = {}
    if isinstance(params, ast.Dict):
        for k, v in zip(params.keys, params.values):
            kid = repo.const(pm, k)
            if isinstance(v, ast.Tuple) and len(v.elts) == 2:
                kind = norm(v.elts[1])
                kind = kind if kind in ("int", "bytes", "bool") else "struct"
                got[str(kid)] = [repo.const(pm, v.elts[0]), kind]
    dup = isinstance(params, ast.Dict) and len({repo.const(pm, k) for k in params.keys}) != len(params.keys)
    for pid, spec in ref["transport_parameters"].items():
        chk.ob("R1", f"transport parameter 0x{int(pid):02x} is {spec[0]} ({spec[1]})", got.get(pid) == spec, f"{got.get(pid)}", "src/aioquic/quic/packet.py")
    chk.ob("R1", "no transport parameter id is listed twice", not dup, "", "src/aioquic/quic/packet.py")
    ft = _enum(repo, "quic.packet", "QuicFrameType")
    chk.ob("R1", "QuicFrameType values equal RFC 9000 section 19 / RFC 9221", ft == ref["frame_types"], f"{sorted(set(ft.items()) ^ set(ref['frame_types'].items()))}", "src/aioquic/quic/packet.py")
    ec = _enum(repo, "quic.packet", "QuicErrorCode")
    chk.ob("R1", "QuicErrorCode values equal RFC 9000 section 20.1", ec == ref["error_codes"], f"{sorted(set(ec.items()) ^ set(ref['error_codes'].items()))}", "src/aioquic/quic/packet.py")
    bm = repo.mod("buffer")
    for name, val in ref["constants"].items():
        m = bm if name == "UINT_VAR_MAX" else pm
        v = repo.const(m, m.assigns.get(name)) if name in m.assigns else Unknown
        chk.ob("R1", f"{name} == {val}", v == val, f"{v}", "")
    for cls, table in ref["tls"].items():
        if cls == "versions":
            tm = repo.mod("tls")
            for n, val in table.items():
                chk.ob("R1", f"tls.{n} == 0x{val:04x}", repo.const(tm, tm.assigns.get(n)) == val, "", "src/aioquic/tls.py")
            continue
        e = _enum(repo, "tls", cls)
        bad = {k: (e.get(k), v) for k, v in table.items() if e.get(k) != v}
        chk.ob("R1", f"tls.{cls} members equal the IANA registry values", not bad, f"{bad}", "src/aioquic/tls.py")
        vals = list(e.values())
        chk.ob("R1", f"tls.{cls} has no two members with one value", len(vals) == len(set(vals)), "", "src/aioquic/tls.py")


def r2(repo, chk):
    analysed = 0
    tm, pm, cm = repo.mod("tls"), repo.mod("quic.packet"), repo.mod("quic.connection")

    def pair(mod, pull_q, push_q, label, expected):
        nonlocal analysed
        if pull_q not in mod.functions or push_q not in mod.functions:
            chk.ob("R2", f"{label}: both codec halves exist", not expected, f"{pull_q} / {push_q} missing", "")
            return
        ep, es = wire.Extractor(repo, mod, "pull"), wire.Extractor(repo, mod, "push")
        gp, gs = ep.function(mod.functions[pull_q]), es.function(mod.functions[push_q])
        d = wire.equal(gp, gs)
        unknown = ep.unknown + es.unknown
        if not expected and (d is not None or unknown):
            return  # pair outside the confirmed set that the extractor cannot model: not claimed
        analysed += 1
        chk.ob("R2", f"{label}: encoder and decoder follow the same wire grammar", d is None and not unknown, f"{d or ''} {('unmodelled callables ' + str(unknown)) if unknown else ''}", repo.loc(mod.functions[pull_q], mod), {"grammar": wire.show(gp)[:400]})

    for mod, names in ((tm, TLS_PAIRS), (pm, PACKET_PAIRS)):
        pulls = {q[5:] for q in mod.functions if q.startswith("pull_") and "." not in q}
        pushes = {q[5:] for q in mod.functions if q.startswith("push_") and "." not in q}
        for name in sorted((pulls & pushes) | set(names)):
            if name in ("block", "list", "opaque") or name in NOT_MODELLED:
                continue
            pair(mod, "pull_" + name, "push_" + name, f"{mod.name}.{name}", name in names)
    handlers = {q[len("QuicConnection._handle_") : -len("_frame")] for q in cm.functions if q.startswith("QuicConnection._handle_") and q.endswith("_frame")}
    for name in sorted(handlers | set(FRAME_PAIRS)):
        if name in NOT_MODELLED:
            continue
        w = f"QuicConnection._write_{name}_frame"
        if w not in cm.functions and name not in FRAME_PAIRS:
            continue
        pair(cm, f"QuicConnection._handle_{name}_frame", w, f"frame {name}", name in FRAME_PAIRS)
    chk.count("R2_pairs_analysed", analysed)
    chk.count("R2_pairs_not_modelled", NOT_MODELLED)
    if analysed < len(TLS_PAIRS) + len(PACKET_PAIRS) + len(FRAME_PAIRS):
        raise AnalysisError(f"only {analysed} codec pairs analysed")
    # the helpers themselves
    for k in ("block", "opaque", "list"):
        pl, ps = Fn(repo, f"tls:pull_{k}"), Fn(repo, f"tls:push_{k}")
        ok = [a.arg for a in pl.node.args.args][:2] == ["buf", "capacity"] and [a.arg for a in ps.node.args.args][:2] == ["buf", "capacity"]
        chk.ob("R2", f"pull_{k} / push_{k} take (buf, capacity)", ok, "", pl.loc(pl.node))
    pb, sb = Fn(repo, "tls:pull_block"), Fn(repo, "tls:push_block")
    # written through whatever single-definition locals the author uses; positions are told apart by whether the
    # buf.tell() they come from is evaluated before or after the `yield`
    ok = any(pb.expand(v, 4) == "int.from_bytes(buf.pull_bytes(capacity), byteorder='big')" for st, t, v in pb.assigns(chain="length"))
    ys = sb.nodes(ast.Yield)
    pushes = sb.calls(name="buf.push_bytes")
    e = sb._expand(pushes[0].args[0], 5, set()) if len(pushes) == 1 and pushes[0].args and len(ys) == 1 else None
    be = isinstance(e, ast.Call) and isinstance(e.func, ast.Attribute) and e.func.attr == "to_bytes" and [norm(x) for x in e.args] == ["capacity"] and [(k.arg, norm(k.value)) for k in e.keywords] == [("byteorder", "'big'")]
    chk.ob("R2", "block length prefixes are big-endian integers of `capacity` bytes on both sides", bool(ok and be), "", pb.loc(pb.node))
    ok = False
    if be and isinstance(e.func.value, ast.BinOp) and isinstance(e.func.value.op, ast.Sub):
        L, R = e.func.value.left, e.func.value.right
        yl = ys[0].lineno
        ok = norm(L) == "buf.tell()" and L.lineno > yl and norm(R) == "buf.tell() + capacity" and R.lineno < yl
    chk.ob("R2", "push_block writes the number of bytes pushed inside it", ok, "the prefix is (position after the body) - (position where the body started = position before the block + capacity)", sb.loc(sb.node))
    if len(ys) == 1:
        yl = ys[0].lineno
        seeks = [(c, sb._expand(c.args[0], 5, set())) for c in sb.calls(name="buf.seek") if c.args]
        pre = [x for c, x in seeks if c.lineno < yl]
        post = [(c, x) for c, x in seeks if c.lineno > yl]
        ok = [norm(x) for x in pre] == ["buf.tell() + capacity"]
        chk.ob("R2", "push_block reserves exactly `capacity` bytes for the prefix before the body is written", ok, f"{[norm(x) for x in pre]}", sb.loc(sb.node))
        ok = len(post) == 2 and len(pushes) == 1 and post[0][0].lineno < pushes[0].lineno < post[1][0].lineno
        if ok:
            first, last = post[0][1], post[1][1]
            tells = [n for n in ast.walk(first) if isinstance(n, ast.Call) and norm(n) == "buf.tell()"]
            ok = norm(first) in ("buf.tell()", "buf.tell() + capacity - capacity") and all(n.lineno < yl for n in tells) and norm(last) == "buf.tell()" and last.lineno > yl
        chk.ob("R2", "push_block writes the prefix at the reserved position and then returns to the end of the body", ok, f"{[norm(x) for c, x in post]}", sb.loc(sb.node))


def r3(repo, chk, ref):
    pb = Fn(repo, "tls:pull_block")
    rs = [r for r in pb.raises()]
    ok = len(rs) == 1 and natom("buf.tell() != end") in pb.guard_atoms(rs[0]) and any(norm(v) == "buf.tell() + length" for st, t, v in pb.assigns(chain="end"))
    ys = [n for n in pb.nodes(ast.Yield)]
    ok = ok and len(ys) == 1 and pb.cfg.reaches(pb.cfg.node_of(ys[0]), pb.cfg.node_of(rs[0]))
    chk.ob("R3", "pull_block raises unless the body stopped exactly at the declared end (neither short nor past it)", ok, f"guards {pb.guard_atoms(rs[0]) if rs else None}: a block whose fields overrun (or underrun) its declared length would be accepted", pb.loc(pb.node))
    pl = Fn(repo, "tls:pull_list")
    loops = [l for l in pl.stmts(lambda s: isinstance(s, ast.While))]
    ok = len(loops) == 1 and natom(norm(loops[0].test)) == natom("buf.tell() < end") and any(isinstance(w, ast.With) and any(call_name(i.context_expr) == "pull_block" for i in w.items if isinstance(i.context_expr, ast.Call)) for w in pl.stmts(lambda s: isinstance(s, ast.With)))
    chk.ob("R3", "pull_list reads items until the declared end, inside pull_block", ok, "", pl.loc(pl.node))
    po = Fn(repo, "tls:pull_opaque")
    # the block's own length is what is read (whatever the names), inside pull_block, and that value is returned
    withs = [w for w in po.stmts(lambda s: isinstance(s, ast.With)) if any(isinstance(i.context_expr, ast.Call) and call_name(i.context_expr) == "pull_block" and isinstance(i.optional_vars, ast.Name) for i in w.items)]
    ok = len(withs) == 1
    if ok:
        ln = next(i.optional_vars.id for i in withs[0].items if isinstance(i.optional_vars, ast.Name))
        reads = [c for c in po.calls(name="buf.pull_bytes") if inside(c, withs[0])]
        ok = len(reads) == 1 and [norm(a) for a in reads[0].args] == [ln] and all(r.value is not None and po.expand(r.value, 2) == f"buf.pull_bytes({ln})" for r in po.returns()) and bool(po.returns())
    chk.ob("R3", "pull_opaque reads exactly the declared number of bytes", ok, "", po.loc(po.node))
    tm = repo.mod("tls")
    n = 0
    for q in sorted(tm.functions):
        if q.endswith(".<locals>.pull_extension"):
            n += 1
            fn = Fn(repo, "tls:" + q)
            ends = [st for st, t, v in fn.assigns(chain="extension_end") if norm(v) == "buf.tell() + extension_length"]
            el = [st for st, t, v in fn.assigns(chain="extension_length") if norm(v) == "buf.pull_uint16()"]
            rs = [r for r in fn.raises() if natom("buf.tell() != extension_end") in fn.guard_atoms(r) and not [a for a in fn.lexical_guards(r, expand=False) if a != natom("buf.tell() != extension_end")]]
            ok = len(ends) == 1 and len(el) == 1 and len(rs) == 1 and fn.before(el[0], ends[0])
            if ok:
                # the check is the last thing on every normal path
                ok = fn.cfg.postdominates(fn.cfg.begin[rs[0]._parent], fn.cfg.done[ends[0]])
            chk.ob("R3", f"{q.split('.')[0]}: every extension must end where its extension_length says", ok, "the declared length of a known extension is ignored: a body shorter or longer than declared runs into its neighbour", fn.loc(fn.node))
    if n < 5:
        raise AnalysisError("pull_extension closures not found")
    ph = Fn(repo, "quic.packet:pull_quic_header")
    m = ph.mod
    cmax = repo.const(m, m.assigns.get("CONNECTION_ID_MAX_SIZE"))
    for var in ("destination_cid_length", "source_cid_length"):
        rs = [r for r in ph.raises("ValueError") if isinstance(r._parent, ast.If) and var in norm(r._parent.test) and "CONNECTION_ID_MAX_SIZE" in norm(r._parent.test)]
        ok = len(rs) == 1 and natom(f"{var} > CONNECTION_ID_MAX_SIZE") in ph.guard_atoms(rs[0]) and cmax == ref["constants"]["CONNECTION_ID_MAX_SIZE"]
        pulls = [c for c in ph.calls(name="buf.pull_bytes") if c.args and norm(c.args[0]) == var]
        ok = ok and len(pulls) == 1 and ph.before(rs[0]._parent, pulls[0])
        chk.ob("R3", f"pull_quic_header accepts a {var.replace('_length', '').replace('_', ' ')} of up to {ref['constants']['CONNECTION_ID_MAX_SIZE']} bytes and nothing longer", ok, f"guards {[ph.guard_atoms(r) for r in rs]}: a maximal connection ID that the encoders produce would be rejected (or an over-long one accepted)", ph.loc(ph.node))
    # generic: a pulled length is consumed as a length
    n_len = 0
    for modname in ("tls", "quic.packet", "quic.connection", "h3.connection"):
        mm = repo.mod(modname)
        for q in sorted(mm.functions):
            fn = Fn(repo, f"{modname}:{q}")
            for st, t, v in fn.assigns():
                if not (isinstance(t, ast.Name) and ("length" in t.id or t.id.endswith("_len")) and isinstance(v, ast.Call) and call_name(v).startswith("buf.pull_uint")):
                    continue
                n_len += 1
                name = t.id
                used = False
                for nnode in fn.nodes(ast.Name):
                    if nnode.id != name or not isinstance(nnode.ctx, ast.Load):
                        continue
                    p = nnode._parent
                    while p is not None and not isinstance(p, (ast.Call, ast.Compare, ast.stmt)):
                        p = getattr(p, "_parent", None)
                    if isinstance(p, ast.Call) and (call_name(p).endswith("pull_bytes") or call_name(p) in ("QuicStreamFrame",)):
                        used = True
                    if isinstance(p, ast.Compare):
                        used = True
                    if isinstance(p, ast.stmt) and isinstance(p, ast.Assign) and any("end" in norm(tt) or "pending" in norm(tt) for tt in p.targets):
                        used = True
                chk.ob("R3", f"{q}: the declared `{name}` bounds what is read", used, "a length field is parsed and then ignored", fn.loc(st))
    chk.count("R3_length_fields", n_len)
    if n_len < 10:
        raise AnalysisError("length fields not found")


# ---- R4: C primitives ---------------------------------------------------------------------------------


def _stores(fn):
    """[(shift, ormask)] for each `*(self->pos++) = expr` in source order, grouped by enclosing branch index"""
    out = []
    for n in cq.preorder(cq.body(fn)):
        if n.get("kind") == "BinaryOperator" and n.get("opcode") == "=":
            lhs, rhs = cq.kids(n)
            l = strip(lhs)
            if l.get("kind") == "UnaryOperator" and l.get("opcode") == "*" and "self->pos++" in ctext(l):
                out.append((n, _shift_mask(rhs)))
    return out


def _shift_mask(e):
    e = strip(e)
    while e.get("kind") == "CStyleCastExpr":
        e = strip(cq.kids(e)[0])
    mask = 0
    if e.get("kind") == "BinaryOperator" and e.get("opcode") == "|":
        a, b = cq.kids(e)
        mv = cq.ceval(b)
        if mv is None:
            mv = cq.ceval(a)
            a = b
        mask = mv
        e = strip(a)
        while e.get("kind") in ("CStyleCastExpr", "ParenExpr"):
            e = strip(cq.kids(e)[0])
    if e.get("kind") == "BinaryOperator" and e.get("opcode") == ">>":
        return (cq.ceval(cq.kids(e)[1]), mask)
    if e.get("kind") == "DeclRefExpr":
        return (0, mask)
    return (None, mask)


def _loads(expr, fn=None):
    """{offset k: (shift, andmask)} for an OR-tree of (cast)(*(self->pos + k) [& m]) << s"""
    out = {}
    consts = cq.const_locals(fn) if fn is not None else {}

    def deref_local(e):
        """a single-definition local that holds one loaded byte (`const uint8_t first = *(self->pos);`) stands for its initialiser"""
        if e.get("kind") == "DeclRefExpr" and e.get("referencedDecl", {}).get("name") in consts:
            name = e["referencedDecl"]["name"]
            for d in cq.preorder(cq.body(fn)):
                if d.get("kind") == "VarDecl" and d.get("name") == name and cq.kids(d):
                    x = strip(cq.kids(d)[-1])
                    while x.get("kind") in ("CStyleCastExpr", "ParenExpr"):
                        x = strip(cq.kids(x)[0])
                    return x
        return e

    def leaf(e):
        e = strip(e)
        sh = 0
        if e.get("kind") == "BinaryOperator" and e.get("opcode") == "<<":
            sh = cq.ceval(cq.kids(e)[1])
            e = strip(cq.kids(e)[0])
        while e.get("kind") in ("CStyleCastExpr", "ParenExpr"):
            e = strip(cq.kids(e)[0])
        am = None
        if e.get("kind") == "BinaryOperator" and e.get("opcode") == "&":
            am = cq.ceval(cq.kids(e)[1])
            e = strip(cq.kids(e)[0])
            while e.get("kind") in ("CStyleCastExpr", "ParenExpr"):
                e = strip(cq.kids(e)[0])
        e = deref_local(e)
        if e.get("kind") == "UnaryOperator" and e.get("opcode") == "*":
            t = (cq.rtext(fn, strip(cq.kids(e)[0])) if fn is not None else ctext(strip(cq.kids(e)[0]))).replace("(", "").replace(")", "")
            k = 0
            if t.startswith("self->pos + "):
                k = int(t[len("self->pos + ") :])
            elif t == "self->pos++":
                k = 0
            elif t != "self->pos":
                return False
            out[k] = (sh, am)
            return True
        return False

    def rec(e):
        e2 = strip(e)
        if e2.get("kind") == "BinaryOperator" and e2.get("opcode") == "|":
            a, b = cq.kids(e2)
            return rec(a) and rec(b)
        return leaf(e)

    return out if rec(expr) else None


def _shift_types(fn):
    """(shift amount, C type of the shift expression) for every `x << k` with constant k in the function"""
    out = []
    for n in cq.preorder(cq.body(fn)):
        if n.get("kind") == "BinaryOperator" and n.get("opcode") == "<<":
            k = cq.ceval(cq.kids(n)[1])
            t = n.get("type", {})
            out.append((k, t.get("desugaredQualType") or t.get("qualType") or "?", n))
    return out


_WIDTH = {"int": (31, True), "unsigned int": (32, False), "long": (63, True), "unsigned long": (64, False), "long long": (63, True), "unsigned long long": (64, False)}


def r4(repo, chk, ref):
    cu = cq.CUnit(os.path.join(repo.src, "_buffer.c"))
    # every byte shifted into place is first widened to an unsigned type that holds it: `b << 24` on a promoted int
    # overflows into the sign bit for b >= 0x80 and is sign-extended when widened to the 64-bit result
    for fname in ("Buffer_pull_uint16", "Buffer_pull_uint32", "Buffer_pull_uint64", "Buffer_pull_uint_var"):
        fnc = cu.func(fname)
        sh = _shift_types(fnc)
        if fname != "Buffer_pull_uint16" and not sh:
            raise AnalysisError(f"{fname}: no shift expressions found")
        for k, t, node in sh:
            if k is None:
                continue
            bits, signed = _WIDTH.get(t, (0, True))
            ok = k + 8 <= bits
            chk.ob("R4", f"{fname}: byte shifted left by {k} is computed in a type that holds bit {k + 7} without touching a sign bit", ok, f"`{ctext(node)[:60]}` has type {t}: a byte >= 0x80 overflows into the sign bit and is sign-extended in the wider result (e.g. 0x80000000 decodes as 0xffffffff80000000)", cu.loc(node))
    for n in (8, 16, 32, 64):
        nb = n // 8
        ps = cu.func(f"Buffer_push_uint{n}")
        st = [s for _, s in _stores(ps)]
        ok = [s[0] for s in st] == [8 * (nb - 1 - i) for i in range(nb)] and all(s[1] == 0 for s in st)
        chk.ob("R4", f"Buffer.push_uint{n} writes {nb} byte(s), most significant first", ok, f"stores (shift, mask): {st}", cu.loc(ps))
        pl = cu.func(f"Buffer_pull_uint{n}")
        loads = None
        for node in cq.preorder(cq.body(pl)):
            if node.get("kind") in ("VarDecl",) and node.get("name") == "value" and cq.kids(node):
                loads = _loads(cq.kids(node)[0], pl)
            if node.get("kind") == "ReturnStmt" and loads is None and nb == 1:
                # pull_uint8: return PyLong_FromLong(*(self->pos++))
                for c in cq.preorder(node):
                    if c.get("kind") == "UnaryOperator" and c.get("opcode") == "*" and "self->pos++" in ctext(c):
                        loads = {0: (0, None)}
        ok = loads is not None and loads == {k: (8 * (nb - 1 - k), None) for k in range(nb)}
        chk.ob("R4", f"Buffer.pull_uint{n} reads the same {nb} byte(s) in the same order", ok, f"loads offset->(shift, mask): {loads}", cu.loc(pl))
    # varint encoder: if-chain on value <= T_i
    pv = cu.func("Buffer_push_uint_var")
    branches = []
    # the range cases: an if / else-if chain, or sequential ifs each of which returns (same thing)
    def _cases(stmts):
        out, tail = [], None
        i = 0
        while i < len(stmts):
            x = stmts[i]
            if x.get("kind") == "IfStmt" and ctext(strip(cq.kids(x)[0])).startswith("value <= "):
                node_ = x
                while node_ is not None and node_.get("kind") == "IfStmt":
                    ks = cq.kids(node_)
                    cond = strip(ks[0])
                    thr = cq.ceval(cq.kids(cond)[1]) if cond.get("kind") == "BinaryOperator" and cond.get("opcode") == "<=" and ctext(strip(cq.kids(cond)[0])) == "value" else None
                    out.append((thr, ks[1]))
                    node_ = ks[2] if len(ks) > 2 else None
                if node_ is not None:
                    tail = node_
            elif out:
                tail = {"kind": "CompoundStmt", "inner": stmts[i:]} if tail is None else tail
                break
            i += 1
        return out, tail

    raw, node = _cases(cq.kids(cq.body(pv)))
    # a case that falls through to the next `if` must end in a return, otherwise the thresholds are not exclusive
    exclusive = all(any(n.get("kind") == "ReturnStmt" for n in cq.preorder(then)) for thr, then in raw)
    for thr, then in raw:
        stores = []
        for x in cq.preorder(then):
            if x.get("kind") == "BinaryOperator" and x.get("opcode") == "=" and "self->pos++" in ctext(strip(cq.kids(x)[0])):
                stores.append(_shift_mask(cq.kids(x)[1]))
        branches.append((thr, stores))
    V = ref["varint"]
    okv = [b[0] for b in branches] == V["thresholds"]
    chk.ob("R4", "Buffer.push_uint_var switches encodings at 2^6-1, 2^14-1, 2^30-1, 2^62-1", okv, f"thresholds {[b[0] for b in branches]}", cu.loc(pv))
    for (thr, stores), ln, pre in zip(branches, V["lengths"], V["prefixes"]):
        ok = [s[0] for s in stores] == [8 * (ln - 1 - i) for i in range(ln)] and stores and stores[0][1] == pre and all(s[1] == 0 for s in stores[1:])
        chk.ob("R4", f"Buffer.push_uint_var: values <= {thr} take {ln} byte(s) with prefix 0x{pre:02x}, big endian", ok, f"stores {stores}", cu.loc(pv))
    # the too-big value raises
    tail = node
    raises = any(cq.callee(c) == "PyErr_SetString" for c in cq.calls(pv))
    chk.ob("R4", "Buffer.push_uint_var refuses values above 2^62-1", raises and len(branches) == 4 and exclusive, "", cu.loc(pv))
    # varint decoder: switch on *(pos) >> 6
    pl = cu.func("Buffer_pull_uint_var")
    sw = next((x for x in cq.preorder(cq.body(pl)) if x.get("kind") == "SwitchStmt"), None)
    ok = sw is not None and cq.rtext(pl, strip(cq.kids(sw)[0])).replace("(", "").replace(")", "") == "*self->pos >> 6"
    chk.ob("R4", "Buffer.pull_uint_var selects the length from the two most significant bits", ok, "", cu.loc(pl))
    if sw is not None:
        cases = []
        for x in cq.kids(cq.kids(sw)[1]):
            if x.get("kind") in ("CaseStmt", "DefaultStmt"):
                label = cq.ceval(cq.kids(x)[0]) if x.get("kind") == "CaseStmt" else "default"
                cases.append([label, x])
            elif cases:
                cases[-1].append(x)
        got = {}
        for c in cases:
            label = c[0]
            loads, need = None, None
            checked = 1  # CHECK_READ_BOUNDS(self, 1) precedes the switch
            for part in c[1:]:
                for n_ in cq.preorder(part):
                    if n_.get("kind") == "BinaryOperator" and n_.get("opcode") in (">", "<", ">=", "<=") and "self->end" in (ctext(strip(cq.kids(n_)[0])), ctext(strip(cq.kids(n_)[1]))):
                        # `pos + k > end`, mirrored `end < pos + k`, or the negated `pos + k <= end` of a De Morgan form
                        lhs = strip(cq.kids(n_)[0]) if ctext(strip(cq.kids(n_)[1])) == "self->end" else strip(cq.kids(n_)[1])
                        if lhs.get("kind") == "BinaryOperator" and lhs.get("opcode") == "+" and ctext(strip(cq.kids(lhs)[0])) == "self->pos":
                            k_ = cq.ceval(cq.kids(lhs)[1])
                            if k_ is not None:
                                checked = max(checked, k_)
                    if n_.get("kind") == "BinaryOperator" and n_.get("opcode") == "=" and ctext(strip(cq.kids(n_)[0])) == "value":
                        loads = _loads(cq.kids(n_)[1], pl)
                    if n_.get("kind") == "CompoundAssignOperator" and n_.get("opcode") == "+=" and ctext(strip(cq.kids(n_)[0])) == "self->pos":
                        need = cq.ceval(cq.kids(n_)[1])
                    if n_.get("kind") == "UnaryOperator" and n_.get("opcode") == "++" and need is None and "self->pos" in ctext(n_):
                        need = 1
            got[label] = (loads, need, checked)
        for idx, ln in enumerate(V["lengths"]):
            label = idx if idx < 3 else "default"
            loads, adv, checked = got.get(label, (None, None, None))
            chk.ob("R4", f"Buffer.pull_uint_var: prefix {idx} checks that all {ln} byte(s) are available before reading them", checked == ln, f"bounds check for {checked} byte(s): a varint cut off at the end of the buffer is decoded from bytes past the end (garbage value, tell() > capacity) instead of raising BufferReadError", cu.loc(pl))
            want = {k: (8 * (ln - 1 - k), 0x3F if k == 0 else None) for k in range(ln)}
            chk.ob("R4", f"Buffer.pull_uint_var: prefix {idx} reads {ln} byte(s), masks the two prefix bits, big endian", loads == want and adv == ln, f"loads {loads}, advance {adv}", cu.loc(pl))
    sv = Fn(repo, "buffer:size_uint_var")
    thr = []
    rets = []
    for st in sv.stmts(lambda s: isinstance(s, ast.If)):
        a = natom(norm(st.test))
        if a[0].startswith("") and " >= value" in a[0]:
            thr.append(repo.const(sv.mod, ast.parse(a[0].split(" >= ")[0], mode="eval").body))
            rets.append(repo.const(sv.mod, st.body[0].value) if isinstance(st.body[0], ast.Return) else None)
    ok = thr == V["thresholds"] and rets == V["lengths"] and bool(sv.raises("ValueError"))
    chk.ob("R4", "size_uint_var uses the same thresholds and lengths (and refuses larger values)", ok, f"thresholds {thr} lengths {rets}", sv.loc(sv.node))
