"""C03 - handshake completes only with the authentic peer (claimed in part).

R1  verification dominates progress (signature, certificate chain/name/dates,
    Finished MAC, PSK binder) and failures raise
R2  transcript coverage: every dispatched transcript message is hashed whole on
    every normal path; every pushed transcript message is inside push_message
R3  transport parameters authenticate the connection IDs / version
R4  no silent fallback in negotiate()
"""
from __future__ import annotations

import ast

from sa.linear import Lin
from sa.pyfacts import attr_chain, call_name, norm
from sa.q import natom, Fn, flatten_cond, inside, raise_class, raise_kw
from sa.report import AnalysisError

from . import tlsfacts as T
from .c11 import load_ref, transitions_after, transitions_and_typestate

LEVEL = "other"

TRANSCRIPT_EXEMPT = {
    "Context._server_handle_finished": "the expected client Finished is hashed in advance by _server_expect_finished",
    "Context._client_handle_new_session_ticket": "NewSessionTicket is not part of the handshake transcript (RFC 8446 4.4.1)",
}


def lin_of(fn: Fn, e: ast.expr) -> Lin:
    """ast arithmetic over +/- with opaque atoms -> Lin (locals inlined)"""
    e = fn._expand(e, 5, set())

    def rec(x) -> Lin:
        if isinstance(x, ast.Constant) and isinstance(x.value, int):
            return Lin.c(x.value)
        if isinstance(x, ast.BinOp) and isinstance(x.op, ast.Add):
            return rec(x.left) + rec(x.right)
        if isinstance(x, ast.BinOp) and isinstance(x.op, ast.Sub):
            return rec(x.left) - rec(x.right)
        return Lin.sym(norm(x))

    return rec(e)


def run(repo, chk):
    chk.rule("R1", "certificate-verify signature check, certificate validation, Finished MAC and PSK binder comparisons dominate every state transition / key release they authorise, and each failure path raises")
    chk.rule("R2", "each dispatched transcript message is fed whole to key_schedule.update_hash on every normal path (or by adjacent slices that tile [0, tell())); every push_<message> of a transcript message is inside `with push_message(...)`")
    chk.rule("R3", "initial_source_connection_id / original_destination_connection_id / retry_source_connection_id / chosen_version are compared with the locally recorded values and a mismatch raises TRANSPORT_PARAMETER_ERROR / VERSION_NEGOTIATION_ERROR; a missing transport-parameter extension raises")
    chk.rule("R4", "negotiate() for mandatory options is called with an alert; negotiate returns only members of supported that are in offered")
    chk.decline("equality of the two endpoints' secrets and reported parameters (a relation between two runs)")
    chk.decline("'changing any byte prevents completion' as such; R2 decides the necessary condition that every byte is in the transcript")
    chk.trust("cryptography / pyOpenSSL / service_identity behave as documented (verify raises InvalidSignature, verify_certificate raises X509StoreContextError, hostname check raises VerificationError)")

    m = repo.mod("tls")
    ref = load_ref()
    d = T.Dispatch(repo)

    # ---- R1: inside _check_certificate_verify_signature ----------------------------
    f = Fn(repo, T.CTX + "_check_certificate_verify_signature")
    ver = f.calls(suffix="verify")
    ver = [c for c in ver if call_name(c).endswith("public_key.verify") or call_name(c) == "public_key.verify"]
    chk.ob("R1", "_check_certificate_verify_signature: public_key.verify(...) is called", bool(ver), "signature verification call vanished", f.loc(f.node))
    for c in ver:
        txt = " ".join(f.expand(a, 3) for a in c.args)
        chk.ob("R1", "_check_certificate_verify_signature: verified data is the transcript-derived certificate_verify_data", "certificate_verify_data(" in txt and "verify.signature" in txt.replace(" ", ""), f"arguments: {txt[:160]}", f.loc(c))
        chk.ob("R1", "_check_certificate_verify_signature: verify() uses the peer certificate's key", "self._peer_certificate.public_key()" in f.expand(c.func, 4), f"receiver {f.expand(c.func, 4)[:120]}", f.loc(c))
        hs = f.enclosing_handlers(c)
        inv = [h for h in hs if h.type is not None and "InvalidSignature" in norm(h.type)]
        ok = bool(inv) and all(any(isinstance(x, ast.Raise) for x in h.body) for h in inv)
        broad = [h for h in hs if h.type is None or norm(h.type) in ("Exception", "BaseException")]
        ok = ok and all(any(isinstance(x, ast.Raise) for x in h.body) for h in broad)
        chk.ob("R1", "_check_certificate_verify_signature: InvalidSignature is converted to an alert, never swallowed", ok, "an except clause around verify() does not re-raise", f.loc(c))
        # verify must lie on every normal path
        chk.ob("R1", "_check_certificate_verify_signature: verify() on every normal path", f.cfg.postdominates(f.cfg.node_of(c), f.cfg.entry), "a normal return bypasses the signature verification", f.loc(c))
    algo = [r for r in f.raises() if natom("verify.algorithm not in self._signature_algorithms") in f.lexical_guards(r, expand=False) and all(r.lineno < c.lineno for c in ver)]
    chk.ob("R1", "_check_certificate_verify_signature: unadvertised signature algorithm raises", bool(algo), "no raise guarded by `verify.algorithm not in self._signature_algorithms`", f.loc(f.node))

    # ---- R1: verify_certificate ------------------------------------------------------
    vc = Fn(repo, "tls:verify_certificate")
    for frag, what in ((["not_valid_before"], "not-yet-valid date check"), (["not_valid_after"], "expiry date check")):
        rs = [r for r in vc.raises() if any(all(x in a[0] for x in frag) and a[1] for a in vc.lexical_guards(r))]
        chk.ob("R1", f"verify_certificate: {what} raises", bool(rs), "date comparison no longer guards a raise", vc.loc(vc.node))
    sv = vc.calls(suffix="verify_certificate")
    sv = [c for c in sv if call_name(c) != "verify_certificate"]
    chk.ob("R1", "verify_certificate: chain verification call present", bool(sv), "store_ctx.verify_certificate() vanished", vc.loc(vc.node))
    for c in sv:
        chk.ob("R1", "verify_certificate: chain verification on every normal path", vc.cfg.postdominates(vc.cfg.node_of(c), vc.cfg.entry), "a normal return bypasses X509StoreContext.verify_certificate()", vc.loc(c))
        hs = vc.enclosing_handlers(c)
        ok = all(any(isinstance(x, ast.Raise) for x in h.body) for h in hs)
        chk.ob("R1", "verify_certificate: chain verification failure raises", ok, "X509StoreContextError is swallowed", vc.loc(c))
    # trust anchors come only from local configuration, never from the peer's chain
    adds = vc.calls(suffix="add_cert")
    for c in adds:
        dep = vc.closure_chains(c.args[0]) if c.args else set()
        # loop variable: find the enclosing for and its iterable
        p = c
        src = set(dep)
        for anc in _ancestors(c):
            if isinstance(anc, ast.For):
                src |= vc.closure_chains(anc.iter)
        peer = {"chain", "certificate"} & src
        chk.ob("R1", f"verify_certificate: `{norm(c)[:60]}` adds only locally configured CAs to the trust store", not peer and ("cadata" in src), f"trust store receives data depending on {sorted(src)}", vc.loc(c))
    # the public default roots are consulted only when the application configured no CA at all
    defaults = [c for c in vc.calls(suffix="load_locations") if any(isinstance(a, ast.Call) and call_name(a) == "certifi.where" for a in c.args)]
    for c in defaults:
        lg = set(vc.lexical_guards(c, expand=False))
        want = {("cadata is None", True), ("cafile is None", True), ("capath is None", True)}
        chk.ob("R1", "verify_certificate: the certifi default roots are loaded only when cadata, cafile and capath are all unset", lg == want, f"guards {sorted(lg)}: a connection configured with its own CA would also trust every public root", vc.loc(c))
    ctxs = vc.calls(suffix="X509StoreContext")
    chk.ob("R1", "verify_certificate: X509StoreContext constructed", bool(ctxs), "store context vanished", vc.loc(vc.node))
    for c in ctxs:
        ok = len(c.args) >= 3 and "certificate" in vc.closure_chains(c.args[1]) and "chain" in vc.closure_chains(c.args[2])
        chk.ob("R1", "verify_certificate: X509StoreContext(store, leaf, untrusted chain)", ok, f"arguments {[norm(a)[:40] for a in c.args]}", vc.loc(c))
    names = [c for c in vc.calls() if call_name(c).endswith(("verify_certificate_hostname", "verify_certificate_ip_address"))]
    chk.ob("R1", "verify_certificate: subject name is checked", len(names) >= 2, "hostname / IP verification call vanished", vc.loc(vc.node))
    for c in names:
        g = vc.guard_atoms_x(c)
        chk.ob("R1", f"verify_certificate: `{call_name(c).split('.')[-1]}` runs whenever server_name is given", bool(Fn.find_guards(g, "is not", True, ["server_name", "None"])) and len([a for a in g if "server_name" in a[0]]) == 1, f"guards {g}", vc.loc(c))
        hs = vc.enclosing_handlers(c)
        ok = bool(hs) and all(any(isinstance(x, ast.Raise) for x in h.body) for h in hs)
        chk.ob("R1", f"verify_certificate: `{call_name(c).split('.')[-1]}` failure raises", ok, "name mismatch is swallowed", vc.loc(c))
    # callers pass the peer's data and the configured name
    cv = Fn(repo, T.CTX + "_client_handle_certificate_verify")
    for c in cv.calls(name="verify_certificate"):
        kws = {k.arg: norm(k.value) for k in c.keywords}
        ok = kws.get("certificate") == "self._peer_certificate" and kws.get("chain") == "self._peer_certificate_chain" and kws.get("server_name") == "self._server_name" and kws.get("cadata") == "self._cadata"
        chk.ob("R1", "_client_handle_certificate_verify: verify_certificate receives the peer certificate, its chain and the configured name/CAs", ok, f"keywords {kws}", cv.loc(c))
    sp = Fn(repo, T.CTX + "_set_peer_certificate")
    for st, t, v in sp.assigns(chain="self._peer_certificate"):
        chk.ob("R1", "_set_peer_certificate: leaf is the first certificate of the message", "certificates[0][0]" in norm(v), f"assigned {norm(v)[:80]}", sp.loc(st))

    # the configuration the verification depends on is written once, by the constructor, from its parameters
    m_tls = repo.mod("tls")
    for field, param in (("_server_name", "server_name"), ("_verify_mode", None), ("_cadata", "cadata"), ("_cafile", "cafile"), ("_capath", "capath")):
        writers = []
        for q in sorted(m_tls.functions):
            if q.startswith("Context."):
                wf = Fn(repo, "tls:" + q)
                for st, t, v in wf.assigns(chain="self." + field):
                    writers.append((q, norm(v) if v is not None else None))
        okw = bool(writers) and all(q == "Context.__init__" for q, v in writers) and (param is None or all(v == param for q, v in writers))
        chk.ob("R1", f"Context.{field} (input of the certificate / name verification) is written only by __init__ from its parameter", okw, f"writers {writers}: a later overwrite changes what the peer's certificate is checked against (e.g. a cleared server name skips the name check)", "")
    # ---- R1: the dominance obligations shared with C11 --------------------------------
    transitions_after(repo, chk, ref, "R1")
    for spec in ref["key_release"]:
        fn = Fn(repo, T.CTX + spec["function"])
        if "after_failing" in spec:
            g = spec["after_failing"]
            for c in [n for dd, e, n in T.key_releases(repo, fn) if dd == spec["direction"] and e == spec["epoch"]]:
                chk.ob("R1", f"{spec['function']}: `{norm(c)[:50]}` dominated by the successful comparison {g['contains']}", bool(Fn.find_guards(fn.guard_atoms_x(c), g["op"], g["holds"], g["contains"])), f"path condition {fn.guard_atoms_x(c)}", fn.loc(c))
    # the comparison's failure raises the decrypt alert
    for fname in ("_client_handle_finished", "_server_handle_finished"):
        fn = Fn(repo, T.CTX + fname)
        rs = [r for r in fn.raises("AlertDecryptError") if Fn.find_guards(fn.lexical_guards(r), "!=", True, ["pull_finished(", ".verify_data"])]
        chk.ob("R1", f"{fname}: Finished mismatch raises AlertDecryptError", bool(rs), "no raise guarded by the verify_data comparison", fn.loc(fn.node))

    # the skip-certificate shortcut: transition graph and the writers of _session_resumed (shared with C11)
    transitions_and_typestate(repo, chk, d, ref, R2="R1.graph", R3="R1.resumed")

    # ---- R2 transcript coverage ------------------------------------------------------------
    n_handlers = 0
    for (s, t), hs in sorted(d.accepted().items()):
        h = T.handler_fn(repo, hs[0])
        n_handlers += 1
        key = f"{h.qual} hashes the whole {t}"
        if h.qual in TRANSCRIPT_EXEMPT:
            chk.note = None
            continue
        ups = [c for c in h.calls(suffix="update_hash") if "key_schedule" in call_name(c)]
        whole = [c for c in ups if c.args and norm(c.args[0]) == "input_buf.data"]
        ok = any(h.cfg.postdominates(h.cfg.node_of(c), h.cfg.entry) for c in whole)
        detail = ""
        if not ok and whole:
            # alternative: whole-message hash on one branch, tiling slices on the other
            ok, detail = _tiling(h, whole, ups)
        chk.ob("R2", key, ok, "a normally returning path does not feed the complete message to the transcript hash " + detail, h.loc(h.node))
    if n_handlers < 10:
        raise AnalysisError("fewer than 10 dispatched handlers found")
    # the pre-hash of the client's Finished
    sef = Fn(repo, T.CTX + "_server_expect_finished")
    pf = sef.calls(name="push_finished")
    uh = [c for c in sef.calls(suffix="update_hash") if c.args and norm(c.args[0]) == "buf.data"]
    ok = bool(pf) and bool(uh) and all(sef.before(p, u) for p in pf for u in uh) and any(sef.cfg.postdominates(sef.cfg.node_of(u), sef.cfg.entry) for u in uh)
    chk.ob("R2", "_server_expect_finished hashes the expected client Finished", ok, "exemption of _server_handle_finished no longer justified", sef.loc(sef.node))
    # pushes inside push_message
    transcript_pushes = ("push_client_hello", "push_server_hello", "push_encrypted_extensions", "push_certificate_request", "push_certificate", "push_certificate_verify", "push_finished")
    npush = 0
    for q in m.functions:
        if not q.startswith("Context."):
            continue
        fn = Fn(repo, "tls:" + q)
        for c in fn.calls():
            if call_name(c) in transcript_pushes:
                npush += 1
                buf = norm(c.args[0]) if c.args else ""
                withs = [a for a in _ancestors(c) if isinstance(a, ast.With) and any(isinstance(i.context_expr, ast.Call) and call_name(i.context_expr) == "push_message" and len(i.context_expr.args) == 2 and norm(i.context_expr.args[1]) == buf and "key_schedule" in norm(i.context_expr.args[0]) for i in a.items)]
                exempt = (q == "Context._server_expect_finished" and call_name(c) == "push_finished") or (q == "Context._client_send_hello" and buf == "tmp_buf")
                chk.ob("R2", f"{q}: `{call_name(c)}({buf}, ...)` inside `with push_message(<key schedule>, {buf})`", bool(withs) or exempt, "a handshake message is sent without entering the transcript hash", fn.loc(c))
    if npush < 9:
        raise AnalysisError(f"only {npush} push_<message> call sites found in tls.Context")
    pm = Fn(repo, "tls:push_message")
    ok = any("data_slice(hash_start, buf.tell())" in norm(c) for c in pm.calls(suffix="update_hash")) and any(norm(v) == "buf.tell()" for st, t, v in pm.assigns(chain="hash_start"))
    chk.ob("R2", "push_message hashes exactly the bytes pushed inside it", ok, "push_message no longer hashes [start, tell())", pm.loc(pm.node))
    ks = repo.cls("tls:KeySchedule")
    for meth in ("finished_verify_data", "certificate_verify_data", "derive_secret"):
        fn = Fn(repo, "tls:KeySchedule." + meth)
        ok = any("self.hash.copy().finalize()" in norm(x) for x in fn.nodes(ast.Call))
        chk.ob("R2", f"KeySchedule.{meth} reads the running transcript hash", ok, "does not use self.hash.copy().finalize()", fn.loc(fn.node))
    uhf = Fn(repo, "tls:KeySchedule.update_hash")
    chk.ob("R2", "KeySchedule.update_hash feeds self.hash", any(norm(c) == "self.hash.update(data)" for c in uhf.calls()), "update_hash no longer updates the running hash", uhf.loc(uhf.node))

    # ---- R3 transport parameter authentication -------------------------------------------------
    tp = Fn(repo, "quic.connection:QuicConnection._parse_transport_parameters")
    checks = [
        ("initial_source_connection_id", "self._remote_initial_source_connection_id", "TRANSPORT_PARAMETER_ERROR"),
        ("original_destination_connection_id", "self._original_destination_connection_id", "TRANSPORT_PARAMETER_ERROR"),
        ("retry_source_connection_id", "self._retry_source_connection_id", "TRANSPORT_PARAMETER_ERROR"),
        ("chosen_version", "self._crypto_packet_version", "VERSION_NEGOTIATION_ERROR"),
    ]
    for field, local, code in checks:
        rs = []
        for r in tp.raises("QuicConnectionError"):
            ec = raise_kw(r, "error_code")
            if ec is None or code not in norm(ec):
                continue
            if Fn.find_guards(tp.guard_atoms_x(r), "!=", True, [field, local]):
                rs.append(r)
        chk.ob("R3", f"_parse_transport_parameters: {field} != {local} raises {code}", bool(rs), "authentication comparison no longer guards a raise", tp.loc(tp.node))
        for r in rs:
            g = tp.lexical_guards(r)
            extra = [a for a in g if not ((field in a[0] and local in a[0]) or "from_session_ticket" in a[0] or a[0] == "self._is_client" or (field == "chosen_version" and a[0].endswith("version_information is not None")))]
            chk.ob("R3", f"_parse_transport_parameters: the {field} check is not conditional on peer input", not extra, f"additional guards {extra}", tp.loc(r))
    # who records the local reference values
    rd = Fn(repo, "quic.connection:QuicConnection.receive_datagram")
    risc = rd.assigns(chain="self._remote_initial_source_connection_id")
    chk.ob("R3", "receive_datagram records the peer's first source CID", any(norm(v) == "header.source_cid" for st, t, v in risc), "reference value for initial_source_connection_id not recorded from the packet header", rd.loc(rd.node))
    al = Fn(repo, "quic.connection:QuicConnection._alpn_handler")
    rs = [r for r in al.raises("QuicConnectionError")]
    ok = False
    for st in al.stmts(lambda s: isinstance(s, ast.For)):
        if st.orelse and any(isinstance(x, ast.Raise) for x in st.orelse) and any(call_name(c) == "self._parse_transport_parameters" for c in ast.walk(st) if isinstance(c, ast.Call)):
            ok = True
    chk.ob("R3", "_alpn_handler: missing QUIC transport parameters raises", ok, "for/else raising on a missing extension vanished", al.loc(al.node))
    # the TLS layer calls the ALPN callback on both roles before completing
    for fname in ("_client_handle_encrypted_extensions", "_server_handle_hello"):
        fn = Fn(repo, T.CTX + fname)
        cb = fn.calls(name="self.alpn_cb")
        sets = fn.calls(name="self._set_state") + fn.calls(name="self._server_expect_finished")
        ok = bool(cb) and all(any(fn.before(c, s) or Fn.find_guards(fn.guard_atoms_x(c), "truth", True, ["self.alpn_cb"]) for c in cb) for s in sets)
        chk.ob("R3", f"{fname}: alpn_cb (transport parameter validation) runs before the state advances", ok, "callback no longer precedes the transition", fn.loc(fn.node))

    # ---- R4 a server configured with ALPN protocols never completes without a common one ---------------
    shh = Fn(repo, "tls:Context._server_handle_hello")
    alpn = [c for c in shh.calls(name="negotiate") if c.args and norm(c.args[0]) == "self._alpn_protocols"]
    ok = len(alpn) == 1 and len(alpn[0].args) >= 3 and "AlertHandshakeFailure" in norm(alpn[0].args[2]) and norm(alpn[0].args[1]).endswith(".alpn_protocols")
    if ok:
        cfg_ = shh.cfg
        configured = natom("self._alpn_protocols is not None")
        # with protocols configured, no normal path through the handler avoids the negotiation (which raises when
        # nothing is common - an empty or absent client list included)
        ok = not shh.reaches_assuming(cfg_.entry, cfg_.exit, [configured], avoid={cfg_.done_of(alpn[0])}) and not [st for st, t, v in shh.assigns(chain="self._alpn_protocols")]
    chk.ob("R4", "_server_handle_hello: with ALPN protocols configured every accepted ClientHello passes the ALPN negotiation", ok, "a ClientHello without (usable) ALPN protocols completes the handshake although the server requires one of its protocols", shh.loc(shh.node))
    # ---- R4 the key schedule handed out for a cipher suite is the one built for that suite --------------
    ksp_init = Fn(repo, "tls:KeyScheduleProxy.__init__")
    ksp_sel = Fn(repo, "tls:KeyScheduleProxy.select")
    sel = [norm(r.value) for r in ksp_sel.returns() if r.value is not None]
    par = [a.arg for a in ksp_sel.node.args.args][1:2]
    table = sel[0].split("[")[0] if sel and "[" in sel[0] else None
    ok = len(sel) == 1 and bool(par) and sel[0] == f"{table}[{par[0]}]"
    built = False
    for n in ast.walk(ksp_init.node):
        # {c: KeySchedule(c) for c in suites} / dict(map(lambda c: (c, KeySchedule(c)), suites)) / table[c] = KeySchedule(c)
        if isinstance(n, ast.DictComp) and isinstance(n.key, ast.Name) and norm(n.value) == f"KeySchedule({n.key.id})":
            built = True
        if isinstance(n, ast.Lambda) and isinstance(n.body, ast.Tuple) and len(n.body.elts) == 2 and isinstance(n.body.elts[0], ast.Name) and norm(n.body.elts[1]) == f"KeySchedule({n.body.elts[0].id})":
            built = True
        if isinstance(n, ast.Assign) and isinstance(n.targets[0], ast.Subscript) and isinstance(n.targets[0].slice, ast.Name) and norm(n.value) == f"KeySchedule({n.targets[0].slice.id})":
            built = True
    chk.ob("R4", "KeyScheduleProxy.select(suite) returns the schedule constructed for exactly that suite", ok and built, f"select returns {sel}; table keyed by suite: {built}: the client would derive / report keys for another suite than the server selected", ksp_sel.loc(ksp_sel.node))
    # ---- R4 negotiate -----------------------------------------------------------------------------
    ng = Fn(repo, "tls:negotiate")
    rets = ng.returns()
    good = True
    for r in rets:
        if r.value is None or (isinstance(r.value, ast.Constant) and r.value.value is None):
            continue
        g = ng.guard_atoms(r)
        if not (isinstance(r.value, ast.Name) and any(a == (f"{r.value.id} in offered", True) for a in g)):
            good = False
    loops = [st for st in ng.stmts(lambda s: isinstance(s, ast.For))]
    good = good and any(norm(st.iter) == "supported" for st in loops)
    chk.ob("R4", "negotiate returns only elements of supported that are in offered", good, "a return value is not guarded by membership in both lists", ng.loc(ng.node))
    # "nothing matched" ends in `raise exc` unless no alert was supplied: the function has a `raise exc`, and every
    # `return None` is reached only with `exc is None` (either order of the final test)
    rz = [r for r in ng.raises() if r.exc is not None and norm(r.exc) == "exc"]
    nones = [r for r in rets if r.value is None or (isinstance(r.value, ast.Constant) and r.value.value is None)]
    ok = bool(rz) and all(natom("exc is None") in ng.guard_atoms(r) for r in nones) and not any(ng.enclosing_handlers(r) for r in rz)
    falls_off = ng.cfg.reaches(ng.cfg.entry, ng.cfg.exit, avoid={ng.cfg.begin[r] for r in rets})
    chk.ob("R4", "negotiate raises the supplied alert when nothing matches", ok and not falls_off, "raise exc vanished, or None is returned although an alert was supplied", ng.loc(ng.node))
    sh = Fn(repo, T.CTX + "_server_handle_hello")
    mand = {"peer_hello.cipher_suites": "cipher suite", "peer_hello.legacy_compression_methods": "compression", "peer_hello.signature_algorithms": "signature algorithm", "peer_hello.supported_versions": "TLS version", "peer_hello.alpn_protocols": "ALPN"}
    found = set()
    for c in sh.calls(name="negotiate"):
        off = norm(c.args[1]) if len(c.args) > 1 else ""
        if off in mand:
            found.add(off)
            has_exc = len(c.args) >= 3 and not (isinstance(c.args[2], ast.Constant) and c.args[2].value is None)
            chk.ob("R4", f"_server_handle_hello: negotiate({mand[off]}) passes an alert", has_exc, "mandatory option negotiated without an alert: falls back to None silently", sh.loc(c))
    chk.ob("R4", "_server_handle_hello: all mandatory options are negotiated", found == set(mand), f"missing negotiate() for {sorted(set(mand) - found)}", sh.loc(sh.node))
    ch = Fn(repo, T.CTX + "_client_handle_hello")
    for frag, what in (("compression_method", "compression method"), ("supported_version", "TLS version")):
        rs = [r for r in ch.raises() if Fn.find_guards(ch.lexical_guards(r), "not in", True, [frag])]
        chk.ob("R4", f"_client_handle_hello: unadvertised {what} raises", bool(rs), "membership test no longer guards a raise", ch.loc(ch.node))
    ok = any(call_name(c) == "negotiate" and len(c.args) >= 3 and "cipher_suite" in norm(c.args[1]) for c in ch.calls())
    chk.ob("R4", "_client_handle_hello: server cipher suite must be one we offered", ok, "negotiate(self._cipher_suites, [peer_hello.cipher_suite], alert) vanished", ch.loc(ch.node))


def _ancestors(n):
    p = getattr(n, "_parent", None)
    while p is not None:
        yield p
        p = getattr(p, "_parent", None)


def _tiling(h: Fn, whole, ups):
    """whole-message update on one branch of a test, adjacent data_slice updates on the other;
    the slices must tile [0, input_buf.tell())."""
    slices = []
    for c in ups:
        a = c.args[0] if c.args else None
        if isinstance(a, ast.Call) and call_name(a) == "input_buf.data_slice" and len(a.args) == 2:
            slices.append((c, lin_of(h, a.args[0]), lin_of(h, a.args[1])))
    if len(slices) < 2:
        return False, "(no slice updates found)"
    slices.sort(key=lambda s: s[0].lineno)
    start = slices[0][1]
    if not (start.is_const() and start.const == 0):
        return False, f"(first slice starts at {start})"
    for (c1, a1, b1), (c2, a2, b2) in zip(slices, slices[1:]):
        if (b1 - a2).terms or (b1 - a2).const != 0:
            return False, f"(slices not adjacent: {b1} vs {a2})"
    end = slices[-1][2]
    tell = Lin.sym("input_buf.tell()")
    if (end - tell).terms or (end - tell).const != 0:
        return False, f"(last slice ends at {end}, not input_buf.tell())"
    # every normal path passes the whole update or the last slice update, and slice updates are in order
    cfg = h.cfg
    last = slices[-1][0]
    avoid = {cfg.node_of(w) for w in whole} | {cfg.node_of(last)}
    if cfg.reaches(cfg.entry, cfg.exit, avoid=avoid):
        # flag correlation: the whole-message hash runs under `flag is None`, and the flag is
        # made non-None only after the slices were hashed
        ok = False
        for w in whole:
            lg = h.lexical_guards(w, expand=False)
            if len(lg) == 1 and lg[0][1] and lg[0][0].endswith(" is None"):
                flag = lg[0][0][: -len(" is None")]
                defs = h.assigns(chain=flag)
                test_stmt = [st for t, p, st in h.guards(w)][-1] if h.guards(w) else None
                good = bool(defs) and test_stmt is not None and cfg.postdominates(cfg.begin[test_stmt], cfg.entry)
                for st, t, v in defs:
                    is_none = isinstance(v, ast.Constant) and v.value is None
                    if not is_none and not h.before(last, st):
                        good = False
                    if is_none and not h.before(st, test_stmt):
                        good = False
                ok = ok or good
        if not ok:
            return False, "(a path avoids both the whole-message hash and the slice hashes)"
    for (c1, _, _), (c2, _, _) in zip(slices, slices[1:]):
        if not h.before(c1, c2):
            return False, "(slice updates not ordered)"
    return True, ""
