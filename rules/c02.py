"""C02 - only authentic packets are accepted; altered packets change nothing (claimed in part).

R1  every byte is authenticated: the AEAD calls receive the whole unprotected header as associated
    data and its exact complement as payload (Python call sites); in C the associated data is fed to
    the cipher before the payload, the nonce mixes all 8 bytes of the packet number into the IV, the
    tag is the last 16 bytes and a failing EVP_CipherFinal_ex raises CryptoError
R2  nothing changes before authentication: in receive_datagram every state effect that is not
    dominated by the normal return of decrypt_packet belongs to a short allow-list with reasons; the
    handlers of KeyUnavailableError / CryptoError drop the packet and continue with the next one
R3  Retry: every effect of _receive_retry_packet is inside the branch guarded by the integrity-tag
    comparison over the packet minus exactly the tag; Version Negotiation only acts in FIRSTFLIGHT
R4  constants and labels equal RFC 9001 / RFC 9369 (reference/quic_crypto_constants.json)
R5  v1 / v2 sibling agreement: every label suffix derived for one version is derived for the other
R6  key update: everything next_key_phase derives the next generation from is advanced by
    apply_key_phase; header protection keys are not touched by a key update
"""
from __future__ import annotations

import ast
import json
import os

from sa import cq
from sa.cbounds import ctext, strip
from sa.effects import MUTATORS, Purity, _calls_of, _store_targets
from sa.flow import FuncRef, Program
from sa.pyfacts import Unknown, attr_chain, call_name, get_kw, norm
from sa.q import Fn, inside, natom
from sa.report import AnalysisError

LEVEL = "other"
CONN = "quic.connection:QuicConnection."
REF = os.path.join(os.path.dirname(os.path.dirname(os.path.abspath(__file__))), "reference", "quic_crypto_constants.json")


def run(repo, chk):
    chk.rule("R1", "AEAD inputs: associated data = whole plain header, payload = its complement (Python); associated data fed first, nonce = IV xor all 8 packet-number bytes, tag = last 16 bytes, CipherFinal failure raises (C)")
    chk.rule("R2", "receive_datagram: every state effect not dominated by decrypt_packet's normal return is allow-listed with a reason; the undecryptable-packet handlers only log (and reschedule once for missing keys) and `continue`")
    chk.rule("R3", "_receive_retry_packet: all effects are inside the true branch of the integrity-tag comparison, computed over the packet minus RETRY_INTEGRITY_TAG_SIZE bytes with the original destination CID; Version Negotiation is acted upon only by a client in FIRSTFLIGHT")
    chk.rule("R4", "initial salts, Retry keys/nonces, HKDF labels per version, initial labels, cipher names and key sizes equal the RFC reference table")
    chk.rule("R5", "labels derived under the VERSION_2 guard and otherwise have the same suffix set {key, iv, hp, ku}")
    chk.rule("R6", "apply_key_phase advances secret and key_phase together with the AEAD and leaves header protection alone")
    chk.decline("bit-exact interoperability with a second implementation and packet-number expansion to the closest candidate (numeric relations)")
    chk.decline("that an altered packet is discarded for every single-bit alteration (follows from AEAD/header-protection correctness, which is the trusted base); R1/R2 decide that all bytes are covered and that nothing happens before the check")
    chk.trust("OpenSSL AEAD: EVP_CipherFinal_ex fails iff the tag does not authenticate (associated data, ciphertext, nonce, key)")
    ref = json.load(open(REF))
    prog = Program(repo)
    r1_py(repo, chk)
    r1_c(repo, chk)
    r2(repo, chk, prog)
    r3(repo, chk, prog)
    r4_r5(repo, chk, ref)
    r6(repo, chk)


# ---- R1 ----------------------------------------------------------------------------------------------


def r1_py(repo, chk):
    cc = Fn(repo, "quic.crypto:CryptoContext.decrypt_packet")
    dec = [c for c in cc.calls(suffix="decrypt") if "aead" in call_name(c)]
    chk.ob("R1", "CryptoContext.decrypt_packet calls the AEAD", len(dec) == 1, f"{len(dec)} aead.decrypt calls", cc.loc(cc.node))
    for c in dec:
        a = [norm(x) for x in c.args]
        hdr = a[1] if len(a) > 1 else ""
        ok = len(a) == 3 and a[0] == f"packet[len({hdr}):]" and isinstance(c.args[2], ast.Name)
        chk.ob("R1", "decrypt_packet: associated data is the unprotected header, payload its exact complement, nonce from the decoded packet number", ok, f"arguments {a}", cc.loc(c))
        # the header comes from header protection removal of the same packet
        defs = [st for st in cc.stmts(lambda s: isinstance(s, ast.Assign)) if isinstance(st.targets[0], ast.Tuple) and hdr in [norm(e) for e in st.targets[0].elts]]
        ok = len(defs) == 1 and isinstance(defs[0].value, ast.Call) and call_name(defs[0].value) == "self.hp.remove" and norm(defs[0].value.args[0]) == "packet"
        chk.ob("R1", "decrypt_packet: the header is the output of header-protection removal on the same packet", ok, "", cc.loc(c))
        # role, not name: the third argument is the variable last assigned from decode_packet_number(...) before the call
        pnv = c.args[2].id if len(c.args) == 3 and isinstance(c.args[2], ast.Name) else None
        asg = sorted([(st.lineno, v) for st, t, v in cc.assigns(chain=pnv)] + [(st.lineno, None) for st in cc.stmts(lambda x: isinstance(x, ast.Assign)) if isinstance(st.targets[0], ast.Tuple) and pnv in [norm(e) for e in st.targets[0].elts]], key=lambda x: x[0]) if pnv else []
        before = [(ln, v) for ln, v in asg if ln < c.lineno]
        ok = bool(before) and isinstance(before[-1][1], ast.Call) and call_name(before[-1][1]) == "decode_packet_number"
        chk.ob("R1", "decrypt_packet: the nonce uses the expanded (not the truncated) packet number", ok, f"`{pnv}` last assigned from {norm(before[-1][1]) if before and before[-1][1] is not None else 'a tuple target / nothing'}", cc.loc(c))
    ce = Fn(repo, "quic.crypto:CryptoContext.encrypt_packet")
    enc = [c for c in ce.calls(suffix="encrypt") if "aead" in call_name(c)]
    for c in enc:
        a = [norm(x) for x in c.args]
        chk.ob("R1", "encrypt_packet: aead.encrypt(payload, header, packet number)", a == ["plain_payload", "plain_header", "packet_number"], f"arguments {a}", ce.loc(c))
        hp = ce.calls(name="self.hp.apply")
        ok = len(hp) == 1 and [norm(x) for x in hp[0].args] == ["plain_header", ce.expand(hp[0].args[1], 2) and norm(hp[0].args[1])] and ce.expand(hp[0].args[1], 2) == norm(c)
        chk.ob("R1", "encrypt_packet: header protection is applied to that header and the protected payload", ok, "", ce.loc(c))
    chk.ob("R1", "CryptoContext.encrypt_packet calls the AEAD", len(enc) == 1, "", ce.loc(ce.node))
    ep = Fn(repo, "quic.packet_builder:QuicPacketBuilder._end_packet")
    calls = ep.calls(suffix="encrypt_packet")
    chk.ob("R1", "_end_packet encrypts the packet", len(calls) == 1, "", ep.loc(ep.node))
    for c in calls:
        a = c.args
        ok = False
        if len(a) == 3 and all(isinstance(x, ast.Subscript) and isinstance(x.slice, ast.Slice) for x in a[:2]):
            h, p = a[0], a[1]
            same = norm(h.value) == norm(p.value)
            lo0 = h.slice.lower is None or norm(h.slice.lower) == "0"
            tile = h.slice.upper is not None and p.slice.lower is not None and norm(h.slice.upper) == norm(p.slice.lower)
            src = ep.local_defs(norm(h.value)) if isinstance(h.value, ast.Name) else []
            whole = len(src) == 1 and norm(src[0]) == f"buf.data_slice(self._packet_start, self._packet_start + {norm(p.slice.upper) if p.slice.upper is not None else '?'})"
            ok = same and lo0 and tile and whole and norm(h.slice.upper) == "self._header_size" and norm(a[2]) == "self._packet_number"
        chk.ob("R1", "_end_packet: header and payload slices tile the whole packet [0, header_size) + [header_size, packet_size)", ok, f"arguments {[norm(x) for x in a]}", ep.loc(c))


def _stmt(fn, n):
    while not isinstance(n, ast.stmt):
        n = n._parent
    return n


def _upper_bound(fn, var: str):
    """largest value of `var` the function's argument checks let through (from `var > K` / `K < var` refusals)"""
    out = []
    for n in cq.preorder(cq.body(fn)):
        if n.get("kind") == "BinaryOperator" and n.get("opcode") in (">", "<", ">=", "<="):
            a, b = (strip(x) for x in cq.kids(n))
            op = n["opcode"]
            if ctext(b) == var and op in ("<", "<="):
                a, b, op = b, a, {"<": ">", "<=": ">="}[op]
            if ctext(a) == var and op in (">", ">="):
                k = cq.ceval(b)
                if k is not None:
                    out.append(k if op == ">" else k - 1)
    return min(out) if out else None


def r1_c(repo, chk):
    cu = cq.CUnit(os.path.join(repo.src, "_crypto.c"))
    # what the sealing side can produce, the opening side accepts: sibling agreement of the two size checks
    enc_max, dec_max = _upper_bound(cu.func("AEAD_encrypt"), "data_len"), _upper_bound(cu.func("AEAD_decrypt"), "data_len")
    ok = enc_max is not None and dec_max is not None and dec_max >= enc_max + 16
    chk.ob("R1", "AEAD_decrypt accepts every length AEAD_encrypt can produce (its limit is the encrypt limit plus the tag)", ok, f"encrypt accepts plaintext up to {enc_max} (+16 tag), decrypt refuses input above {dec_max}: genuine full-size packets are dropped as undecryptable", cu.loc(cu.func("AEAD_decrypt")))
    for fname, decrypt in (("AEAD_decrypt", True), ("AEAD_encrypt", False)):
        fn = cu.func(fname)
        # parsed argument order
        pa = [c for c in cq.calls(fn) if "PyArg_ParseTuple" in cq.callee(c)]
        if not pa:
            raise AnalysisError(f"{fname}: PyArg_ParseTuple not found")
        fmt = cq.args(pa[0])[1]
        targets = [ctext(strip(x)) for x in cq.args(pa[0])[2:]]
        ok = "y#y#K" in ctext(strip(fmt)) and targets == ["&data", "&data_len", "&associated", "&associated_len", "&pn"]
        chk.ob("R1", f"{fname}: arguments are (data, associated data, 64-bit packet number)", ok, f"format {ctext(strip(fmt))} targets {targets}", cu.loc(pa[0]))
        ups = cq.calls(fn, "EVP_CipherUpdate")
        aad = [c for c in ups if ctext(strip(cq.args(c)[1])) in ("0", "NULL", "((void *)0)", "(void *)0") and ctext(strip(cq.args(c)[3])) == "associated" and ctext(strip(cq.args(c)[4])).replace("(int)", "") == "associated_len"]
        pay = [c for c in ups if c not in aad]
        order = [c for c in cq.preorder(cq.body(fn)) if c.get("kind") == "CallExpr"]
        ok = len(aad) == 1 and len(pay) == 1 and order.index(aad[0]) < order.index(pay[0])
        chk.ob("R1", f"{fname}: the whole associated data is fed to the cipher before the payload", ok, f"{len(aad)} AAD updates, {len(pay)} payload updates", cu.loc(fn))
        if pay:
            src = ctext(strip(cq.args(pay[0])[3]))
            ln = cq.rtext(fn, cq.args(pay[0])[4], keep=("data", "data_len")).replace("(int)", "").replace("(Py_ssize_t)", "")
            want = "data_len - 16" if decrypt else "data_len"
            chk.ob("R1", f"{fname}: the payload update covers {'everything but the tag' if decrypt else 'the whole plaintext'}", src == "data" and ln.replace("(", "").replace(")", "") == want, f"EVP_CipherUpdate(..., {src}, {ln})", cu.loc(pay[0]))
        # nonce
        loops = cq.for_loops(fn)
        good = False
        detail = ""
        for l in loops:
            r = cq.loop_range(l)
            if r is None:
                continue
            var, lo, hi = r
            xs = [n for n in cq.preorder(l) if n.get("kind") == "CompoundAssignOperator" and n.get("opcode") == "^="]
            cover = set()
            idxs = set()
            for x in xs:
                lhs, rhs = cq.kids(x)
                lhs = strip(lhs)
                if lhs.get("kind") != "ArraySubscriptExpr" or not ctext(cq.kids(lhs)[0]).endswith("nonce"):
                    continue
                r2_ = strip(rhs)
                while r2_.get("kind") == "CStyleCastExpr":
                    r2_ = strip(cq.kids(r2_)[0])
                if r2_.get("kind") != "BinaryOperator" or r2_.get("opcode") != ">>" or ctext(strip(cq.kids(r2_)[0])) != "pn":
                    continue
                for i in range(lo, hi):
                    sh = cq.ceval(cq.kids(r2_)[1], {var: i})
                    ix = cq.ceval(cq.kids(lhs)[1], {var: i})
                    if sh is not None and ix is not None and sh % 8 == 0:
                        cover.add(sh // 8)
                        idxs.add((ix, sh // 8))
            detail = f"loop {var} in [{lo},{hi}) mixes packet-number bytes {sorted(cover)} into nonce positions {sorted(i for i, _ in idxs)}"
            if cover >= set(range(8)) and all(ix == 11 - b for ix, b in idxs):
                good = True
        chk.ob("R1", f"{fname}: the nonce is IV xor the packet number, all 8 bytes, right-aligned (RFC 9001 5.3)", good, detail or "no nonce loop found", cu.loc(fn))
        mc = [c for c in cq.calls(fn, "memcpy") if ctext(strip(cq.args(c)[0])).endswith("nonce") and ctext(strip(cq.args(c)[1])).endswith("iv") and cq.ceval(cq.args(c)[2]) == 12]
        chk.ob("R1", f"{fname}: the nonce starts as the 12-byte IV", len(mc) == 1, "", cu.loc(fn))
        init = [c for c in cq.calls(fn, "EVP_CipherInit_ex") if ctext(strip(cq.args(c)[3])).endswith("key") and ctext(strip(cq.args(c)[4])).endswith("nonce")]
        ok = len(init) == 1 and all(order.index(init[0]) < order.index(u) for u in ups)
        chk.ob("R1", f"{fname}: the cipher is re-initialised with (key, nonce) before any update", ok, "", cu.loc(fn))
        fin = cq.calls(fn, "EVP_CipherFinal_ex")
        chk.ob("R1", f"{fname}: EVP_CipherFinal_ex is called", len(fin) == 1, "", cu.loc(fn))
        if decrypt and fin:
            # tag position and the check of the result
            ctrl = [c for c in cq.calls(fn, "EVP_CIPHER_CTX_ctrl") if cq.ceval(cq.args(c)[2]) == 16]
            okt = len(ctrl) == 1 and cq.rtext(fn, cq.args(ctrl[0])[3], keep=("data", "data_len")).replace("(void *)", "").replace("(", "").replace(")", "") == "data + data_len - 16"
            chk.ob("R1", "AEAD_decrypt: the expected tag is the last 16 bytes of the input", okt, f"{ctext(strip(cq.args(ctrl[0])[3])) if ctrl else ''}", cu.loc(fn))
            ifs = [n for n in cq.preorder(cq.body(fn)) if n.get("kind") == "IfStmt"]
            okf = False
            stmts = cq.kids(cq.body(fn))
            fin_i = next(i for i, s in enumerate(stmts) if fin[0] in list(cq.preorder(s)))
            rets = [i for i, s in enumerate(stmts) if s.get("kind") == "ReturnStmt"]
            for i, s in enumerate(stmts[fin_i + 1 :], fin_i + 1):
                if s.get("kind") == "IfStmt":
                    cond = ctext(strip(cq.kids(s)[0]))
                    then = cq.kids(s)[1]
                    has_ret_null = any(n.get("kind") == "ReturnStmt" and ctext(strip(cq.kids(n)[0])) in ("0", "NULL", "((void *)0)", "(void *)0") for n in cq.preorder(then)) if then else False
                    raises = any(n.get("kind") == "CallExpr" and cq.callee(n).startswith("PyErr_") for n in cq.preorder(then))
                    if cond.replace(" ", "") in ("res==0", "!res", "res!=1", "res<=0") and has_ret_null and raises and not any(fin_i < r < i for r in rets):
                        okf = True
            chk.ob("R1", "AEAD_decrypt: a failing tag verification raises CryptoError before anything is returned", okf, "the result of EVP_CipherFinal_ex is not checked: forged packets would be accepted", cu.loc(fin[0]))
    # header protection (RFC 9001 5.4): 5 mask bytes from the sample at pn_offset + 4, applied to the low bits of the
    # first byte and to the packet-number bytes
    import re

    _crole: dict = {}  # C local of the function under inspection -> the role name the obligations are written in

    def _rn(t):
        for a, b in _crole.items():
            t = re.sub(r"\b%s\b" % re.escape(a), b, t)
        return t

    def sq(n):
        return _rn(re.sub(r"\s+", "", ctext(strip(n))))

    def _roles(fn, first_byte):
        """the local holding the packet-number length is the one initialised with (<first byte> & 3) + 1, the one
        holding its offset the one initialised with header_len - <that>: whatever they are called"""
        m = {}
        decls = [d for d in cq.preorder(cq.body(fn)) if d.get("kind") == "VarDecl" and cq.kids(d)]
        for d in decls:
            if re.sub(r"\s+", "", ctext(strip(cq.kids(d)[-1]))) == f"({first_byte}&3)+1":
                m[d["name"]] = "pn_length"
        for d in decls:
            t = re.sub(r"\s+", "", ctext(strip(cq.kids(d)[-1])))
            for a, b in m.items():
                t = re.sub(r"\b%s\b" % re.escape(a), b, t)
            if t == "header_len-pn_length":
                m[d["name"]] = "pn_offset"
        return {a: b for a, b in m.items() if a != b}

    fields = {}
    for n in cu.tu.get("inner", []):
        if n.get("kind") == "RecordDecl":
            fs = {f.get("name"): f.get("type", {}).get("qualType", "") for f in cq.kids(n) if f.get("kind") == "FieldDecl"}
            if "mask" in fs and "zero" in fs:
                fields = fs
    def arr(t):
        m = re.search(r"\[(\d+)\]", t or "")
        return int(m.group(1)) if m else None
    pn_max = 4
    chk.ob("R1", "HeaderProtection: the ChaCha20 keystream request (zero[]) covers the first-byte mask and 4 packet-number bytes", (arr(fields.get("zero")) or 0) >= 1 + pn_max, f"zero is {fields.get('zero')}: mask bytes beyond its length stay 0, so the last packet-number byte(s) are sent unmasked and genuine 4-byte packet numbers from a peer are mis-decoded", f"src/aioquic/{cu.file}")
    mk = cu.func("HeaderProtection_mask")
    ups = cq.calls(mk, "EVP_CipherUpdate")
    lens = sorted(sq(cq.args(c)[4]) for c in ups)
    srcs = sorted(sq(cq.args(c)[3]) for c in ups)
    outs = {sq(cq.args(c)[1]) for c in ups}
    ok = len(ups) == 2 and outs == {"self->mask"} and [l.replace("((", "(").replace("))", ")") for l in lens] == ["16", "sizeof(self->zero)"] and srcs == ["sample", "self->zero"]
    chk.ob("R1", "HeaderProtection_mask: AES-ECB of the 16-byte sample, or ChaCha20 keystream (zero input) keyed by the sample, into mask[]", ok, f"EVP_CipherUpdate sources {srcs} lengths {lens} outputs {sorted(outs)}", cu.loc(mk))
    inits = [c for c in cq.calls(mk, "EVP_CipherInit_ex") if sq(cq.args(c)[4]) == "sample"]
    chk.ob("R1", "HeaderProtection_mask: the ChaCha20 counter and nonce are the sample", len(inits) == 1, "", cu.loc(mk))
    for fname, sample_want, buf_src in (("HeaderProtection_apply", "payload+4-pn_length", None), ("HeaderProtection_remove", "packet+pn_offset+4", None)):
        fn = cu.func(fname)
        _crole.clear()
        _crole.update(_roles(fn, "header[0]" if fname.endswith("apply") else "self->buffer[0]"))
        mcs = cq.calls(fn, "HeaderProtection_mask")
        got_sample = _rn(re.sub(r"[\s()]+", "", cq.rtext(fn, cq.args(mcs[0])[1], keep=("pn_length", "pn_offset", "payload", "packet") + tuple(_crole)))) if mcs else None
        ok = len(mcs) == 1 and got_sample == sample_want
        chk.ob("R1", f"{fname}: the sample starts 4 bytes after the start of the packet number", ok, f"sample argument {got_sample}", cu.loc(fn))
        xs = [n for n in cq.preorder(cq.body(fn)) if n.get("kind") == "CompoundAssignOperator" and n.get("opcode") == "^="]
        first = sorted(sq(cq.kids(x)[1]) for x in xs if sq(cq.kids(x)[0]) == "self->buffer[0]")
        chk.ob("R1", f"{fname}: first byte: low 4 bits masked for long headers, low 5 bits for short headers", first == ["self->mask[0]&15", "self->mask[0]&31"], f"{first}", cu.loc(fn))
        long_if = [(n, sq(cq.kids(n)[0])) for n in cq.preorder(cq.body(fn)) if n.get("kind") == "IfStmt" and sq(cq.kids(n)[0]).replace("(", "").replace(")", "") in ("self->buffer[0]&128", "!self->buffer[0]&128")]
        ok = len(long_if) == 1
        if ok:
            n_, t_ = long_if[0]
            neg = t_.startswith("!")
            ks = cq.kids(n_)
            long_branch = (ks[2] if len(ks) > 2 else None) if neg else ks[1]
            ok = long_branch is not None and any(x.get("kind") == "CompoundAssignOperator" and sq(cq.kids(x)[1]) == "self->mask[0]&15" for x in cq.preorder(long_branch))
        chk.ob("R1", f"{fname}: the 4-bit mask is the one used when the long-header bit is set", ok, "", cu.loc(fn))
        good = False
        for l in cq.for_loops(fn):
            r = cq.loop_range(l)
            var = r[0] if r else None
            cond = cq.mirror_cond(strip(l["inner"][2])) if len(l.get("inner", [])) > 2 and l["inner"][2] else None
            if var is None and cond is not None and cond.get("kind") == "BinaryOperator" and cond.get("opcode") == "<" and sq(cq.kids(cond)[1]) == "pn_length":
                var = sq(cq.kids(cond)[0])
            for x in cq.preorder(l):
                if x.get("kind") == "CompoundAssignOperator" and x.get("opcode") == "^=" and var and sq(cq.kids(x)[0]) == f"self->buffer[pn_offset+{var}]" and sq(cq.kids(x)[1]) == f"self->mask[1+{var}]" and cond is not None and sq(cq.kids(cond)[1]) == "pn_length":
                    good = True
        chk.ob("R1", f"{fname}: packet-number byte i is xored with mask[1 + i] for i < pn_length", good, "", cu.loc(fn))
    rm = cu.func("HeaderProtection_remove")
    _crole.clear()
    _crole.update(_roles(rm, "self->buffer[0]"))
    decls = [n for n in cq.preorder(cq.body(rm)) if n.get("kind") == "VarDecl" and _crole.get(n.get("name"), n.get("name")) == "pn_length"]
    xs0 = [n for n in cq.preorder(cq.body(rm)) if n.get("kind") == "CompoundAssignOperator" and sq(cq.kids(n)[0]) == "self->buffer[0]"]
    order = list(cq.preorder(cq.body(rm)))
    ok = len(decls) == 1 and bool(xs0) and all(order.index(x) < order.index(decls[0]) for x in xs0) and sq(cq.kids(decls[0])[0]) == "(self->buffer[0]&3)+1"
    chk.ob("R1", "HeaderProtection_remove: the packet-number length is read from the first byte after it was unmasked", ok, "", cu.loc(rm))
    ap = cu.func("HeaderProtection_apply")
    _crole.clear()
    _crole.update(_roles(ap, "header[0]"))
    decls = [n for n in cq.preorder(cq.body(ap)) if n.get("kind") == "VarDecl" and _crole.get(n.get("name"), n.get("name")) == "pn_length"]
    ok = len(decls) == 1 and sq(cq.kids(decls[0])[0]) == "(header[0]&3)+1"
    chk.ob("R1", "HeaderProtection_apply: the packet-number length is read from the plain first byte", ok, "", cu.loc(ap))
    _crole.clear()
    chk.count("c_functions_inspected", ["AEAD_decrypt", "AEAD_encrypt", "HeaderProtection_mask", "HeaderProtection_apply", "HeaderProtection_remove"])


# ---- R2 ----------------------------------------------------------------------------------------------

ALLOW = {
    "amplification": "anti-amplification accounting must count every datagram, authenticated or not (RFC 9000 8.1)",
    "idle_first": "the idle timer of a server connection is armed by its first datagram (otherwise a connection whose first datagram is corrupt would have no timer, C09)",
    "firstflight": "server initialisation from the first Initial: only runs in FIRSTFLIGHT, which is left only after a successful decryption, so a corrupt first packet is re-initialised by the genuine one",
    "vn_retry": "Version Negotiation / Retry packets carry no AEAD protection; their gating is rule R3",
    "keys_missing": "a client that sees Handshake/1-RTT packets before it has keys retransmits its Initial flight once (RFC 9002 6.2.3); guarded by _crypto_retransmitted",
}


def _effects(prog, purity, fr, fn: Fn, st):
    """protocol-state effects of one statement (own expressions only)"""
    out = []
    fresh = purity.fresh_locals(fr)
    for t in _store_targets(st):
        if isinstance(t, ast.Name):
            continue
        root = t
        while isinstance(root, (ast.Attribute, ast.Subscript)):
            root = root.value
        if isinstance(root, ast.Name) and root.id in fresh:
            continue
        out.append(f"write {norm(t)}")
    for c in _calls_of(st):
        f = c.func
        if isinstance(f, ast.Attribute) and (f.attr in ("log_event",) or "_quic_logger" in norm(f) or "_logger" in norm(f) or "quic_logger_frames" in norm(f)):
            continue
        cals = purity.callees(fr, c)
        impure = []

        def is_fresh(e):
            r = e
            while isinstance(r, (ast.Attribute, ast.Subscript, ast.Starred)):
                r = r.value
            return isinstance(r, (ast.Constant, ast.Call, ast.BinOp, ast.Compare, ast.JoinedStr, ast.Tuple, ast.List, ast.Dict)) or (isinstance(r, ast.Name) and r.id in fresh)

        for cal in cals:
            if isinstance(cal, FuncRef):
                if cal.mod.name == "quic.logger":
                    continue
                why, written = purity.param_effects(cal)
                if why:
                    # effects on the callee's own object count when the receiver is not a fresh local
                    if getattr(cal.node, "_class", None) is not None and isinstance(f, ast.Attribute) and is_fresh(f.value) and purity._self_only(cal, 0)[0]:
                        pass
                    else:
                        impure.append(f"{cal.qual} ({why})")
                        continue
                ca = cal.node.args
                cps = [x.arg for x in ca.posonlyargs + ca.args]
                if cps and cps[0] in ("self", "cls") and isinstance(f, ast.Attribute):
                    cps = cps[1:]
                for q in written:
                    arg = None
                    if q in cps and cps.index(q) < len(c.args):
                        arg = c.args[cps.index(q)]
                    for kw in c.keywords:
                        if kw.arg == q:
                            arg = kw.value
                    if arg is not None and not is_fresh(arg):
                        impure.append(f"{cal.qual} (writes through `{norm(arg)[:40]}`)")
            elif cal[0] == "ctor":
                p, why = purity.ctor_pure(cal[1])
                if not p:
                    impure.append(cal[1])
        if impure:
            out.append(f"call {norm(f)} -> {impure[0]}")
        elif not cals and isinstance(f, ast.Attribute) and f.attr in MUTATORS:
            root = f.value
            while isinstance(root, (ast.Attribute, ast.Subscript)):
                root = root.value
            if not (isinstance(root, ast.Name) and root.id in fresh):
                out.append(f"mutate {norm(f)}")
    return out


def r2(repo, chk, prog):
    rd = Fn(repo, CONN + "receive_datagram")
    fr = prog.by_ref[CONN + "receive_datagram"]
    purity = Purity(prog)
    decs = rd.calls(suffix="decrypt_packet")
    if len(decs) != 1:
        raise AnalysisError("receive_datagram: exactly one decrypt_packet call expected")
    dec = decs[0]
    dec_try = next((p for p in _ancestors(dec) if isinstance(p, ast.Try)), None)
    chk.ob("R2", "receive_datagram decrypts inside a try with handlers for missing keys and for failed authentication", dec_try is not None and {norm(h.type) for h in dec_try.handlers if h.type is not None} >= {"KeyUnavailableError", "CryptoError"}, "", rd.loc(dec))
    n_pre = 0
    for st in rd.stmts():
        if isinstance(st, (ast.If, ast.While, ast.For, ast.Try, ast.With)):
            # compound: own expressions (tests / iterables) only
            pass
        effs = _effects(prog, purity, fr, rd, st)
        if not effs:
            continue
        if rd.before(dec, st) or inside(dec, st) and not isinstance(st, (ast.Try, ast.While, ast.For, ast.If)):
            continue  # after successful authentication (or the authentication step itself)
        n_pre += 1
        cat = _allow(rd, st, dec_try)
        chk.ob("R2", f"receive_datagram: `{norm(st).splitlines()[0][:70]}` happens only after the packet was authenticated (or is allow-listed)", cat is not None, f"state effect before decrypt_packet returned: {effs[:2]}", rd.loc(st), {"allow": cat, "reason": ALLOW.get(cat, "")} if cat else None)
    chk.count("pre_authentication_effects_allow_listed", n_pre)
    if dec_try is not None:
        for h in dec_try.handlers:
            name = norm(h.type) if h.type is not None else "bare"
            last = h.body[-1] if h.body else None
            chk.ob("R2", f"receive_datagram: `except {name}` drops the packet and continues with the next one", isinstance(last, ast.Continue), "the handler falls through to packet processing or aborts the datagram", rd.loc(h))
            for st in _stmts_in(h.body):
                effs = _effects(prog, purity, fr, rd, st)
                if not effs:
                    continue
                ok = name == "KeyUnavailableError" and _allow(rd, st, dec_try) == "keys_missing"
                chk.ob("R2", f"receive_datagram: `except {name}`: `{norm(st)[:60]}` changes no state", ok, f"{effs[:2]}", rd.loc(st))
    # the first transition out of FIRSTFLIGHT is after decryption
    trans = [c for c in rd.calls(name="self._set_state")]
    chk.ob("R2", "receive_datagram: every state transition follows successful decryption", bool(trans) and all(rd.before(dec, c) for c in trans), "", rd.loc(rd.node))
    for name in ("space.expected_packet_number", "self._peer_cid.cid", "self._spin_bit"):
        ws = rd.assigns(chain=name)
        chk.ob("R2", f"receive_datagram: `{name}` is only written after successful decryption", bool(ws) and all(rd.before(dec, st) for st, t, v in ws), "", rd.loc(rd.node))


def _allow(rd: Fn, st, dec_try):
    txt = norm(st)
    lg = rd.lexical_guards(st, expand=False)
    if ".bytes_received +=" in txt:
        return "amplification"
    if txt.startswith("self._close_at = ") and ("self._close_at is None", True) in lg:
        return "idle_first"
    if natom("self._state == QuicConnectionState.FIRSTFLIGHT") in lg and ("self._is_client", False) in lg:
        # "re-initialised by the genuine packet" holds only if the block runs for *every* packet seen in FIRSTFLIGHT:
        # nothing else (in particular no test of state the first, possibly forged, packet left behind) may guard it
        extra = [a for a in lg if a not in (natom("self._state == QuicConnectionState.FIRSTFLIGHT"), ("self._is_client", False), ("buf.eof()", False)) and "header.packet_type" not in a[0] and "self._quic_logger" not in a[0]]
        if extra:
            return None
        return "firstflight"
    if txt.startswith(("self._receive_version_negotiation_packet(", "self._receive_retry_packet(")):
        return "vn_retry"
    if dec_try is not None and any(inside(st, h) for h in dec_try.handlers if h.type is not None and norm(h.type) == "KeyUnavailableError"):
        if ("self._crypto_retransmitted", False) in lg and ("self._is_client", True) in lg and (txt.startswith("self._loss.reschedule_data(") or txt == "self._crypto_retransmitted = True"):
            return "keys_missing"
    return None


def _stmts_in(body):
    for st in body:
        yield st
        for f in ("body", "orelse", "finalbody"):
            yield from _stmts_in(getattr(st, f, []) or [])
        if isinstance(st, ast.Try):
            for h in st.handlers:
                yield from _stmts_in(h.body)


def _ancestors(n):
    p = getattr(n, "_parent", None)
    while p is not None:
        yield p
        p = getattr(p, "_parent", None)


# ---- R3 ----------------------------------------------------------------------------------------------


def r3(repo, chk, prog):
    rr = Fn(repo, CONN + "_receive_retry_packet")
    fr = prog.by_ref[CONN + "_receive_retry_packet"]
    purity = Purity(prog)
    # the gate, semantically: every state effect is dominated by (tag == computed tag) and by the other three
    # conditions, in whatever syntactic form (nested ifs, early return after the negated disjunction, ...)
    calls = [c for c in rr.calls(name="get_retry_integrity_tag")]
    chk.ob("R3", "_receive_retry_packet compares the packet's integrity tag with the computed one", len(calls) == 1, "tag computation vanished: any Retry packet would be accepted", rr.loc(rr.node))
    if len(calls) != 1:
        return
    call = calls[0]

    def gate_atoms(atoms):
        tag = [x for x in atoms if x[1] and "header.integrity_tag" in x[0] and "get_retry_integrity_tag(" in x[0] and " == " in x[0]]
        return {
            "tag": bool(tag),
            "client": ("self._is_client", True) in atoms,
            "once": ("self._retry_count", False) in atoms,
            "dcid": natom("header.destination_cid == self.host_cid") in atoms,
        }

    a = [norm(x) for x in call.args] + [f"{k.arg}={norm(k.value)}" for k in call.keywords]
    ok = len(call.args) >= 2 and a[0] == "packet_without_tag" and a[1] == "self._peer_cid.cid" and ("version=header.version" in a or (len(a) > 2 and a[2] == "header.version"))
    chk.ob("R3", "the tag is computed over the received packet minus its tag, the original destination CID and the packet's version", ok, f"arguments {a}", rr.loc(call))
    n_eff = 0
    all_gates = []
    for s2 in rr.stmts():
        effs = _effects(prog, purity, fr, rr, s2)
        if not effs:
            continue
        n_eff += 1
        g = gate_atoms(rr.guard_atoms(s2))
        all_gates.append(g)
        chk.ob("R3", f"_receive_retry_packet: `{norm(s2)[:60]}` only happens for an authentic Retry", g["tag"], f"{effs[:2]} not dominated by the successful tag comparison", rr.loc(s2))
    if n_eff < 3:
        raise AnalysisError("_receive_retry_packet: expected state effects not found (effect analysis broken)")
    incs = [s2 for s2, t2, v2 in rr.assigns(chain="self._retry_count") if isinstance(s2, ast.AugAssign) and isinstance(s2.op, ast.Add) and gate_atoms(rr.guard_atoms(s2))["tag"]]
    ok = bool(all_gates) and all(g["client"] and g["once"] and g["dcid"] for g in all_gates) and len(incs) == 1
    chk.ob("R3", "a Retry is processed only by a client, only once (the counter it tests is incremented in the accepting branch) and only when it names this connection's source ID", ok, f"gates of the effects {all_gates[:2]}, increments {len(incs)}", rr.loc(rr.node))
    rd = Fn(repo, CONN + "receive_datagram")
    for c in rd.calls(name="self._receive_retry_packet"):
        pw = get_kw(c, "packet_without_tag", 1)
        ok = pw is not None and norm(pw) == "buf.data_slice(start_off, buf.tell() - RETRY_INTEGRITY_TAG_SIZE)"
        chk.ob("R3", "receive_datagram hands over the Retry packet minus exactly RETRY_INTEGRITY_TAG_SIZE trailing bytes", ok, f"{norm(pw) if pw is not None else None}", rd.loc(c))
        so = rd.local_defs("start_off")
        chk.ob("R3", "the Retry pseudo-packet starts at the packet's first byte", len(so) == 1 and norm(so[0]) == "buf.tell()", "", rd.loc(c))
    gt = Fn(repo, "quic.packet:get_retry_integrity_tag")
    pushes = [norm(c) for c in gt.calls() if call_name(c).startswith("buf.push_")]
    ok = pushes == ["buf.push_uint8(len(original_destination_cid))", "buf.push_bytes(original_destination_cid)", "buf.push_bytes(packet_without_tag)"]
    chk.ob("R3", "get_retry_integrity_tag builds the RFC 9001 5.8 pseudo-packet (ODCID length, ODCID, packet)", ok, f"{pushes}", gt.loc(gt.node))
    encs = [c for c in gt.calls(suffix="encrypt")]
    ok = len(encs) == 1 and [norm(x) for x in encs[0].args] == ["aead_nonce", "b''", "buf.data"]
    chk.ob("R3", "the Retry tag is AES-128-GCM over the pseudo-packet as associated data with an empty plaintext", ok, "", gt.loc(gt.node))
    vn = Fn(repo, CONN + "_receive_version_negotiation_packet")
    fr2 = prog.by_ref[CONN + "_receive_version_negotiation_packet"]
    top = [s for s in vn.node.body if isinstance(s, ast.If)]
    for s2 in vn.stmts():
        effs = _effects(prog, purity, fr2, vn, s2)
        if effs:
            lg = vn.lexical_guards(s2, expand=False)
            ok = ("self._is_client", True) in lg and natom("self._state == QuicConnectionState.FIRSTFLIGHT") in lg
            chk.ob("R3", f"_receive_version_negotiation_packet: `{norm(s2)[:50]}` only for a client that has not yet processed any packet", ok, f"guards {lg}", vn.loc(s2))


# ---- R4 / R5 ------------------------------------------------------------------------------------------


def _labels(repo, fn: Fn):
    """[(label bytes, version-2 guard polarity or None)] for hkdf_expand_label calls"""
    out = []
    for c in fn.calls(name="hkdf_expand_label"):
        if len(c.args) < 3:
            continue
        lab = repo.const(fn.mod, c.args[2])
        if lab is Unknown and isinstance(c.args[2], ast.Name):
            # label chosen by an earlier (version) test: one entry per definition, with that definition's guards
            done = False
            for st, t, v in fn.assigns(chain=c.args[2].id):
                l2 = repo.const(fn.mod, v)
                pol2 = _is_v2(fn.lexical_guards(st, expand=False))
                out.append((l2, pol2 if pol2 is not None else _is_v2(fn.guard_atoms(c)), c))
                done = True
            if done:
                continue
        pol = _is_v2(fn.guard_atoms(c) + fn.lexical_guards(c, expand=False))
        out.append((lab, pol, c))
    return out


def _is_v2(atoms):
    """True / False when the atoms pin `version == VERSION_2` / its negation, None otherwise"""
    for t, pol in atoms:
        if "VERSION_2" in t:
            if " == " in t:
                return pol
            if " != " in t:
                return not pol
    return None


def r4_r5(repo, chk, ref):
    cm = repo.mod("quic.crypto")
    pm = repo.mod("quic.packet")

    def hexof(mod, name):
        v = repo.const(mod, mod.assigns.get(name)) if name in mod.assigns else Unknown
        return v.hex() if isinstance(v, bytes) else None

    for ver in ("1", "2"):
        chk.ob("R4", f"INITIAL_SALT_VERSION_{ver} equals the RFC value", hexof(cm, f"INITIAL_SALT_VERSION_{ver}") == ref["initial_salt"][ver], f"{hexof(cm, f'INITIAL_SALT_VERSION_{ver}')}", "src/aioquic/quic/crypto.py")
        chk.ob("R4", f"RETRY_AEAD_KEY_VERSION_{ver} equals the RFC value", hexof(pm, f"RETRY_AEAD_KEY_VERSION_{ver}") == ref["retry_key"][ver], "", "src/aioquic/quic/packet.py")
        chk.ob("R4", f"RETRY_AEAD_NONCE_VERSION_{ver} equals the RFC value", hexof(pm, f"RETRY_AEAD_NONCE_VERSION_{ver}") == ref["retry_nonce"][ver], "", "src/aioquic/quic/packet.py")
    vers = repo.enum_members(pm, repo.cls("quic.packet:QuicProtocolVersion"))
    chk.ob("R4", "QuicProtocolVersion.VERSION_1 / VERSION_2 numbers", vers.get("VERSION_1") == ref["version_numbers"]["1"] and vers.get("VERSION_2") == ref["version_numbers"]["2"], f"{vers}", "src/aioquic/quic/packet.py")
    chk.ob("R4", "SAMPLE_SIZE, RETRY_INTEGRITY_TAG_SIZE", repo.const(cm, cm.assigns.get("SAMPLE_SIZE")) == ref["sample_size"] and repo.const(pm, pm.assigns.get("RETRY_INTEGRITY_TAG_SIZE")) == ref["retry_tag_size"], "", "")
    # salts / retry constants selected by the right version test
    si = Fn(repo, "quic.crypto:CryptoPair.setup_initial")
    for st, t, v in si.assigns(chain="initial_salt"):
        at = [a for a in si.lexical_guards(st, expand=False) if "VERSION_2" in a[0]]
        ok = len(at) == 1 and ((norm(v) == "INITIAL_SALT_VERSION_2") == _is_v2(at))
        chk.ob("R4", f"setup_initial: `{norm(st)}` is selected by the matching version test", ok, f"guards {at}", si.loc(st))
    gt = Fn(repo, "quic.packet:get_retry_integrity_tag")
    for nm in ("aead_key", "aead_nonce"):
        for st, t, v in gt.assigns(chain=nm):
            at = [a for a in gt.lexical_guards(st, expand=False) if "VERSION_2" in a[0]]
            ok = len(at) == 1 and (norm(v).endswith("VERSION_2") == _is_v2(at))
            chk.ob("R4", f"get_retry_integrity_tag: `{norm(st)}` is selected by the matching version test", ok, f"guards {at}", gt.loc(st))
    # initial labels by role
    lab = {}
    for st in si.stmts(lambda s: isinstance(s, ast.Assign)):
        if isinstance(st.targets[0], ast.Tuple) and [norm(e) for e in st.targets[0].elts] == ["recv_label", "send_label"]:
            at = [a for a in si.lexical_guards(st, expand=False) if a[0] == "is_client"]
            vals = repo.const(si.mod, st.value)
            if at and vals is not Unknown:
                lab[at[0][1]] = vals
    if not lab:
        # the two labels assigned by separate statements in each branch
        part = {}
        for nm in ("recv_label", "send_label"):
            for st, t, v in si.assigns(chain=nm):
                at = [a for a in si.lexical_guards(st, expand=False) if a[0] == "is_client"]
                val = repo.const(si.mod, v)
                if at and val is not Unknown:
                    part.setdefault(at[0][1], {})[nm] = val
        lab = {k: (d.get("recv_label"), d.get("send_label")) for k, d in part.items()}
    want_c = (ref["initial_labels"]["server"].encode(), ref["initial_labels"]["client"].encode())
    ok = lab.get(True) == want_c and lab.get(False) == want_c[::-1]
    chk.ob("R4", "setup_initial: a client receives with 'server in' and sends with 'client in' (and vice versa)", ok, f"{lab}", si.loc(si.node))
    sends = [c for c in si.calls(suffix="setup")]
    okd = True
    for c in sends:
        sec = get_kw(c, "secret")
        side = call_name(c).split(".")[1] if "." in call_name(c) else ""
        if not (isinstance(sec, ast.Call) and call_name(sec) == "hkdf_expand_label" and norm(sec.args[2]) == f"{side}_label" and norm(sec.args[1]) == "initial_secret"):
            okd = False
    ext = si.local_defs("initial_secret")
    okd = okd and len(sends) == 2 and len(ext) == 1 and norm(ext[0]) == "hkdf_extract(algorithm, initial_salt, cid)"
    chk.ob("R4", "setup_initial: secrets are HKDF-Expand-Label(HKDF-Extract(salt, DCID), label) for each direction", okd, "", si.loc(si.node))
    # cipher table
    table = repo.const(cm, cm.assigns.get("CIPHER_SUITES"))
    tm = repo.mod("tls")
    cs = repo.enum_members(tm, repo.cls("tls:CipherSuite"))
    ok = table is not Unknown
    if ok:
        for name, spec in ref["cipher_suites"].items():
            ent = table.get(cs.get(name))
            if ent != (spec["hp"].encode(), spec["aead"].encode()):
                ok = False
    chk.ob("R4", "CIPHER_SUITES maps each TLS suite to the RFC 9001 header-protection and AEAD algorithms", ok, f"{table}", "src/aioquic/quic/crypto.py")
    chk.ob("R4", "the Initial cipher suite is AES-128-GCM-SHA256", repo.const(cm, cm.assigns.get("INITIAL_CIPHER_SUITE")) == cs.get(ref["initial_cipher_suite"]), "", "")
    # labels per version
    dk = Fn(repo, "quic.crypto:derive_key_iv_hp")
    nk = Fn(repo, "quic.crypto:next_key_phase")
    found = {True: {}, False: {}, None: {}}
    for lab_, pol, c in _labels(repo, dk) + _labels(repo, nk):
        labs = lab_ if isinstance(lab_, tuple) else (lab_,)
        for l in labs:
            if not isinstance(l, bytes):
                chk.ob("R4", f"label of `{norm(c)[:60]}` is a constant", False, "label not foldable", dk.loc(c))
                continue
            suffix = l.decode().split(" ")[-1]
            found[pol].setdefault(suffix, set()).add(l.decode())
    v2, v1, unguarded = found[True], found[False], found[None]
    for suffix in ("key", "iv", "hp", "ku"):
        got2 = v2.get(suffix, set())
        got1 = v1.get(suffix, set())
        ung = unguarded.get(suffix, set())
        ok2 = got2 == {ref["labels"]["2"][suffix]} and not (ung - {ref["labels"]["2"][suffix]} and not got2)
        chk.ob("R4", f"the '{suffix}' label under the VERSION_2 test is '{ref['labels']['2'][suffix]}'", got2 == {ref["labels"]["2"][suffix]}, f"version-2 labels {sorted(got2)}, labels used regardless of version {sorted(ung)}", dk.loc(dk.node))
        chk.ob("R4", f"the '{suffix}' label otherwise is '{ref['labels']['1'][suffix]}'", got1 == {ref["labels"]["1"][suffix]} and not ung, f"version-1 labels {sorted(got1)}, unguarded {sorted(ung)}", dk.loc(dk.node))
    s2 = set(v2) | set()
    s1 = set(v1)
    chk.ob("R5", "the label suffixes derived for QUIC v2 and for QUIC v1 are the same set", s2 == s1 and not unguarded and s1 >= {"key", "iv", "hp", "ku"}, f"v2 {sorted(s2)}, v1 {sorted(s1)}, version-independent {sorted(unguarded)}: a label used for both versions breaks interoperability of one of them (RFC 9369 3.3.2)", nk.loc(nk.node))
    # key/iv sizes
    sizes = {}
    for st, t, v in dk.assigns(chain="key_size"):
        at = dk.lexical_guards(st, expand=False)
        sizes[repo.const(dk.mod, v)] = at
    ok = set(sizes) == {16, 32}
    big = sizes.get(32, [])
    ok = ok and any("AES_256_GCM_SHA384" in a[0] and "CHACHA20_POLY1305_SHA256" in a[0] and a[1] for a in big)
    chk.ob("R4", "key size is 32 for AES-256-GCM / ChaCha20-Poly1305 and 16 otherwise; IV is 12 bytes", ok and all(repo.const(dk.mod, c.args[4]) == 12 for l, p, c in _labels(repo, dk) if isinstance(l, bytes) and l.endswith(b" iv")), f"{sizes}", dk.loc(dk.node))


# ---- R6 ----------------------------------------------------------------------------------------------


def r6(repo, chk):
    nk = Fn(repo, "quic.crypto:next_key_phase")
    ak = Fn(repo, "quic.crypto:apply_key_phase")
    p0 = nk.node.args.args[0].arg
    changed = {}
    for c in nk.calls():
        cn = call_name(c)
        if cn == "CryptoContext" or cn.endswith(".setup"):
            for k in c.keywords:
                if norm(k.value) != f"{p0}.{k.arg}":
                    changed[k.arg] = norm(k.value)
    chk.ob("R6", "next_key_phase derives a new secret from the current one and flips the key phase", set(changed) == {"key_phase", "secret"} and f"{p0}.secret" in changed.get("secret", "") and f"not {p0}.key_phase" in changed.get("key_phase", ""), f"changed fields {changed}", nk.loc(nk.node))
    a0, a1 = ak.node.args.args[0].arg, ak.node.args.args[1].arg
    copied = {attr_chain(t).split(".", 1)[1] for st, t, v in ak.assigns() if isinstance(t, ast.Attribute) and attr_chain(t) and attr_chain(t).startswith(a0 + ".") and norm(v) == f"{a1}.{attr_chain(t).split('.', 1)[1]}"}
    need = set(changed) | {"aead"}
    chk.ob("R6", f"apply_key_phase carries {sorted(need)} over to the live context", need <= copied, f"copies only {sorted(copied)}: the next key update would derive from stale state and diverge from the peer", ak.loc(ak.node))
    chk.ob("R6", "apply_key_phase leaves the header-protection key alone (RFC 9001 6: not updated)", "hp" not in copied, "", ak.loc(ak.node))
    uk = Fn(repo, "quic.crypto:CryptoPair._update_key")
    calls = [uk.expand(c, 2) for c in uk.calls(name="apply_key_phase")]
    ok = sorted(calls) == sorted(["apply_key_phase(self.recv, next_key_phase(self.recv), trigger=trigger)", "apply_key_phase(self.send, next_key_phase(self.send), trigger=trigger)"])
    chk.ob("R6", "_update_key advances both directions, each from its own context", ok, f"{calls}", uk.loc(uk.node))
    dp = Fn(repo, "quic.crypto:CryptoContext.decrypt_packet")
    nx = dp.calls(name="next_key_phase")
    ok = bool(nx) and all(any("key_phase" in a[0] and " != " in a[0] and a[1] for a in dp.guard_atoms(c)) and any("is_long_header" in a[0] and not a[1] for a in dp.guard_atoms(c)) for c in nx)
    chk.ob("R6", "decrypt_packet tries the next key generation only for a short-header packet whose key-phase bit differs", ok, "", dp.loc(dp.node))
    cp = Fn(repo, "quic.crypto:CryptoPair.decrypt_packet")
    upd = cp.calls(name="self._update_key")
    decs = cp.calls(name="self.recv.decrypt_packet")
    ok = bool(upd) and bool(decs) and all(cp.before(d, u) for d in decs for u in upd) and all(("update_key", True) in cp.guard_atoms(u) for u in upd)
    chk.ob("R6", "CryptoPair.decrypt_packet commits a remote key update only after the packet authenticated under the new keys", ok, "", cp.loc(cp.node))
