"""C18 - connection-ID lifecycle honours the peer's instructions (claimed in part).

R1  retirement is announced reliably: every place that abandons the current peer connection ID retires it
    first; RETIRE_CONNECTION_ID / NEW_CONNECTION_ID are written with the consume / re-arm pairing of
    C01-R1 / R1b (re-used here for those two frames)
R2  bounded retention and issuance: peer IDs stored are limited by the advertised active_connection_id_limit,
    pending retirements by a constant; IDs issued are limited by min(8, the peer's limit); retired IDs
    are replaced on every normal path of the RETIRE handler and when the handshake completes
R3  only eligible IDs are used: stored IDs below retire-prior-to are dropped before a new ID is chosen,
    retire-prior-to is monotone, an ID is consumed only from a non-empty list, a sequence number is
    accepted once (the set of seen numbers only grows)
R4  RETIRE_CONNECTION_ID: an unknown sequence number or the ID the packet was addressed to is a
    PROTOCOL_VIOLATION; issued IDs leave the accepted set only in that handler
"""
from __future__ import annotations

import ast

from sa.pyfacts import Unknown, call_name, get_kw, norm
from sa.q import Fn, inside, natom, raise_kw
from sa.report import AnalysisError

from . import c01

LEVEL = "other"
CONN = "quic.connection:QuicConnection."


def _conn_fns(repo):
    m = repo.mod("quic.connection")
    return [Fn(repo, f"quic.connection:{q}") for q in sorted(m.functions) if q.startswith("QuicConnection.") and ".<locals>." not in q]


def run(repo, chk):
    chk.rule("R1", "every _consume_peer_cid() is preceded by _retire_peer_cid(self._peer_cid) (directly or through the retire list of the NEW_CONNECTION_ID handler); the RETIRE_CONNECTION_ID and NEW_CONNECTION_ID writers obey the consume / re-arm pairing (C01-R1, R1b)")
    chk.rule("R2", "1 + len(_peer_cid_available) > advertised limit raises CONNECTION_ID_LIMIT_ERROR; pending retirements are bounded; _replenish_connection_ids loops under len(_host_cids) < min(8, peer limit) and runs on every normal path of the RETIRE handler and at handshake completion")
    chk.rule("R3", "the filter sequence_number >= _peer_retire_prior_to precedes _consume_peer_cid; _peer_retire_prior_to = max(...); _consume_peer_cid only with a non-empty list; _peer_cid_sequence_numbers only grows and guards acceptance")
    chk.rule("R4", "RETIRE_CONNECTION_ID for sequence >= _host_cid_seq or for the packet's own destination ID raises PROTOCOL_VIOLATION; _host_cids entries are deleted only there; receive_datagram matches destination IDs against _host_cids")
    chk.decline("the wire-level history property 'never addresses a packet to a retired ID' as such")
    r1(repo, chk)
    r2(repo, chk)
    r3(repo, chk)
    r4(repo, chk)


def r1(repo, chk):
    n = 0
    for fn in _conn_fns(repo):
        for c in fn.calls(name="self._consume_peer_cid"):
            n += 1
            rets = [r for r in fn.calls(name="self._retire_peer_cid")]
            direct = [r for r in rets if r.args and norm(r.args[0]) == "self._peer_cid" and fn.before(r, c)]
            via_list = False
            for r in rets:
                loop = next((p for p in _ancestors(r) if isinstance(p, ast.For)), None)
                if loop is not None and r.args and norm(r.args[0]) == norm(loop.target) and fn.before(loop, c):
                    lst = norm(loop.iter)
                    ins = [x for x in fn.calls(name=f"{lst}.insert") if len(x.args) == 2 and norm(x.args[1]) == "self._peer_cid"]
                    ins += [x for x in fn.calls(name=f"{lst}.append") if len(x.args) == 1 and norm(x.args[0]) == "self._peer_cid"]
                    # the flag that guards consumption also guards putting the current ID on the retire list
                    gc = {a for a in fn.guard_atoms(c) if a[1] and a[0].isidentifier()}
                    for x in ins:
                        st = x
                        while not isinstance(st, ast.stmt):
                            st = st._parent
                        blk = st._parent
                        flags = {norm(s.targets[0]) for s in getattr(blk, "body", []) if isinstance(s, ast.Assign) and isinstance(s.value, ast.Constant) and s.value.value is True}
                        if {a[0] for a in gc} & flags and isinstance(blk, ast.If) and fn.before(blk, loop):
                            via_list = True
            ok = bool(direct) or via_list
            chk.ob("R1", f"{fn.qual.split('.')[-1]}: the current peer connection ID is retired before another one is taken into use", ok, "an abandoned connection ID is never announced with RETIRE_CONNECTION_ID: the peer keeps it active and issues no replacement", fn.loc(c))
    if n < 2:
        raise AnalysisError("_consume_peer_cid call sites not found")
    # conversely: the ID in use is only retired when a replacement is then taken into use
    for fn in _conn_fns(repo):
        for r in fn.calls(name="self._retire_peer_cid"):
            if r.args and norm(r.args[0]) == "self._peer_cid":
                cons = fn.calls(name="self._consume_peer_cid")
                ok = any(fn.always_after(r, c) for c in cons)
                chk.ob("R1", f"{fn.qual.split('.')[-1]}: the connection ID in use is retired only when another one is then taken into use", ok, "RETIRE_CONNECTION_ID is announced for the ID the endpoint keeps addressing packets to (no spare ID available): the peer drops them or closes with PROTOCOL_VIOLATION", fn.loc(r))
    for fn in _conn_fns(repo):
        for st, t, v in fn.assigns(chain="self._peer_cid"):
            ok = fn.qual.split(".")[-1] in ("__init__", "_consume_peer_cid")
            chk.ob("R1", f"{fn.qual.split('.')[-1]}: `{norm(st)[:50]}` replaces the peer connection ID only through _consume_peer_cid", ok, "", fn.loc(st))
    rp = Fn(repo, CONN + "_retire_peer_cid")
    ap = [c for c in rp.calls(name="self._retire_connection_ids.append")]
    ok = len(ap) == 1 and norm(ap[0].args[0]) == "connection_id.sequence_number" and rp.cfg.postdominates(rp.cfg.node_of(ap[0]), rp.cfg.entry)
    chk.ob("R1", "_retire_peer_cid queues the sequence number for a RETIRE_CONNECTION_ID frame on every path", ok, "", rp.loc(rp.node))
    # the two frames' pairing: run the C01 machinery restricted to their handlers
    class Sub:
        def __init__(self, chk):
            self.chk = chk

        def ob(self, rule, key, ok, msg="", loc="", detail=None):
            if any(h in key for h in ("_on_retire_connection_id_delivery", "_on_new_connection_id_delivery", "_retire_connection_ids", "was_sent", "_write_retire_connection_id_frame", "_write_new_connection_id_frame")):
                return self.chk.ob("R1", key, ok, msg, loc, detail)
            return ok

        def count(self, *a):
            pass

    sub = Sub(chk)
    sites = c01.r1(repo, sub)
    c01.r1b(repo, sub, sites)
    wa = Fn(repo, CONN + "_write_application")
    loops = [l for l in wa.stmts(lambda s: isinstance(s, ast.For)) if "self._retire_connection_ids" in norm(l.iter)]
    ok = len(loops) == 1 and norm(loops[0].iter) in ("self._retire_connection_ids[:]", "list(self._retire_connection_ids)", "tuple(self._retire_connection_ids)", "self._retire_connection_ids.copy()")
    chk.ob("R1", "_write_application announces every pending retirement (iterates over a copy of the list while consuming it)", ok, "", wa.loc(wa.node))
    cids = [l for l in wa.stmts(lambda s: isinstance(s, ast.For)) if norm(l.iter) == "self._host_cids"]
    ok = False
    for l in cids:
        for c in wa.calls(name="self._write_new_connection_id_frame"):
            if inside(c, l) and norm(get_kw(c, "connection_id", 1)) == norm(l.target):
                inner = [a for a in wa.guard_atoms(c) if a not in wa.guard_atoms(l)]
                ok = inner == [(f"{norm(l.target)}.was_sent", False)]
    chk.ob("R1", "_write_application announces every issued connection ID that was not sent yet", ok, "", wa.loc(wa.node))


def _ancestors(n):
    p = getattr(n, "_parent", None)
    while p is not None:
        yield p
        p = getattr(p, "_parent", None)


def _raises_with(fn: Fn, code: str):
    return [r for r in fn.raises("QuicConnectionError") if raise_kw(r, "error_code") is not None and norm(raise_kw(r, "error_code")).endswith("." + code)]


def r2(repo, chk):
    h = Fn(repo, CONN + "_handle_new_connection_id_frame")
    rs = _raises_with(h, "CONNECTION_ID_LIMIT_ERROR")
    lim = [r for r in rs if any(a[1] and a[0] == "1 + len(self._peer_cid_available) > self._local_active_connection_id_limit" for a in h.guard_atoms(r))]
    chk.ob("R2", "_handle_new_connection_id_frame: more stored IDs (plus the one in use) than the advertised limit raises CONNECTION_ID_LIMIT_ERROR", len(lim) == 1, f"{[h.guard_atoms(r)[-1:] for r in rs]}", h.loc(h.node))
    for r in lim:
        apps = [c for c in h.calls(name="self._peer_cid_available.append")]
        ok = bool(apps) and all(h.cfg.reaches(h.cfg.node_of(a), h.cfg.begin[r._parent]) for a in apps) and not h.lexical_guards(r._parent, expand=False)
        chk.ob("R2", "the limit test follows the acceptance of the new ID on every path", ok, "", h.loc(r))
    pend = [r for r in rs if any(a[1] and a[0].startswith("len(self._retire_connection_ids) > ") for a in h.guard_atoms(r))]
    chk.ob("R2", "_handle_new_connection_id_frame bounds the retirements waiting to be announced", len(pend) == 1, "", h.loc(h.node))
    ser = Fn(repo, CONN + "_serialize_transport_parameters")
    adv = [norm(get_kw(c, "active_connection_id_limit")) for c in ser.calls(name="QuicTransportParameters") if get_kw(c, "active_connection_id_limit") is not None]
    chk.ob("R2", "the limit enforced is the advertised active_connection_id_limit", adv == ["self._local_active_connection_id_limit"], f"{adv}", ser.loc(ser.node))
    writers = [fn.qual for fn in _conn_fns(repo) for st, t, v in fn.assigns(chain="self._local_active_connection_id_limit") if not fn.qual.endswith(".__init__")]
    chk.ob("R2", "the advertised limit does not change after construction", not writers, f"{writers}", "")
    rp = Fn(repo, CONN + "_replenish_connection_ids")
    loops = [l for l in rp.stmts(lambda s: isinstance(s, ast.While))]
    apps = [c for c in rp.calls(name="self._host_cids.append")]
    # the bound holds on every path to the append, re-evaluated every trip round the loop (loop test, or `while True`
    # with a breaking test in front) - locals such as a hoisted bound are read through only if computed inside the loop
    bound = natom("len(self._host_cids) < min(8, self._remote_active_connection_id_limit)")
    ok = len(loops) == 1 and len(apps) == 1 and inside(apps[0], loops[0]) and (bound in rp.guard_atoms(apps[0]) or bound in rp.guard_atoms_x(apps[0]))
    chk.ob("R2", "_replenish_connection_ids issues IDs only while fewer than min(8, the peer's active_connection_id_limit) are active", ok, "", rp.loc(rp.node))
    seq = [st for st, op_, v in rp.updates("self._host_cid_seq")]
    chk.ob("R2", "every issued ID gets a fresh sequence number", len(seq) == 1 and bool(loops) and inside(seq[0], loops[0]), "", rp.loc(rp.node))
    others = [fn.qual for fn in _conn_fns(repo) for c in fn.calls(name="self._host_cids.append") if fn.qual != "QuicConnection._replenish_connection_ids"]
    chk.ob("R2", "connection IDs are issued only by _replenish_connection_ids", not others, f"{others}", "")
    hr = Fn(repo, CONN + "_handle_retire_connection_id_frame")
    rc = hr.calls(name="self._replenish_connection_ids")
    ok = len(rc) == 1 and hr.cfg.postdominates(hr.cfg.node_of(rc[0]), hr.cfg.entry)
    chk.ob("R2", "_handle_retire_connection_id_frame replaces the retired ID on every normal path", ok, "", hr.loc(hr.node))
    hc = Fn(repo, CONN + "_handle_crypto_frame")
    chk.ob("R2", "connection IDs are issued when the handshake completes", len(hc.calls(name="self._replenish_connection_ids")) >= 1, "", hc.loc(hc.node))
    tp = Fn(repo, CONN + "_parse_transport_parameters")
    ok = any(norm(v) == "quic_transport_parameters.active_connection_id_limit" for st, t, v in tp.assigns(chain="self._remote_active_connection_id_limit"))
    chk.ob("R2", "the peer's limit is taken from its transport parameters", ok, "", tp.loc(tp.node))


def r3(repo, chk):
    h = Fn(repo, CONN + "_handle_new_connection_id_frame")
    rpt = [(st, v) for st, t, v in h.assigns(chain="self._peer_retire_prior_to")]
    ok = len(rpt) == 1 and isinstance(rpt[0][1], ast.Call) and call_name(rpt[0][1]) == "max" and {norm(a) for a in rpt[0][1].args} == {"retire_prior_to", "self._peer_retire_prior_to"}
    if len(rpt) == 1 and not ok:
        # the same thing as a guarded assignment: only a larger value is stored
        ok = norm(rpt[0][1]) == "retire_prior_to" and natom("retire_prior_to > self._peer_retire_prior_to") in h.lexical_guards(rpt[0][0], expand=False) and len(h.lexical_guards(rpt[0][0], expand=False)) == 1
        if ok:
            holder = rpt[0][0]._parent
            rpt = [(holder, rpt[0][1])]  # ordering obligations refer to the whole conditional
    chk.ob("R3", "retire-prior-to only ever increases", ok, "", h.loc(h.node))
    others = [fn.qual for fn in _conn_fns(repo) for st, t, v in fn.assigns(chain="self._peer_retire_prior_to") if fn.qual.split(".")[-1] not in ("__init__", "_handle_new_connection_id_frame")]
    chk.ob("R3", "retire-prior-to has no other writer", not others, f"{others}", "")
    filt = [st for st, t, v in h.assigns(chain="self._peer_cid_available") if isinstance(v, ast.ListComp) and v.generators[0].ifs and natom(norm(v.generators[0].ifs[0])) == natom(f"{norm(v.elt)}.sequence_number >= self._peer_retire_prior_to") and norm(v.generators[0].iter) == "self._peer_cid_available"]
    # the same filter written as a loop that copies the eligible entries into a fresh list
    for st, t, v in h.assigns(chain="self._peer_cid_available"):
        if isinstance(v, ast.Name):
            inits = [x for x in h.assigns(chain=v.id)]
            apps = h.calls(name=f"{v.id}.append")
            good = len(inits) == 1 and norm(inits[0][2]) == "[]" and bool(apps) and h.before(inits[0][0], st)
            for c in apps:
                loop = next((p for p in _ancestors(c) if isinstance(p, ast.For)), None)
                good = good and loop is not None and norm(loop.iter) == "self._peer_cid_available" and len(c.args) == 1 and norm(c.args[0]) == norm(loop.target) and natom(f"{norm(loop.target)}.sequence_number >= self._peer_retire_prior_to") in h.guard_atoms(c) and h.before(loop, st)
            others = [n for n in h.nodes(ast.Name) if n.id == v.id and isinstance(n.ctx, ast.Load) and not any(n is c.func.value for c in apps) and n is not v]
            if good and not others:
                filt.append(st)
    cons = h.calls(name="self._consume_peer_cid")
    ok = len(filt) == 1 and bool(rpt) and h.before(rpt[0][0], filt[0]) and all(h.before(filt[0], c) for c in cons)
    chk.ob("R3", "stored IDs below retire-prior-to are dropped before a replacement is chosen", ok, "a retired ID could be taken into use", h.loc(h.node))
    acc = h.calls(name="self._peer_cid_available.append")
    for a in acc:
        at = h.guard_atoms(a)
        ok = natom("sequence_number >= self._peer_retire_prior_to") in at and natom("sequence_number not in self._peer_cid_sequence_numbers") in at and bool(rpt) and h.before(rpt[0][0], a)
        chk.ob("R3", "a new ID is stored only if it is not below retire-prior-to and its sequence number was never seen", ok, f"guards {at[-3:]}", h.loc(a))
        adds = [c for c in h.calls(name="self._peer_cid_sequence_numbers.add") if norm(c.args[0]) == "sequence_number"]
        ok = len(adds) == 1 and h.lexical_guards(adds[0], expand=False) == h.lexical_guards(a, expand=False)
        chk.ob("R3", "every stored ID's sequence number is remembered", ok, "", h.loc(a))
    # nothing returns between recording the new retire-prior-to and acting on it (a frame that repeats a known
    # sequence number may still raise retire-prior-to)
    acts = [st for st in filt] + [c for c in h.calls(name="self._consume_peer_cid")] + [c for c in h.calls(name="self._retire_peer_cid")]
    last = max((getattr(x, "lineno", 0) for x in acts), default=0)
    early = [r for r in h.returns() if rpt and rpt[0][0].lineno < r.lineno < last]
    chk.ob("R3", "every NEW_CONNECTION_ID frame that is not refused runs the retire-prior-to processing (no early return for a known sequence number)", bool(rpt) and bool(acts) and not early, f"return at line(s) {[r.lineno for r in early]}: a retransmitted frame carrying a larger Retire Prior To leaves retired IDs in use and unannounced", h.loc(h.node))
    # the ID in use is abandoned exactly when it falls below retire-prior-to
    flags = [(st, t) for st, t, v in h.assigns(chain="change_cid") if isinstance(v, ast.Constant) and v.value is True]
    ok = len(flags) == 1
    if ok:
        lg = h.lexical_guards(flags[0][0], expand=False)
        ok = lg == [natom("self._peer_cid.sequence_number < self._peer_retire_prior_to")] and bool(rpt) and h.before(rpt[0][0], flags[0][0])
    chk.ob("R3", "the ID in use is marked for replacement exactly when its sequence number < the (updated) retire-prior-to", ok, f"guards {h.lexical_guards(flags[0][0], expand=False) if flags else None}: the endpoint would keep addressing packets to a connection ID the peer asked it to retire", h.loc(h.node))
    cons_h = h.calls(name="self._consume_peer_cid")
    ok = len(cons_h) == 1 and ("change_cid", True) in h.guard_atoms(cons_h[0]) and len(h.assigns(chain="change_cid")) == 2
    chk.ob("R3", "a replacement is taken into use whenever the ID in use was marked (change_cid)", ok, "", h.loc(h.node))
    if cons_h:
        others = [a for a in h.lexical_guards(cons_h[0], expand=False) if a != ("change_cid", True)]
        chk.ob("R3", "the replacement is conditional on nothing else (an empty list raises instead)", not others, f"{others}", h.loc(cons_h[0]))
    # the seen set only grows
    bad = []
    for fn in _conn_fns(repo):
        for c in fn.calls():
            if isinstance(c.func, ast.Attribute) and norm(c.func.value) == "self._peer_cid_sequence_numbers" and c.func.attr in ("discard", "remove", "clear", "pop", "difference_update", "intersection_update"):
                bad.append(f"{fn.qual.split('.')[-1]}: {norm(c)[:60]}")
        for st, t, v in fn.assigns(chain="self._peer_cid_sequence_numbers"):
            if not fn.qual.endswith(".__init__"):
                bad.append(f"{fn.qual.split('.')[-1]}: {norm(st)[:60]}")
    chk.ob("R3", "the set of seen sequence numbers only grows", not bad, f"{bad}: a retired ID can be accepted again from a late duplicate NEW_CONNECTION_ID", "")
    # consumption only from a non-empty list
    for fn in _conn_fns(repo):
        for c in fn.calls(name="self._consume_peer_cid"):
            at = fn.guard_atoms(c)
            ok = ("self._peer_cid_available", True) in at or natom("not self._peer_cid_available", False) in at
            chk.ob("R3", f"{fn.qual.split('.')[-1]}: a replacement ID is taken only when one is available", ok, f"guards {at[-3:]}", fn.loc(c))
    cp = Fn(repo, CONN + "_consume_peer_cid")
    ok = any(cp.expand(v, 2) == "self._peer_cid_available.pop(0)" for st, t, v in cp.assigns(chain="self._peer_cid"))
    chk.ob("R3", "_consume_peer_cid takes the oldest stored ID", ok, "", cp.loc(cp.node))
    # a missing replacement after retiring the active ID is an error, not a silent continuation
    rs = [r for r in _raises_with(h, "PROTOCOL_VIOLATION") if natom("not self._peer_cid_available") in h.guard_atoms(r) or ("self._peer_cid_available", False) in h.guard_atoms(r)]
    chk.ob("R3", "retiring the ID in use without a replacement closes the connection", len(rs) == 1, "", h.loc(h.node))
    sane = [r for r in _raises_with(h, "PROTOCOL_VIOLATION") if natom("retire_prior_to > sequence_number") in h.guard_atoms(r)]
    chk.ob("R3", "retire-prior-to above the frame's own sequence number is a PROTOCOL_VIOLATION", len(sane) == 1, "", h.loc(h.node))


def r4(repo, chk):
    h = Fn(repo, CONN + "_handle_retire_connection_id_frame")
    unk = [r for r in _raises_with(h, "PROTOCOL_VIOLATION") if natom("sequence_number >= self._host_cid_seq") in h.guard_atoms(r)]
    chk.ob("R4", "retiring a sequence number that was never issued is a PROTOCOL_VIOLATION", len(unk) == 1, "", h.loc(h.node))
    cur = [r for r in _raises_with(h, "PROTOCOL_VIOLATION") if natom("connection_id.cid == context.host_cid") in h.guard_atoms(r)]
    dels = [st for st in h.stmts(lambda s: isinstance(s, ast.Delete)) if "self._host_cids[" in norm(st)]
    ok = len(cur) == 1 and len(dels) == 1 and h.before(cur[0]._parent, dels[0])
    chk.ob("R4", "retiring the ID the packet was addressed to is a PROTOCOL_VIOLATION, checked before the ID is removed", ok, "", h.loc(h.node))
    for d in dels:
        at = h.guard_atoms(d)
        chk.ob("R4", "the ID removed is the one whose sequence number was named", natom("connection_id.sequence_number == sequence_number") in at, f"{at[-2:]}", h.loc(d))
    other = []
    for fn in _conn_fns(repo):
        if fn.qual == "QuicConnection._handle_retire_connection_id_frame":
            continue
        for st in fn.stmts(lambda s: isinstance(s, ast.Delete)):
            if "self._host_cids" in norm(st):
                other.append(fn.qual)
        for c in fn.calls():
            if isinstance(c.func, ast.Attribute) and norm(c.func.value) == "self._host_cids" and c.func.attr in ("pop", "remove", "clear"):
                other.append(fn.qual)
        for st, t, v in fn.assigns(chain="self._host_cids"):
            if not fn.qual.endswith(".__init__"):
                other.append(fn.qual)
    chk.ob("R4", "an issued ID stays accepted until the peer retires it (no other removal from _host_cids)", not other, f"{other}", "")
    rd = Fn(repo, CONN + "receive_datagram")
    loops = [l for l in rd.stmts(lambda s: isinstance(s, ast.For)) if norm(l.iter) == "self._host_cids"]
    ok = any(any(isinstance(n, ast.Compare) and natom(norm(n)) == natom(f"header.destination_cid == {norm(l.target)}.cid") for n in ast.walk(l)) for l in loops)
    # ... and on nothing else: an issued ID is accepted whether or not its announcement is (still) marked as sent
    for l in loops:
        for st, t, v in rd.assigns(chain="destination_cid_seq"):
            if inside(st, l):
                inner = [a for a in rd.guard_atoms(st) if a not in rd.guard_atoms(l)]
                if inner != [natom(f"header.destination_cid == {norm(l.target)}.cid")]:
                    ok = False
                    chk.ob("R4", "receive_datagram: the only condition for matching an issued ID is equality with the packet's destination ID", False, f"match guarded by {inner}: packets to an ID that was issued and not retired are dropped (e.g. while its NEW_CONNECTION_ID awaits retransmission)", rd.loc(st))
    # the same search written as a generator / comprehension over the issued IDs
    for g in rd.nodes(ast.comprehension):
        if norm(g.iter) == "self._host_cids" and isinstance(g.target, ast.Name) and [natom(norm(i)) for i in g.ifs] == [natom(f"header.destination_cid == {g.target.id}.cid")]:
            ok = True
    chk.ob("R4", "receive_datagram accepts packets addressed to any issued, unretired ID", ok, "", rd.loc(rd.node))
