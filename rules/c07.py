"""C07 - receive-side limits are enforced and buffering stays bounded (claimed in part).

R1  checks dominate acceptance: in the STREAM and RESET_STREAM handlers the stream-count, per-stream and
    connection-level checks complete before the receiver is touched, FinalSizeError is converted,
    the charged amount is the amount that was checked; in the stream receiver the final-size checks
    dominate every statement that accepts data
R2  comparator strictness and operands: each limit test is `demanded > advertised limit` (strict), the
    right operand being the advertised value (Limit.value / max_stream_data_local), never .sent/.used
R3  bounded growth: every growing operation on connection / stream / TLS state that is reachable from
    receive_datagram is dominated by (or followed on all paths by) a size test of the same container,
    or is in the table of exemptions with its reason; new unguarded growth is reported
R4  CRYPTO reassembly: the MAX_PENDING_CRYPTO test dominates the crypto stream's handle_frame
"""
from __future__ import annotations

import ast

from sa.flow import FuncRef, Program
from sa.pyfacts import Unknown, call_name, get_kw, norm, walk_no_nested
from sa.q import natom, Fn, inside, raise_class, raise_kw
from sa.report import AnalysisError

LEVEL = "other"
CONN = "quic.connection:QuicConnection."

GROW = {"append", "add", "appendleft", "insert", "extend", "update", "setdefault"}

# (function qualname, container text) -> reason.  Anything not listed must carry a size test.
EXEMPT = {
    ("*", "self._events"): "event queue: one event per processed frame, drained by the caller after every receive_datagram (API contract); not retained state",
    ("QuicConnection._get_or_create_stream", "self._streams_queue"): "one entry per created stream; creation is bounded by the stream-count test of the same function (checked: R1)",
    ("QuicConnection._get_or_create_stream", "self._streams"): "one entry per created stream; creation is bounded by the stream-count test of the same function (checked: R1)",
    ("QuicConnection._handle_new_connection_id_frame", "self._peer_cid_sequence_numbers"): "one small integer per accepted sequence number; needed to reject re-used sequence numbers (C18)",
    ("QuicConnection._retire_peer_cid", "self._retire_connection_ids"): "bounded by the pending-retirement test at the end of _handle_new_connection_id_frame (checked below)",
    ("QuicConnection._on_retire_connection_id_delivery", "self._retire_connection_ids"): "re-queues an entry that was popped when its frame was written (loss recovery), never a new one",
    ("QuicConnection._on_ping_delivery", "self._ping_pending"): "re-queues locally requested pings after loss; not peer-driven",
    ("QuicConnection._alpn_handler", "self._cryptos"): "keyed by epoch (4 keys)",
    ("QuicConnection._initialize", "self._cryptos"): "keyed by epoch (4 keys)",
    ("QuicConnection._initialize", "self._cryptos_initial"): "keyed by the locally configured supported versions",
    ("QuicRttMonitor.add_rtt", "self._samples"): "fixed-size ring (index wraps at _size)",
    ("RangeSet.*", "self.__ranges"): "RangeSet internals: size is a function of the caller's add/subtract calls, which are the sites checked here",
    ("QuicStreamReceiver.handle_frame", "self._buffer"): "reassembly buffer: every byte lies below the advertised stream / connection limit, which the callers check before handle_frame (R1) - or below MAX_PENDING_CRYPTO for crypto streams (R4)",
    ("QuicStreamReceiver.handle_frame", "self._ranges"): "ranges inside the reassembly buffer, bounded with it",
    ("QuicStreamSender.*", "*"): "send side: grows with what the local application writes, not with peer input",
    ("Context.__init__", "*"): "constructor: fixed lists of supported groups / algorithms",
    ("Context._client_send_hello", "self._ec_private_keys"): "one key per supported EC group per ClientHello; ClientHello is re-sent at most for one Retry and one Version Negotiation",
    ("Context._server_handle_hello", "self._ec_private_keys"): "one key per handshake (the state machine accepts a single ClientHello)",
    ("KeySchedule.update_hash", "self.hash"): "fixed-size hash state",
    ("Context.handle_message", "self._receive_buffer"): "holds at most one incomplete handshake message, whose declared length is tested against MAX_HANDSHAKE_MESSAGE_SIZE before the loop waits for more data (checked below), plus what one CRYPTO delivery adds (bounded by MAX_PENDING_CRYPTO, R4)",
    ("QuicConnection._replenish_connection_ids", "self._host_cids"): "loop bound len(_host_cids) < min(limit, 8) (checked: generic size test)",
}


def run(repo, chk):
    chk.rule("R1", "STREAM / RESET_STREAM handlers: stream-count test (in _get_or_create_stream), per-stream test, connection test all complete before receiver.handle_frame / handle_reset; FinalSizeError -> FINAL_SIZE_ERROR; used += exactly the checked amount; the receiver's final-size tests dominate every data-accepting statement")
    chk.rule("R2", "each limit test is strictly `demanded > limit` with the advertised value as the limit operand")
    chk.rule("R3", "every growth of retained state reachable from receive_datagram carries a size test of the same container or a tabled reason")
    chk.rule("R4", "offset + length - starting_offset() > MAX_PENDING_CRYPTO raises CRYPTO_BUFFER_EXCEEDED before the crypto receiver is touched")
    chk.decline("exact boundary behaviour after arbitrary histories of limit raises (arithmetic over histories)")
    prog = Program(repo)
    r1_r2(repo, chk)
    r3(repo, chk, prog)
    r4(repo, chk)
    r5(repo, chk)


def r5(repo, chk):
    """connection IDs: the peer is accused of exceeding active_connection_id_limit only when it did
    (the obligations are those of C18-R2 / R3 that concern the count compared with the limit)"""
    from . import c18

    chk.rule("R5", "NEW_CONNECTION_ID: 1 + stored IDs > advertised active_connection_id_limit raises CONNECTION_ID_LIMIT_ERROR after acceptance; an ID is stored only for a sequence number never seen before and not below retire-prior-to, and the set of seen numbers only grows (a duplicate of a retired ID is not counted again)")

    class Sub:
        n = 0

        def ob(self, rule, key, ok, msg="", loc="", detail=None):
            if any(h in key for h in ("CONNECTION_ID_LIMIT_ERROR", "limit test follows", "limit enforced is the advertised", "advertised limit does not change", "never seen", "sequence number is remembered", "seen sequence numbers only grows", "retire-prior-to only ever increases")):
                Sub.n += 1
                return chk.ob("R5", key, ok, msg, loc, detail)
            return ok

        def count(self, *a):
            pass

    sub = Sub()
    c18.r2(repo, sub)
    c18.r3(repo, sub)
    if Sub.n < 6:
        raise AnalysisError(f"C07-R5: only {Sub.n} of the connection-ID accounting obligations were generated")


def _raises_with(fn: Fn, code: str):
    out = []
    for r in fn.raises("QuicConnectionError"):
        ec = raise_kw(r, "error_code")
        if ec is not None and norm(ec).endswith("." + code):
            out.append(r)
    return out


def _strict_gt(fn: Fn, r, left_frags, right_text):
    """the raise is guarded by an atom `L > R` (holding) with R exactly right_text and L containing the fragments"""
    atoms = fn.guard_atoms_x(r) + fn.guard_atoms(r)
    for t, pol in fn.guard_atoms(r):
        # one-level inlining of a bare local on the left (e.g. `pending > LIMIT`)
        if pol and " > " in t:
            l0, r0 = t.split(" > ", 1)
            if l0.isidentifier():
                defs = fn.local_defs(l0)
                if len(defs) == 1:
                    atoms.append((f"{norm(defs[0])} > {r0}", True))
    for t, pol in atoms:
        if not pol or " > " not in t:
            continue
        l, rr = t.split(" > ", 1)
        if rr == right_text and all(f in l for f in left_frags):
            return True
    return False


def r1_r2(repo, chk):
    for hname, recv_call, demanded in (("_handle_stream_frame", "handle_frame", "offset + length"), ("_handle_reset_stream_frame", "handle_reset", "final_size")):
        h = Fn(repo, CONN + hname)
        rc = [c for c in h.calls(suffix=recv_call) if "receiver" in call_name(c)]
        if len(rc) != 1:
            raise AnalysisError(f"{hname}: receiver.{recv_call} call not found")
        rc = rc[0]
        gs = h.calls(name="self._get_or_create_stream")
        chk.ob("R1", f"{hname}: the stream is obtained through _get_or_create_stream (stream-count check) before the receiver is touched", len(gs) == 1 and h.before(gs[0], rc), "", h.loc(rc))
        dirs = h.calls(name="self._assert_stream_can_receive")
        chk.ob("R1", f"{hname}: the stream direction is checked first", len(dirs) == 1 and h.before(dirs[0], rc), "", h.loc(rc))
        fc = _raises_with(h, "FLOW_CONTROL_ERROR")
        per_stream = [r for r in fc if _strict_gt(h, r, [demanded], "stream.max_stream_data_local")]
        conn = [r for r in fc if _strict_gt(h, r, ["self._local_max_data.used", "newly_received"], "self._local_max_data.value")]
        for what, rs, frag in (("per-stream", per_stream, "stream.max_stream_data_local"), ("connection-level", conn, "self._local_max_data.value")):
            chk.ob("R2", f"{hname}: the {what} test is `demanded > {frag}` (strict, advertised value on the right)", len(rs) == 1, f"FLOW_CONTROL_ERROR raises with guards {[h.guard_atoms(r)[-1:] for r in fc]}: a peer exactly at the limit would be accused, or the limit operand is not the advertised value", h.loc(h.node))
            for r in rs:
                holder = r._parent
                chk.ob("R1", f"{hname}: the {what} test completes before the receiver is touched", isinstance(holder, ast.If) and h.before(holder, rc) and not h.lexical_guards(holder, expand=False), "", h.loc(r))
        chk.ob("R1", f"{hname}: exactly two flow-control tests", len(fc) == 2, f"{len(fc)} FLOW_CONTROL_ERROR raises", h.loc(h.node))
        nr = h.local_defs("newly_received")
        ok = len(nr) == 1 and norm(nr[0]) == f"max(0, {demanded} - stream.receiver.highest_offset)"
        chk.ob("R1", f"{hname}: the connection-level demand is the part of the frame above the stream's highest offset", ok, f"{[norm(x) for x in nr]}", h.loc(h.node))
        inc = h.updates("self._local_max_data.used")
        ok = len(inc) == 1 and len(h.assigns(chain="self._local_max_data.used")) == 1 and isinstance(inc[0][1], ast.Add) and norm(inc[0][2]) == "newly_received" and h.before(rc, inc[0][0]) and not h.lexical_guards(inc[0][0], expand=False)
        chk.ob("R1", f"{hname}: used += exactly the amount that was checked, after the receiver accepted it", ok, "", h.loc(h.node))
        hs = h.enclosing_handlers(rc)
        ok = any(hh.type is not None and norm(hh.type) == "FinalSizeError" and any(isinstance(x, ast.Raise) and raise_class(x) == "QuicConnectionError" and norm(raise_kw(x, "error_code") or ast.Constant(0)).endswith(".FINAL_SIZE_ERROR") for x in hh.body) for hh in hs)
        chk.ob("R1", f"{hname}: FinalSizeError is converted into FINAL_SIZE_ERROR", ok, "", h.loc(rc))
    g = Fn(repo, CONN + "_get_or_create_stream")
    sl = _raises_with(g, "STREAM_LIMIT_ERROR")
    ok = len(sl) == 1 and _strict_gt(g, sl[0], ["stream_id // 4", "+ 1"], "max_streams.value")
    chk.ob("R2", "_get_or_create_stream: the stream-count test is `stream_id // 4 + 1 > max_streams.value` (strict)", ok, f"guards {g.guard_atoms_x(sl[0]) if sl else None}", g.loc(g.node))
    news = [c for c in g.calls(name="QuicStream")]
    chk.ob("R1", "_get_or_create_stream: the stream-count test precedes the creation of the stream", bool(news) and bool(sl) and all(g.before(sl[0]._parent, n) for n in news), "", g.loc(g.node))
    # the limit used for a new stream is the advertised one for its kind
    kinds = {norm(v) for st, t, v in g.assigns(chain="max_streams")}
    chk.ob("R1", "_get_or_create_stream selects the advertised uni / bidi stream limit", kinds == {"self._local_max_streams_uni", "self._local_max_streams_bidi"}, f"{sorted(kinds)}", g.loc(g.node))
    lims = {norm(v) for st, t, v in g.assigns(chain="max_stream_data_local")}
    chk.ob("R1", "_get_or_create_stream gives a peer-initiated stream the advertised per-stream limit of its kind", lims == {"self._local_max_stream_data_uni", "self._local_max_stream_data_bidi_remote"}, f"{sorted(lims)}", g.loc(g.node))
    # receiver: final-size checks dominate acceptance
    hf = Fn(repo, "quic.stream:QuicStreamReceiver.handle_frame")
    fs = [r for r in hf.raises("FinalSizeError")]
    beyond = [r for r in fs if any("self._final_size" in a[0] and " > " in a[0] and a[1] for a in hf.guard_atoms_x(r))]
    change = [r for r in fs if any("self._final_size" in a[0] and " != " in a[0] and a[1] for a in hf.guard_atoms_x(r))]
    chk.ob("R1", "QuicStreamReceiver.handle_frame rejects data beyond a known final size and a changed final size", bool(beyond) and bool(change), "", hf.loc(hf.node))
    accept = [st for st, t, v in hf.assigns(chain="self._buffer_start")] + [st for st, t, v in hf.assigns(chain="self._buffer")] + [c for c in hf.calls(name="self._ranges.add")] + [r for r in hf.returns() if r.value is not None and "StreamDataReceived" in norm(r.value)]
    tests = {id(r._parent): r._parent for r in beyond + change}
    top = None
    for t in tests.values():
        p = t
        while p._parent is not hf.node:
            p = p._parent
        top = p
    ok = top is not None and bool(accept) and all(hf.before(top, a) for a in accept)
    chk.ob("R1", "QuicStreamReceiver.handle_frame: the final-size tests complete before any data is accepted or delivered", ok, "a path (e.g. an in-order fast path) accepts data without comparing it with the known final size", hf.loc(hf.node))
    # the three final-size conditions are exact: beyond a known final size (strictly), a FIN that disagrees with it, a FIN
    # below data already received (strictly) - a weaker comparison accuses a peer that stayed within the final size
    raw = [set(hf.lexical_guards(r, expand=False)) for r in hf.raises("FinalSizeError")]
    allat = set().union(*raw) if raw else set()
    # extra atoms that only say "an earlier sibling test failed" (elif chains) are tolerated
    negs = {natom(a[0], not a[1]) for a in allat}
    want = [
        {("self._final_size is not None", True), natom("frame_end > self._final_size")},
        {("self._final_size is not None", True), ("frame.fin", True), natom("frame_end != self._final_size")},
        {("frame.fin", True), natom("frame_end < self.highest_offset")},
    ]
    used = set()
    for w in want:
        for i, g in enumerate(raw):
            if i not in used and w <= g and all(x in negs for x in g - w):
                used.add(i)
                break
    got = sorted(sorted(f"{'' if a[1] else 'not '}{a[0]}" for a in g) for g in raw)
    want, got = len(want) == len(raw) == len(used), got
    chk.ob("R2", "QuicStreamReceiver.handle_frame raises FinalSizeError under exactly: end > known final size; FIN with end != known final size; FIN with end < highest offset", want is True, f"conditions found: {got}", hf.loc(hf.node))
    hr = Fn(repo, "quic.stream:QuicStreamReceiver.handle_reset")
    gotr = sorted(sorted(a[0] for a in hr.lexical_guards(r, expand=False) if a[1]) for r in hr.raises("FinalSizeError"))
    chk.ob("R2", "QuicStreamReceiver.handle_reset raises FinalSizeError exactly when a final size is known and differs", gotr == [sorted(["final_size != self._final_size", "self._final_size is not None"])], f"conditions found: {gotr}", hr.loc(hr.node))
    ok = any(any("self._final_size" in a[0] and " != " in a[0] and a[1] for a in hr.lexical_guards(r)) for r in hr.raises("FinalSizeError"))
    chk.ob("R1", "QuicStreamReceiver.handle_reset rejects a final size that differs from the known one", ok, "", hr.loc(hr.node))
    ups = [st for st, t, v in hr.assigns(chain="self.highest_offset")]
    chk.ob("R1", "QuicStreamReceiver.handle_reset advances highest_offset to the final size (a repeated RESET_STREAM is not charged twice)", bool(ups), "the connection-level charge max(0, final_size - highest_offset) is re-applied for every copy of the frame: an in-limit peer is accused", hr.loc(hr.node))


def _root(e):
    r = e
    while isinstance(r, (ast.Attribute, ast.Subscript)):
        r = r.value
    return r


def _exempt(qual: str, cont: str):
    cls = qual.split(".")[0]
    if qual.split(".")[0].startswith("pull_") or ".<locals>." in qual and qual.startswith("pull_"):
        return "parser building a transient message object: its size is bounded by the message being parsed (itself bounded by the CRYPTO / datagram limits)"
    for (q, c), why in EXEMPT.items():
        if (q == "*" or q == qual or (q.endswith(".*") and q[:-2] == cls)) and (c == "*" or c == cont):
            return why
    return None


def _size_tested(fn: Fn, node, cont: str) -> bool:
    """the growth is bounded by a size test of the same container:
    (a) on every path to it `LIMIT > len(c)` holds (if / while around or before it), or
    (b) it is followed on every path by `if/while len(c) ... > LIMIT:` whose body raises or removes from c"""
    ln = f"len({cont})"
    for t, pol in fn.guard_atoms(node):
        if pol and " > " in t:
            l, r = t.split(" > ", 1)
            if ln in r and ln not in l:
                return True  # LIMIT > len(c)
        if pol and " >= " in t:
            l, r = t.split(" >= ", 1)
            if ln in r and ln not in l:
                return True
    for st in fn.stmts(lambda s: isinstance(s, (ast.If, ast.While))):
        txt = norm(st.test)
        if ln not in txt:
            continue
        over = False
        from sa.q import flatten_cond

        for t, pol in flatten_cond(st.test, True):
            if pol and (" > " in t or " >= " in t):
                l, r = t.split(" > " if " > " in t else " >= ", 1)
                if ln in l and ln not in r:
                    over = True
        if not over:
            continue
        # the over-limit branch itself (not something nested in it) raises, or removes from the container
        top = list(st.body)
        body = [n for b in top for n in ast.walk(b) if not isinstance(b, (ast.If, ast.Try, ast.For, ast.While))]
        trims = any(isinstance(b, ast.Raise) for b in top) or any(isinstance(n, ast.Delete) and cont in norm(n) for n in body) or any(isinstance(n, ast.Call) and isinstance(n.func, ast.Attribute) and n.func.attr in ("pop", "popleft", "shift", "clear", "remove") and norm(n.func.value) == cont for n in body)
        try:
            if trims and fn.always_after(node, st):
                return True
        except KeyError:
            pass
    return False


def _replaces(node, cont) -> bool:
    st = node
    while not isinstance(st, ast.stmt):
        st = getattr(st, "_parent", None)
        if st is None:
            return False
    par = getattr(st, "_parent", None)
    for f in ("body", "orelse", "finalbody"):
        seq = getattr(par, f, None)
        if isinstance(seq, list) and st in seq:
            i = seq.index(st)
            if i > 0:
                prev = seq[i - 1]
                if isinstance(prev, ast.Expr) and isinstance(prev.value, ast.Call) and isinstance(prev.value.func, ast.Attribute) and prev.value.func.attr in ("pop", "remove") and norm(prev.value.func.value) == cont:
                    return isinstance(node, ast.Call) and node.func.attr == "insert"
    return False


def _field_kind(repo, fr, e):
    """'seq' | 'map' | None for `self.<attr>` judged from its initial value in the class's __init__"""
    if not (isinstance(e, ast.Attribute) and isinstance(e.value, ast.Name) and e.value.id == "self"):
        return None
    cls = getattr(fr.node, "_class", None)
    if cls is None:
        return None
    for st in cls.body:
        if isinstance(st, ast.FunctionDef) and st.name == "__init__":
            for n in ast.walk(st):
                tv = None
                if isinstance(n, ast.Assign) and len(n.targets) == 1:
                    tv = (n.targets[0], n.value)
                elif isinstance(n, ast.AnnAssign) and n.value is not None:
                    tv = (n.target, n.value)
                if tv and isinstance(tv[0], ast.Attribute) and tv[0].attr == e.attr and isinstance(tv[0].value, ast.Name) and tv[0].value.id == "self":
                    v = tv[1]
                    if isinstance(v, (ast.List, ast.ListComp)) or (isinstance(v, ast.Constant) and isinstance(v.value, (bytes, str))) or (isinstance(v, ast.Call) and call_name(v) in ("bytearray", "bytes", "list", "deque")):
                        return "seq"
                    if isinstance(v, (ast.Dict, ast.DictComp, ast.Set)) or (isinstance(v, ast.Call) and call_name(v) in ("dict", "set", "OrderedDict")):
                        return "map"
    return None


def r3(repo, chk, prog):
    start = prog.by_ref[CONN + "receive_datagram"]
    seen, work, order = set(), [start], []
    while work:
        fr = work.pop()
        if id(fr.node) in seen:
            continue
        seen.add(id(fr.node))
        order.append(fr)
        for n in walk_no_nested(fr.node):
            if isinstance(n, ast.Call):
                for cal in prog.resolve_call(fr, n):
                    if isinstance(cal, FuncRef):
                        work.append(cal)
    chk.count("functions_reachable_from_receive_datagram", len(order))
    if len(order) < 150:
        raise AnalysisError("call graph from receive_datagram is implausibly small")
    n_sites = 0
    for fr in sorted(order, key=lambda f: f.ref):
        if fr.mod.name in ("quic.logger",) or fr.mod.path.endswith(".pyi"):
            continue
        fn = Fn(repo, fr.ref)
        sites = []
        for n in walk_no_nested(fr.node):
            if isinstance(n, ast.Call) and isinstance(n.func, ast.Attribute) and n.func.attr in GROW:
                r = _root(n.func.value)
                if isinstance(r, ast.Name) and not isinstance(n.func.value, ast.Name):
                    sites.append((n, norm(n.func.value)))
            if isinstance(n, (ast.Assign, ast.AugAssign)):
                tg = n.targets if isinstance(n, ast.Assign) else [n.target]
                for t in tg:
                    if isinstance(t, ast.Subscript) and isinstance(_root(t), ast.Name) and not isinstance(t.value, ast.Name):
                        kind = _field_kind(repo, fr, t.value)
                        const_idx = isinstance(t.slice, ast.Constant) and isinstance(t.slice.value, int)
                        if kind != "seq" and not const_idx and not isinstance(t.slice, ast.Slice):
                            sites.append((n, norm(t.value)))  # item store into a mapping (or unknown container)
                        elif isinstance(t.slice, ast.Slice) and kind == "seq":
                            sites.append((n, norm(t.value)))  # slice store can extend a sequence
                    if isinstance(n, ast.AugAssign) and isinstance(n.op, ast.Add) and isinstance(t, ast.Attribute) and _field_kind(repo, fr, t) == "seq":
                        sites.append((n, norm(t)))  # += onto a bytes / bytearray / list field
        for node, cont in sites:
            if "quic_logger" in cont or cont.endswith("_logger"):
                continue
            if _replaces(node, cont):
                continue  # pop(i) immediately followed by insert(...) on the same container: no growth
            n_sites += 1
            why = _exempt(fr.qual, cont)
            tested = _size_tested(fn, node, cont)
            ok = tested or why is not None
            chk.ob("R3", f"{fr.qual}: growth of `{cont}` by `{norm(node)[:50]}` is bounded", ok, "state that a peer can grow is neither size-tested in this function nor in the table of bounded-by-construction sites", fn.loc(node), {"bounded_by": "size test in the function" if tested else why})
    chk.count("growth_sites", n_sites)
    if n_sites < 25:
        raise AnalysisError("growth sites not found")
    # facts the exemptions lean on
    h = Fn(repo, CONN + "_handle_new_connection_id_frame")
    rs = [r for r in _raises_with(h, "CONNECTION_ID_LIMIT_ERROR")]
    ok = any(any("len(self._retire_connection_ids) > " in a[0] and a[1] for a in h.guard_atoms(r)) for r in rs)
    chk.ob("R3", "_handle_new_connection_id_frame bounds the pending retirements (exemption of _retire_peer_cid)", ok, "", h.loc(h.node))
    ok = any(any("len(self._peer_cid_available)" in a[0] and "self._local_active_connection_id_limit" in a[0] and " > " in a[0] and a[1] for a in h.guard_atoms(r)) for r in rs)
    chk.ob("R3", "_handle_new_connection_id_frame bounds the stored peer connection IDs by the advertised active_connection_id_limit", ok, "", h.loc(h.node))
    # the count compared with the limit is taken after a retired active ID was replaced from the stored ones (before the
    # replacement the store still holds the ID about to be taken into use: one too many, a compliant peer is accused)
    lim_raises = [r for r in rs if any("len(self._peer_cid_available)" in a[0] for a in h.guard_atoms(r) + h.lexical_guards(r, expand=True))]
    cons = h.calls(name="self._consume_peer_cid")
    ok = bool(lim_raises) and bool(cons) and all(isinstance(r._parent, ast.If) and not h.cfg.reaches(h.cfg.begin[r._parent], h.cfg.node_of(c)) for r in lim_raises for c in cons)
    chk.ob("R3", "_handle_new_connection_id_frame counts the stored IDs after the retired active ID was replaced", ok, "the limit test runs while the replacement is still counted among the stored IDs: a peer that rotates one ID at the limit is closed with CONNECTION_ID_LIMIT_ERROR", h.loc(h.node))
    hm = Fn(repo, "tls:Context.handle_message")
    tm = hm.mod
    lim = repo.const(tm, tm.assigns.get("MAX_HANDSHAKE_MESSAGE_SIZE")) if "MAX_HANDSHAKE_MESSAGE_SIZE" in tm.assigns else Unknown
    waits = [st for st in hm.stmts(lambda s: isinstance(s, ast.If)) if "len(self._receive_buffer)" in norm(st.test) and any(isinstance(b, ast.Break) for b in st.body)]
    big = [r for r in hm.raises() if isinstance(r._parent, ast.If) and r in r._parent.body and any(a[1] and " > MAX_HANDSHAKE_MESSAGE_SIZE" in a[0] and "message_length" in a[0] for a in hm.lexical_guards(r, expand=False))]
    ml = [norm(d) for d in hm.local_defs("message_length")]
    ok = isinstance(lim, int) and 0 < lim <= 1 << 24 and bool(waits) and bool(big) and all(hm.before(b._parent, w) for b in big for w in waits) and any("self._receive_buffer[1:4]" in d for d in ml)
    chk.ob("R3", "tls.Context.handle_message refuses a handshake message whose declared length exceeds MAX_HANDSHAKE_MESSAGE_SIZE before buffering it", ok, f"limit={lim}; without the test the receive buffer accumulates up to 2^24 bytes of in-order CRYPTO data, far beyond MAX_PENDING_CRYPTO", hm.loc(hm.node))
    pc = Fn(repo, CONN + "_handle_path_challenge_frame")
    m = pc.mod
    ok = any(f"len({norm(c.func.value)}) < MAX_REMOTE_CHALLENGES" in " ".join(a[0].replace("MAX_REMOTE_CHALLENGES > len(context.network_path.remote_challenges)", "len(context.network_path.remote_challenges) < MAX_REMOTE_CHALLENGES") for a in pc.guard_atoms(c)) for c in pc.calls(suffix="append") if "remote_challenges" in norm(c.func))
    chk.ob("R3", "_handle_path_challenge_frame keeps at most MAX_REMOTE_CHALLENGES pending responses per path", ok, "", pc.loc(pc.node))
    for name in ("MAX_REMOTE_CHALLENGES", "MAX_LOCAL_CHALLENGES", "MAX_PENDING_RETIRES", "MAX_PENDING_CRYPTO"):
        v = repo.const(m, m.assigns.get(name)) if name in m.assigns else Unknown
        chk.ob("R3", f"{name} is a positive constant", isinstance(v, int) and v > 0, f"{v}", "src/aioquic/quic/connection.py")


def r4(repo, chk):
    h = Fn(repo, CONN + "_handle_crypto_frame")
    rs = _raises_with(h, "CRYPTO_BUFFER_EXCEEDED")
    hf = [c for c in h.calls(suffix="handle_frame") if "receiver" in call_name(c)]
    # read through whatever locals hold the receiver / the frame end; the frame's own fields stay symbolic
    xp = lambda e: norm(h._expand(e, 4, {"offset", "length"}))  # noqa: E731
    recvx = xp(hf[0].func.value) if len(hf) == 1 else None
    ok = len(rs) == 1 and len(hf) == 1
    if ok:
        from sa.q import atoms_of

        at = []
        for test, pol, _ in h.guards(rs[0]):
            at += atoms_of(test, pol, expand=xp)
        ok = (f"offset + length - {recvx}.starting_offset() > MAX_PENDING_CRYPTO", True) in at and h.before(rs[0]._parent, hf[0])
    chk.ob("R4", "_handle_crypto_frame: `offset + length - starting_offset() > MAX_PENDING_CRYPTO` raises before the frame reaches the reassembly buffer", ok, "", h.loc(h.node))
    chk.ob("R4", "the tested stream is the crypto stream of the packet's epoch", recvx == "self._crypto_streams[context.epoch].receiver", f"{recvx}", h.loc(h.node))
    so = Fn(repo, "quic.stream:QuicStreamReceiver.starting_offset")
    chk.ob("R4", "starting_offset() is the start of the undelivered data", [norm(r.value) for r in so.returns()] == ["self._buffer_start"], "", so.loc(so.node))
