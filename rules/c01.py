"""C01 - reliable, ordered, exactly-once stream delivery (claimed in part).

R1  retransmission pairing: every reliable frame is written with a delivery handler; for each
    (writer, handler) pair the state the writer consumes is re-armed by the handler's not-ACKED branch
    from the handler's own arguments, and is a condition the scheduler tests again
R1b consumption only when emission is certain: pending state is consumed after start_frame returned,
    or (STREAM / CRYPTO, where the frame is cut to the room left) by a getter that hands out nothing
    when the caller has no room
R2  duplicate tolerance: receive_datagram discards a packet whose number was already processed before
    any frame of it is handled (RFC 9000 12.3), so duplication cannot close a connection
R3  loss plumbing: the loss timer reaches loss detection or the probe path; lost / acknowledged
    packets reach every delivery handler (shared with C08-R2)
R4  receive side: a frame handler parses its whole frame before anything that may raise the ignored
    StreamFinishedError; the stream receiver's direct-delivery shortcut requires an empty buffer
"""
from __future__ import annotations

import ast

from sa.pyfacts import Unknown, call_name, get_kw, norm
from sa.q import Fn, flatten_cond, inside, natom
from sa.report import AnalysisError

LEVEL = "other"
CONN = "quic.connection:QuicConnection."

# frames that need no retransmission (RFC 9000 13.3): ACK (regenerated), PADDING, PATH_CHALLENGE / PATH_RESPONSE (new
# ones are sent), DATAGRAM (RFC 9221: unreliable), CONNECTION_CLOSE, STREAMS_BLOCKED / DATA_BLOCKED (advisory)
UNRELIABLE = {"ACK", "ACK_ECN", "PADDING", "PATH_CHALLENGE", "PATH_RESPONSE", "DATAGRAM", "DATAGRAM_WITH_LENGTH", "TRANSPORT_CLOSE", "APPLICATION_CLOSE", "STREAMS_BLOCKED_BIDI", "STREAMS_BLOCKED_UNI", "DATA_BLOCKED", "STREAM_DATA_BLOCKED"}

# handler -> what its not-ACKED branch must do, and where / how the writer side consumes it
PAIRS = {
    "on_data_delivery": {"mod": "quic.stream", "cls": "QuicStreamSender", "rearm": ["self._pending.add(start, stop)", "self._pending_eof = True"], "consume_fn": "quic.stream:QuicStreamSender.get_frame", "consume": ["self._pending.subtract(start, stop)", "self._pending_eof = False"], "sched": ["buffer_is_empty"], "with": "self.buffer_is_empty = False", "args": "(frame.offset, frame.offset + len(frame.data), {fin})", "getter_first": True},
    "on_reset_delivery": {"mod": "quic.stream", "cls": "QuicStreamSender", "rearm": ["self.reset_pending = True"], "consume_fn": "quic.stream:QuicStreamSender.get_reset_frame", "consume": ["self.reset_pending = False"], "sched": ["reset_pending"], "args": None},
    "on_stop_sending_delivery": {"mod": "quic.stream", "cls": "QuicStreamReceiver", "rearm": ["self.stop_pending = True"], "consume_fn": "quic.stream:QuicStreamReceiver.get_stop_frame", "consume": ["self.stop_pending = False"], "sched": ["stop_pending"], "args": None},
    "_on_connection_limit_delivery": {"mod": "quic.connection", "cls": "QuicConnection", "rearm": ["limit.sent = 0"], "consume_fn": CONN + "_write_connection_limits", "consume": ["limit.sent = limit.value"], "sched": ["limit.value != limit.sent"], "args": "(limit,)"},
    "_on_max_stream_data_delivery": {"mod": "quic.connection", "cls": "QuicConnection", "rearm": ["stream.max_stream_data_local_sent = 0"], "consume_fn": CONN + "_write_stream_limits", "consume": ["stream.max_stream_data_local_sent = stream.max_stream_data_local"], "sched": ["stream.max_stream_data_local_sent != stream.max_stream_data_local"], "args": "(stream,)"},
    "_on_new_connection_id_delivery": {"mod": "quic.connection", "cls": "QuicConnection", "rearm": ["connection_id.was_sent = False"], "consume_fn": CONN + "_write_new_connection_id_frame", "consume": ["connection_id.was_sent = True"], "sched": ["connection_id.was_sent"], "args": "(connection_id,)"},
    "_on_retire_connection_id_delivery": {"mod": "quic.connection", "cls": "QuicConnection", "rearm": ["self._retire_connection_ids.append(sequence_number)"], "consume_fn": CONN + "_write_application", "consume": ["self._retire_connection_ids.pop(0)"], "sched": ["self._retire_connection_ids"], "args": "(sequence_number,)", "after_call": "self._write_retire_connection_id_frame"},
    "_on_handshake_done_delivery": {"mod": "quic.connection", "cls": "QuicConnection", "rearm": ["self._handshake_done_pending = True"], "consume_fn": CONN + "_write_application", "consume": ["self._handshake_done_pending = False"], "sched": ["self._handshake_done_pending"], "args": None, "after_call": "self._write_handshake_done_frame"},
    "_on_ping_delivery": {"mod": "quic.connection", "cls": "QuicConnection", "rearm": ["self._ping_pending.extend(uids)"], "consume_fn": CONN + "_write_application", "consume": ["self._ping_pending.clear()"], "sched": ["self._ping_pending"], "args": "(uids,)", "after_call": "self._write_ping_frame"},
}


def _all_fns(repo):
    for m in repo.modules.values():
        if m.path.endswith(".pyi"):
            continue
        for q in sorted(m.functions):
            yield Fn(repo, f"{m.name}:{q}")


def run(repo, chk):
    chk.rule("R1", "every start_frame of a reliable frame type passes handler=; each handler's not-ACKED branch re-arms, from its own arguments, exactly the state the writer consumed, and the scheduler tests that state")
    chk.rule("R1b", "pending state is consumed only after start_frame returned (caller-side consumption follows the writer call); for STREAM / CRYPTO the consuming getter returns nothing when max_size leaves no room, and the caller passes remaining_flight_space - frame overhead with the same overhead as start_frame's capacity")
    chk.rule("R2", "receive_datagram drops a packet whose number is in the ACK queue or below its pruned start before _payload_received")
    chk.rule("R3", "handle_timer -> on_loss_detection_timeout -> _detect_loss | (pto_count += 1; reschedule_data -> _send_probe); every handler of a lost / acknowledged packet is invoked (C08-R2)")
    chk.rule("R4", "frame handlers finish parsing before a call that may raise StreamFinishedError; QuicStreamReceiver's direct delivery of frame.data requires pos == 0 and an empty buffer")
    chk.decline("byte-exact prefix delivery, absence of gaps / repeats and eventual delivery as such (relations over runtime byte strings and schedules); R1-R4 are the structural necessary conditions")
    sites = r1(repo, chk)
    r1b(repo, chk, sites)
    # ... and the ACK frame the receiver starts always fits (C12-R3 obligation, re-used: a receiver that can no longer
    # acknowledge makes the sender probe for ever - nothing written after that point is delivered)
    from . import c12 as _c12

    class _Sub:
        @staticmethod
        def ob(rule, key, ok, msg="", loc="", detail=None):
            chk.ob("R1b", key, ok, msg, loc, detail)

    _c12._ack_frame_fits(repo, _Sub)
    # ... and two obligations of the flow-control properties without which a transfer stalls or is torn down on a
    # lossy but honest network: every accepted STREAM frame is charged to the connection credit, whether or not it
    # produced an event (else MAX_DATA is never raised once data arrived behind a hole - C07-R1), and a RESET_STREAM
    # declares only bytes that were sent (else the peer closes with FLOW_CONTROL_ERROR - C06-R1)
    from . import c06 as _c06
    from . import c07 as _c07

    class _Sub7:
        @staticmethod
        def ob(rule, key, ok, msg="", loc="", detail=None):
            if "used += exactly the amount that was checked" in key:
                chk.ob("R1b", key, ok, msg or "out-of-order data is buffered without being charged: the receiver believes less than half of its window is used and never sends MAX_DATA; the sender stalls until the idle timeout", loc, detail)

        @staticmethod
        def rule(*a, **k):
            pass

        @staticmethod
        def count(*a, **k):
            pass

    _c07.r1_r2(repo, _Sub7)

    class _Sub6(_Sub7):
        @staticmethod
        def ob(rule, key, ok, msg="", loc="", detail=None):
            chk.ob("R1b", key, ok, msg, loc, detail)

    _c06.r1_reset_final_size(repo, _Sub6)
    r5(repo, chk)
    r2(repo, chk)
    r3(repo, chk)
    r4(repo, chk)


def _frame_types(repo, fn: Fn, call) -> set:
    """names of the QuicFrameType members the first argument of start_frame can take"""
    a = get_kw(call, "frame_type", 0)
    if a is None:
        return {"?"}
    t = norm(a)
    if t.startswith("QuicFrameType."):
        return {t.split(".")[1].split(" ")[0]}
    if isinstance(a, ast.Name):
        out = set()
        # local definitions
        for d in fn.local_defs(a.id):
            dt = norm(d)
            if dt.startswith("QuicFrameType."):
                out.add(dt.split(".")[1].split(" ")[0])
        # parameter: look at the call sites of this function
        if fn.is_param(a.id):
            name = fn.qual.split(".")[-1]
            for g in _all_fns(repo):
                for c in g.calls(suffix=name):
                    v = get_kw(c, a.id, None)
                    if v is None:
                        continue
                    vt = norm(v)
                    if vt.startswith("QuicFrameType."):
                        out.add(vt.split(".")[1])
                    elif vt.endswith(".frame_type"):
                        out.add("<limit.frame_type>")
        if t == "limit.frame_type" or "<limit.frame_type>" in out:
            out = {"MAX_DATA", "MAX_STREAMS_BIDI", "MAX_STREAMS_UNI"}
        return out or {"?"}
    if t.endswith(".frame_type"):
        return {"MAX_DATA", "MAX_STREAMS_BIDI", "MAX_STREAMS_UNI"}
    return {"?"}


def r1(repo, chk):
    # the builder keeps what it is given: (handler, handler_args) go to the packet that carries the frame, and that packet
    # is what recovery invokes the handlers of (C08-R2 checks the invocation once per removed packet)
    sf = Fn(repo, "quic.packet_builder:QuicPacketBuilder.start_frame")
    apps = [c for c in sf.calls(name="self._packet.delivery_handlers.append")]
    ok = len(apps) == 1 and norm(apps[0].args[0]).replace(" ", "") == "(handler,handler_args)" and sf.lexical_guards(apps[0], expand=False) == [("handler is not None", True)]
    chk.ob("R1", "start_frame records (handler, handler_args) on the packet being built whenever a handler is given", ok, "delivery handlers passed by the frame writers are dropped: no lost frame is ever repaired", sf.loc(sf.node))
    ack_el = [st for st, t, v in sf.assigns(chain="self._packet.is_ack_eliciting") if isinstance(v, ast.Constant) and v.value is True]
    ok = len(ack_el) == 1 and sf.lexical_guards(ack_el[0], expand=False) == [natom("frame_type not in NON_ACK_ELICITING_FRAME_TYPES")]
    chk.ob("R1", "start_frame marks the packet ack-eliciting for every frame type outside NON_ACK_ELICITING_FRAME_TYPES (so its loss is detected)", ok, f"{[sf.lexical_guards(s, expand=False) for s in ack_el]}", sf.loc(sf.node))
    sites = []
    for fn in _all_fns(repo):
        if fn.mod.name == "quic.packet_builder":
            continue
        for c in fn.calls(suffix="start_frame"):
            if not call_name(c).endswith("builder.start_frame"):
                continue
            h = get_kw(c, "handler", 2)
            types = _frame_types(repo, fn, c)
            sites.append((fn, c, h, types))
            if h is None:
                ok = types <= UNRELIABLE and "?" not in types
                chk.ob("R1", f"{fn.qual.split('.')[-1]}: start_frame({'/'.join(sorted(types))}) without a delivery handler is an unreliable frame type", ok, "a frame that carries reliable state is sent without a handler: its loss is never noticed", fn.loc(c))
    if len(sites) < 15:
        raise AnalysisError(f"only {len(sites)} start_frame call sites found")
    chk.count("start_frame_call_sites", len(sites))
    registered = {}
    for fn, c, h, types in sites:
        if h is not None:
            registered.setdefault(norm(h).split(".")[-1], []).append((fn, c))
    for hname in sorted(registered):
        if hname == "_on_ack_delivery":
            continue  # ACK frames are not retransmitted; the handler only prunes (C12-R1)
        spec = PAIRS.get(hname)
        chk.ob("R1", f"delivery handler {hname} has a known consume / re-arm pairing", spec is not None, "new delivery handler: add its pairing to rules/c01.py:PAIRS after reading it", registered[hname][0][0].loc(registered[hname][0][1]))
    for hname, spec in PAIRS.items():
        regs = registered.get(hname, [])
        chk.ob("R1", f"{hname} is registered by a frame writer", bool(regs), "the handler is never installed: losses of that frame are not repaired", "")
        href = f"{spec['mod']}:{spec['cls']}.{hname}"
        if not repo.has_func(href):
            raise AnalysisError(f"anchor handler {href} not found")
        h = Fn(repo, href)
        params = [a.arg for a in h.node.args.args]
        dpar = params[1] if len(params) > 1 else "delivery"
        # statements of the not-ACKED branch
        lost = []
        for st in h.stmts():
            at = h.guard_atoms(st) + h.lexical_guards(st, expand=False)
            if natom(f"{dpar} != QuicDeliveryState.ACKED") in at or natom(f"{dpar} == QuicDeliveryState.ACKED", False) in at:
                lost.append(st)
        texts = [norm(s) for s in lost]
        for want in spec["rearm"]:
            hit = [s for s in lost if norm(s) == want]
            chk.ob("R1", f"{hname}: the not-ACKED branch re-arms `{want}`", bool(hit), f"lost-frame branch contains {texts[:6]}: the consumed state is not restored, the frame is never retransmitted", h.loc(h.node))
            for s in hit:
                extra = [a for a in h.lexical_guards(s, expand=False) if "QuicDeliveryState" not in a[0] and a not in (("stop > start", True), ("fin", True))]
                chk.ob("R1", f"{hname}: `{want}` is conditional only on the frame being lost (and on what the frame carried)", not extra, f"additional conditions {extra}", h.loc(s))
                if spec.get("with"):
                    # the scheduler does not read the re-armed state itself but a summary flag: it must be set with it
                    sib = [norm(x) for x in getattr(getattr(s, "_parent", None), "body", [])]
                    chk.ob("R1", f"{hname}: `{want}` comes with `{spec['with']}` (the flag the scheduler reads)", spec["with"] in sib, "the re-armed state is invisible to _write_application, which skips streams whose sender reports an empty buffer: a frame lost on its own is never retransmitted", h.loc(s))
        # re-arm happens for LOST, not for ACKED
        acked = [norm(s) for s in h.stmts() if (natom(f"{dpar} == QuicDeliveryState.ACKED") in h.guard_atoms(s) + h.lexical_guards(s, expand=False))]
        bad = [w for w in spec["rearm"] if w in acked]
        chk.ob("R1", f"{hname}: nothing is re-armed when the frame was acknowledged", not bad, f"{bad}", h.loc(h.node))
        # consumption exists
        cf = Fn(repo, spec["consume_fn"])
        ctexts = [norm(s) for s in cf.stmts()]
        for want in spec["consume"]:
            chk.ob("R1", f"{cf.qual}: the writer side consumes `{want}`", want in ctexts, "consumption vanished (the pairing table is stale) - re-read the writer", cf.loc(cf.node))
        # the scheduler tests the state again
        tests = []
        test_atoms = set()
        for g in _all_fns(repo):
            if g.mod.name in ("quic.connection", "quic.stream") and (g.qual.split(".")[-1].startswith("_write") or g.qual.split(".")[-1] in ("get_frame", "datagrams_to_send")):
                for st in g.stmts(lambda s: isinstance(s, (ast.If, ast.While, ast.For))):
                    tests.append(norm(st.test) if not isinstance(st, ast.For) else norm(st.iter))
                    if not isinstance(st, ast.For):
                        # either polarity: `if state != sent: write` and `if state == sent: continue` test the same thing
                        test_atoms |= {a[0] for a in flatten_cond(st.test, True)} | {a[0] for a in flatten_cond(st.test, False)}
        for frag in spec["sched"]:
            try:
                fa = {natom(frag)[0], natom(frag, False)[0]}
            except (ValueError, SyntaxError):
                fa = set()
            chk.ob("R1", f"{hname}: the scheduler tests `{frag}` (so re-armed state leads to a new frame)", any(frag in t for t in tests) or bool(fa & test_atoms), "no write-path condition reads the re-armed state", "")
        # handler_args carry what was consumed
        for fn, c in regs:
            ha = get_kw(c, "handler_args", 3)
            if spec["args"] is None:
                ok = ha is None or norm(ha) in ("[]", "()")
            else:
                got = norm(ha) if ha is not None else None
                if "{fin}" in spec["args"]:
                    ok = got in (spec["args"].format(fin="frame.fin"), spec["args"].format(fin="False"))
                else:
                    ok = got == spec["args"] or (got is not None and got.replace(" ", "") == spec["args"].replace(" ", ""))
                if hname == "_on_ping_delivery" and ha is None:
                    ok = True  # probe PING: nothing to re-queue
                if hname == "_on_ping_delivery" and got in ("(uids,)", "(tuple(uids),)", "(list(uids),)", "(uids or [],)"):
                    ok = True
            chk.ob("R1", f"{fn.qual.split('.')[-1]}: handler_args of {hname} identify what this frame carried", ok, f"handler_args={norm(ha) if ha is not None else None}, expected {spec['args']}", fn.loc(c))
    return sites


def r1b(repo, chk, sites):
    # (1) writer-internal consumption follows start_frame
    for hname, spec in PAIRS.items():
        cf = Fn(repo, spec["consume_fn"])
        if spec.get("getter_first"):
            continue
        if spec.get("after_call"):
            # consumption in the caller, after the writer call returned
            calls = cf.calls(name=spec["after_call"])
            cons = [s for s in cf.stmts() if norm(s) in spec["consume"]]
            ok = bool(calls) and bool(cons)
            for s in cons:
                # some writer call completed on every path to the consumption, in the same block / iteration
                blk = s._parent
                same = [c for c in calls if inside(c, blk) and cf.before(c, s)]
                ok = ok and bool(same)
            # and the consumed value is not popped inside the writer call's own arguments
            for c in calls:
                for n in ast.walk(c):
                    if n is not c and isinstance(n, ast.Call) and isinstance(n.func, ast.Attribute) and n.func.attr in ("pop", "popleft", "clear"):
                        ok = False
            chk.ob("R1b", f"{cf.qual.split('.')[-1]}: `{spec['consume'][0]}` runs only after {spec['after_call'].split('.')[-1]} returned", ok, "the pending state is consumed before start_frame is known to succeed: if the packet is full (QuicPacketBuilderStop) it is forgotten and never announced", cf.loc(cf.node))
        else:
            # consumption inside the writer or its getter: start_frame first
            writers = [(fn, c) for fn, c, h, t in sites if h is not None and norm(h).split(".")[-1] == hname]
            for fn, c in writers:
                cons = [s for s in fn.stmts() if norm(s) in spec["consume"]]
                getters = [g for g in fn.calls() if call_name(g).endswith(("get_reset_frame", "get_stop_frame"))]
                ok = all(fn.before(c, s) for s in cons) and all(fn.before(c, g) for g in getters) and (bool(cons) or bool(getters))
                chk.ob("R1b", f"{fn.qual.split('.')[-1]}: the state paired with {hname} is consumed only after start_frame returned", ok, "consumption precedes start_frame: a full packet loses the pending state", fn.loc(c))
    # (2) STREAM / CRYPTO: getter before start_frame, so the getter must refuse when there is no room
    g = Fn(repo, "quic.stream:QuicStreamSender.get_frame")
    cons = [s for s in g.stmts() if norm(s) in ("self._pending_eof = False", "self._pending.subtract(start, stop)")]
    for s in cons:
        at = g.guard_atoms(s) + g.guard_atoms_x(s)
        if norm(s) == "self._pending_eof = False" and any("IndexError" in norm(h.type) for h in g.enclosing_handlers(s) if h.type is not None) or (norm(s) == "self._pending_eof = False" and isinstance(_enclosing(s, ast.ExceptHandler), ast.ExceptHandler)):
            ok = natom("max_size < 0", False) in at or natom("max_size >= 0") in at
            chk.ob("R1b", "get_frame: `self._pending_eof = False` is consumed only when the caller's frame fits", ok, "a FIN-only frame is handed out (and the pending end-of-stream cleared) although the caller has no room for the frame header; start_frame then raises and the end of the stream is never sent", g.loc(s))
        elif norm(s) == "self._pending_eof = False":
            ok = natom("self._buffer_fin == stop") in at
            chk.ob("R1b", "get_frame: the FIN bit is consumed together with the last data bytes", ok, "", g.loc(s))
        else:
            # data: stop > start must hold, with stop <= start + max_size
            ok = natom("stop <= start", False) in at or natom("stop > start") in at
            defs = [norm(d) for d in g.local_defs("stop")]
            ok = ok and any(d == "min(r.stop, start + max_size)" for d in defs)
            chk.ob("R1b", "get_frame: data is consumed only for a non-empty range cut to max_size", ok, f"stop definitions {defs}", g.loc(s))
    if len(cons) < 3:
        raise AnalysisError("get_frame: consumption statements not found")
    for wname in ("_write_stream_frame", "_write_crypto_frame"):
        w = Fn(repo, CONN + wname)
        gf = [c for c in w.calls(suffix="get_frame")]
        sf = [c for c in w.calls(suffix="start_frame")]
        ok = len(gf) == 1 and len(sf) == 1
        if ok:
            cap = get_kw(sf[0], "capacity", 1)
            a0 = norm(gf[0].args[0]) if gf[0].args else ""
            ok = cap is not None and a0 == f"builder.remaining_flight_space - {norm(cap)}" and (not isinstance(cap, ast.Name) or all(w.before(st, gf[0]) for st, t, v in w.assigns(chain=cap.id)))
            # the frame is only started when the getter returned one
            ok = ok and ("frame is not None", True) in w.guard_atoms(sf[0])
        chk.ob("R1b", f"{wname}: the getter is asked for at most remaining_flight_space - capacity bytes, capacity being what start_frame reserves", ok, "the room test of the getter and the capacity of start_frame disagree: a frame can be consumed that start_frame refuses", w.loc(w.node))
    ok, detail = start_frame_refusal(repo)
    chk.ob("R1b", "start_frame refuses only for lack of buffer / flight space relative to the declared capacity", ok, detail, Fn(repo, "quic.packet_builder:QuicPacketBuilder.start_frame").loc(Fn(repo, "quic.packet_builder:QuicPacketBuilder.start_frame").node))
    pb = repo.mod("quic.packet_builder")
    rb = Fn(repo, "quic.packet_builder:QuicPacketBuilder.remaining_buffer_space")
    rf = Fn(repo, "quic.packet_builder:QuicPacketBuilder.remaining_flight_space")
    a = [norm(r.value) for r in rb.returns()]
    b = [norm(r.value) for r in rf.returns()]
    ok = len(a) == 1 and len(b) == 1 and a[0].replace("self._buffer_capacity", "X") == b[0].replace("self._flight_capacity", "X")
    chk.ob("R1b", "remaining_flight_space and remaining_buffer_space differ only in the capacity they start from (flight capacity <= buffer capacity, C13-R3)", ok, "", rb.loc(rb.node))


def start_frame_refusal(repo):
    """start_frame goes on to write the frame exactly when the capacity fits the buffer space and - for frame types
    that count as in flight - the flight space.  Decided on paths (CFG edges contradicting the assumed atoms are
    pruned), so one compound test, consecutive tests and nested tests are the same to this rule."""
    sf = Fn(repo, "quic.packet_builder:QuicPacketBuilder.start_frame")
    rs = sf.raises("QuicPacketBuilderStop")
    go = sf.calls(name="self._buffer.push_uint_var")
    if not rs or len(go) != 1:
        return False, "raise QuicPacketBuilderStop / the frame-type write not found"
    cfg = sf.cfg
    cont = cfg.node_of(go[0])
    A = natom("self.remaining_buffer_space < capacity")
    B = natom("frame_type not in NON_IN_FLIGHT_FRAME_TYPES")
    C = natom("self.remaining_flight_space < capacity")
    nA, nB, nC = natom("self.remaining_buffer_space < capacity", False), natom("frame_type not in NON_IN_FLIGHT_FRAME_TYPES", False), natom("self.remaining_flight_space < capacity", False)
    raise_nodes = [cfg.node_of(r) for r in rs]
    problems = []
    if sf.reaches_assuming(cfg.entry, cont, [A]):
        problems.append("a frame larger than the buffer space is started")
    if sf.reaches_assuming(cfg.entry, cont, [B, C]):
        problems.append("an in-flight frame larger than the flight space is started")
    for assume, what in (([nA, nB], "a frame that fits and does not count as in flight is refused"), ([nA, nC], "a frame that fits buffer and flight space is refused")):
        if any(sf.reaches_assuming(cfg.entry, rn, assume) for rn in raise_nodes) or not sf.reaches_assuming(cfg.entry, cont, assume):
            problems.append(what)
    writes = [norm(st) for st, t, v in sf.assigns() if cfg.reaches(cfg.entry, cfg.begin.get(st, -1)) and sf.before(st, go[0]) and not isinstance(t, ast.Name)]
    if writes:
        problems.append(f"state written before the tests: {writes[:2]}")
    return not problems, "; ".join(problems)


def _stmt_of(n):
    while not isinstance(n, ast.stmt):
        n = n._parent
    return n


def _enclosing(n, typ):
    p = getattr(n, "_parent", None)
    while p is not None:
        if isinstance(p, typ):
            return p
        p = getattr(p, "_parent", None)
    return None


def r5(repo, chk):
    """reordering tolerance of state a late packet could roll back"""
    chk.rule("R5", "a reordered (late) packet cannot roll state back: the peer's flow-control limits only grow (the C06-R2 obligations), and the active network path changes only for a non-probing packet that carries the highest packet number seen so far")
    from . import c06

    class Sub:
        n = 0

        def ob(self, rule, key, ok, msg="", loc="", detail=None):
            if "only ever raises the peer's limit" in key:
                Sub.n += 1
                return chk.ob("R5", key, ok, msg or "a delayed MAX_DATA / MAX_STREAM_DATA / MAX_STREAMS frame lowers the limit again: sender and receiver then wait for each other until the idle timeout", loc, detail)
            return ok

        def count(self, *a):
            pass

        def rule(self, *a):
            pass

        def decline(self, *a):
            pass

    c06.r2(repo, Sub())
    if Sub.n < 3:
        raise AnalysisError(f"C01-R5: only {Sub.n} limit-monotonicity obligations were generated")
    rd = Fn(repo, CONN + "receive_datagram")
    moves = [c for c in rd.calls(name="self._network_paths.insert") if c.args and norm(c.args[0]) == "0"]
    chk.ob("R5", "receive_datagram promotes a network path in one place", len(moves) == 1, f"{len(moves)} insert(0, ...) calls on _network_paths", rd.loc(rd.node))
    for c in moves:
        lg = set(rd.lexical_guards(c, expand=False))
        want = {("idx", True), ("is_probing", False), natom("packet_number > space.largest_received_packet")}
        chk.ob("R5", "the active path changes only for a non-probing packet with the highest packet number seen so far", want <= lg, f"guards {sorted(lg)}: a delayed packet from the old address makes the endpoint send to that (dead) address again", rd.loc(c))
        ups = [st for st, t, v in rd.assigns(suffix="largest_received_packet") if norm(v) == "packet_number"]
        chk.ob("R5", "the promotion test reads largest_received_packet before this packet updates it", bool(ups) and all(c.lineno < st.lineno for st in ups), "", rd.loc(c))


def r2(repo, chk):
    rd = Fn(repo, CONN + "receive_datagram")
    pr = rd.calls(name="self._payload_received")
    if not pr:
        raise AnalysisError("receive_datagram: _payload_received call not found")
    ok = False
    detail = ""
    for p in pr:
        at = rd.guard_atoms(p)
        a1 = [a for a in at if "ack_queue" in a[0] and " not in " in a[0] and a[1]]
        a2 = [a for a in at if "ack_queue_start" in a[0] and a[1] and (" >= " in a[0] or " > " in a[0])]
        detail = f"path condition mentions {a1 + a2}"
        ok = bool(a1)
        if ok:
            pn = a1[0][0].split(" not in ")[0]
            decs = rd.calls(suffix="decrypt_packet")
            ok = pn == "packet_number" and all(rd.before(d, p) for d in decs)
    chk.ob("R2", "receive_datagram processes the frames of a packet only if its number was not processed before", ok, detail + ": a duplicated datagram is handled twice (e.g. a second PATH_RESPONSE closes the connection with PROTOCOL_VIOLATION)", rd.loc(pr[0]))
    # the skip is a `continue` (next coalesced packet), and it happens before any state is touched
    tests = [st for st in rd.stmts(lambda s: isinstance(s, ast.If)) if "ack_queue" in norm(st.test) and any(isinstance(b, ast.Continue) for b in st.body)]
    chk.ob("R2", "a duplicate is skipped with `continue` (the rest of the datagram is still processed)", len(tests) == 1, "", rd.loc(rd.node))
    for t in tests:
        adds = [c for c in rd.calls(suffix="add") if call_name(c).endswith("ack_queue.add")]
        ws = [st for st, tt, v in rd.assigns(suffix="expected_packet_number")]
        ok = all(rd.before(t, a) for a in adds) and all(rd.before(t, w) for w in ws)
        chk.ob("R2", "the duplicate test precedes the recording of the packet and every state update", ok, "", rd.loc(t))
    # the floor only rises with pruning
    oa = Fn(repo, CONN + "_on_ack_delivery")
    ws = [(st, v) for st, t, v in oa.assigns(suffix="ack_queue_start")]
    ok = bool(ws) and all(any(" > " in a[0] and "ack_queue_start" in a[0] and a[1] for a in oa.guard_atoms(st)) for st, v in ws)
    chk.ob("R2", "_on_ack_delivery raises the duplicate floor together with pruning (never lowers it)", ok, "", oa.loc(oa.node))
    # every number that leaves the queue is below the floor afterwards: floor := end of the removed range
    subs = [c for c in oa.calls(suffix="subtract") if call_name(c).endswith("ack_queue.subtract")]
    ok = len(subs) == 1 and len(subs[0].args) == 2 and norm(subs[0].args[0]) == "0" and bool(ws) and all(norm(v) == norm(subs[0].args[1]) for st, v in ws) and all(natom(f"{norm(subs[0].args[1])} > space.ack_queue_start") in oa.guard_atoms(st) for st, v in ws)
    chk.ob("R2", "_on_ack_delivery: the floor becomes exactly the end of the pruned range [0, end)", ok, f"pruned {[norm(a) for c in subs for a in c.args]}, floor := {[norm(v) for st, v in ws]}: a packet number that is neither in the queue nor below the floor is processed again when a late copy arrives", oa.loc(oa.node))
    # the test in receive_datagram is the strict `packet_number < floor`
    strict = [a for a in rd.guard_atoms(pr[0]) if "ack_queue_start" in a[0]]
    ok = natom("packet_number < space.ack_queue_start", False) in strict or natom("packet_number >= space.ack_queue_start") in strict
    chk.ob("R2", "receive_datagram drops exactly the numbers below the floor (packet_number < ack_queue_start)", ok, f"{strict}", rd.loc(pr[0]))
    # the other place that removes ranges from the queue (bounded number of ACK ranges) raises the floor to what it dropped
    for c in rd.calls(suffix="shift"):
        if call_name(c).endswith("ack_queue.shift"):
            st = c
            while st is not None and not isinstance(st, ast.stmt):
                st = getattr(st, "_parent", None)
            txt = norm(st) if st is not None else ""
            chk.ob("R2", "receive_datagram: ranges dropped from a full ACK queue raise the floor to their end", txt.replace(" ", "") == "space.ack_queue_start=space.ack_queue.shift().stop", f"`{txt}`", rd.loc(c))


def r3(repo, chk):
    ht = Fn(repo, CONN + "handle_timer")
    c = ht.calls(name="self._loss.on_loss_detection_timeout")
    ok = len(c) == 1 and ("self._loss_at is not None", True) in ht.guard_atoms(c[0]) and natom("now >= self._loss_at") in ht.guard_atoms(c[0])
    chk.ob("R3", "handle_timer runs loss detection when the loss timer is due", ok, "", ht.loc(ht.node))
    lt = Fn(repo, "quic.recovery:QuicPacketRecovery.on_loss_detection_timeout")
    dl = lt.calls(name="self._detect_loss")
    rs = lt.calls(name="self.reschedule_data")
    ok = len(dl) == 1 and len(rs) == 1 and ("loss_space is not None", True) in lt.guard_atoms(dl[0]) and ("loss_space is not None", False) in [(a[0].replace(" is None", " is not None"), not a[1]) if a[0].endswith(" is None") else a for a in lt.guard_atoms(rs[0])]
    chk.ob("R3", "on_loss_detection_timeout declares losses when a loss time is set and sends a probe otherwise", ok, "", lt.loc(lt.node))
    inc = [st for st, t, v in lt.assigns(chain="self._pto_count") if isinstance(st, ast.AugAssign)]
    chk.ob("R3", "a probe timeout backs off (pto_count += 1) before rescheduling", len(inc) == 1 and bool(rs) and lt.before(inc[0], rs[0]), "", lt.loc(lt.node))
    rd = Fn(repo, "quic.recovery:QuicPacketRecovery.reschedule_data")
    sp = rd.calls(name="self._send_probe")
    chk.ob("R3", "reschedule_data always asks for a probe", len(sp) == 1 and rd.cfg.postdominates(rd.cfg.node_of(sp[0]), rd.cfg.entry), "", rd.loc(rd.node))
    dl_ = Fn(repo, "quic.recovery:QuicPacketRecovery._detect_loss")
    pl = dl_.calls(name="self._on_packets_lost")
    chk.ob("R3", "_detect_loss hands the lost packets to _on_packets_lost on every path", len(pl) == 1 and dl_.cfg.postdominates(dl_.cfg.node_of(pl[0]), dl_.cfg.entry), "", dl_.loc(dl_.node))
    ar = Fn(repo, CONN + "_handle_ack_frame")
    oc = ar.calls(name="self._loss.on_ack_received")
    chk.ob("R3", "_handle_ack_frame forwards the ranges to the recovery object", len(oc) == 1, "", ar.loc(ar.node))


def r4(repo, chk):
    m = repo.mod("quic.connection")
    n = 0
    for q in sorted(m.functions):
        if not (q.startswith("QuicConnection._handle_") and q.endswith("_frame")):
            continue
        h = Fn(repo, "quic.connection:" + q)
        risky = [c for c in h.calls(name="self._get_or_create_stream")]
        if not risky:
            continue
        pulls = [c for c in h.calls() if call_name(c).startswith("buf.pull_")]
        n += 1
        for r in risky:
            late = [p for p in pulls if h.cfg.reaches(h.cfg.node_of(r), h.cfg.node_of(p)) and h.cfg.node_of(p) != h.cfg.node_of(r)]
            chk.ob("R4", f"{q.split('.')[-1]}: the whole frame is parsed before _get_or_create_stream (whose StreamFinishedError is ignored by the frame loop)", not late, f"`{norm(late[0]) if late else ''}` runs after the stream lookup: when the stream's state was discarded the rest of the frame is parsed as new frames", h.loc(r))
    if n < 5:
        raise AnalysisError("frame handlers using _get_or_create_stream not found")
    pr = Fn(repo, CONN + "_payload_received")
    ign = [h for st in pr.stmts(lambda s: isinstance(s, ast.Try)) for h in st.handlers if h.type is not None and norm(h.type) == "StreamFinishedError"]
    chk.ob("R4", "_payload_received ignores StreamFinishedError and goes on with the next frame", len(ign) == 1 and all(isinstance(s, ast.Pass) for s in ign[0].body), "", pr.loc(pr.node))
    # end-of-stream is signalled at most once: QuicStreamReceiver.handle_frame answers a frame that arrives after the
    # receiving part finished (a retransmission overtaken by its delayed original) with another end_stream=True event
    # - its unit test pins that - so the connection queues a stream event only if the receiver had not finished before
    hs = Fn(repo, CONN + "_handle_stream_frame")
    hcalls = [c for c in hs.calls(suffix="handle_frame") if "receiver" in call_name(c)]
    apps = [c for c in hs.calls(name="self._events.append")]
    ok = len(hcalls) == 1 and len(apps) == 1
    if ok:
        recv = norm(hcalls[0].func.value)
        ok = False
        # a local that sampled <receiver>.is_finished *before* the frame was handled, tested false at the append
        for a_ in hs.guard_atoms(apps[0]):
            if a_[0].isidentifier() and a_[1] is False:
                d = [st for st, t, v in hs.assigns(chain=a_[0])]
                if len(d) == 1 and norm(d[0].value) == f"{recv}.is_finished" and hs.before(d[0], hcalls[0]):
                    ok = True
    chk.ob("R4", "_handle_stream_frame queues the receiver's event only if the receiving part had not already finished", ok, "a STREAM frame retransmitted after a spurious loss and delivered together with its delayed original makes the application see end_stream=True twice (findings/c01_end_of_stream_twice_demo.py)", hs.loc(hs.node))
    hf = Fn(repo, "quic.stream:QuicStreamReceiver.handle_frame")
    direct = [r for r in hf.returns() if r.value is not None and isinstance(r.value, ast.Call) and "StreamDataReceived" in call_name(r.value) and norm(get_kw(r.value, "data")) == "frame.data"]
    for r in direct:
        at = hf.guard_atoms(r) + hf.lexical_guards(r, expand=False)
        flat = []
        for t, p in at:
            flat.append((t, p))
        txt = " & ".join(f"{'' if p else 'not '}{t}" for t, p in flat)
        ok = any(t == "pos == 0" and p or t == "0 == pos" and p for t, p in flat) or "pos == 0" in txt
        ok = ok and (("self._buffer", False) in flat or "not self._buffer" in txt)
        chk.ob("R4", "QuicStreamReceiver.handle_frame delivers a frame's data directly only when it is the next in-order chunk and nothing is buffered", ok, f"shortcut condition: {txt[:160]}: with data (or a FIN offset) buffered behind it the shortcut loses the end-of-stream signal / reorders data", hf.loc(r))
    chk.ob("R4", "QuicStreamReceiver.handle_frame has (at most) one direct-delivery shortcut", len(direct) <= 1, "", hf.loc(hf.node))
    # the general path signals end_stream from the final size
    es = [norm(v) for st, t, v in hf.assigns(chain="end_stream")]
    chk.ob("R4", "the buffered path signals end of stream exactly when the read offset reaches the final size", es == ["self._buffer_start == self._final_size"], f"{es}", hf.loc(hf.node))
