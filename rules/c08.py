"""C08 - loss-recovery and congestion accounting stay consistent (claimed in part).

R1  ledger ownership: sent_packets is written only by the four recovery functions; bytes_in_flight only
    inside the congestion controllers' four callbacks; a sent packet's accounting fields only by the
    packet builder; no delivery handler touches the ledger
R2  one congestion callback per removal: every statement that removes packets from sent_packets is
    paired, on all paths, with exactly one of on_packet_acked / on_packets_lost / on_packets_expired
    for the in-flight ones, and with the ack_eliciting_in_flight decrement; insertion is paired with
    on_packet_sent; delivery handlers are invoked once per removed packet with ACKED resp. LOST
R3  sibling agreement: every registered controller adds sent_bytes once in on_packet_sent and
    subtracts it once per packet in each of the three removal callbacks, on all paths
R4  reduction floor: every congestion_window assignment in on_packets_lost is max(..., K_MINIMUM_WINDOW
    * max_datagram_size); K_MINIMUM_WINDOW >= 2; no other function reduces the window
R5  budget plumbing: max_flight_bytes = cwnd - bytes_in_flight before any packet is built, raised to
    one datagram only under _probe_pending, the probe allowance is consumed before bulk data can fill
    the packet; start_frame refuses in-flight frames beyond the budget
"""
from __future__ import annotations

import ast

from sa.pyfacts import Unknown, attr_chain, call_name, chains_in, get_kw, norm
from sa.q import Fn, inside, natom
from sa.report import AnalysisError

LEVEL = "other"
REC = "quic.recovery:QuicPacketRecovery."
CONN = "quic.connection:QuicConnection."
REMOVAL_CB = ("on_packet_acked", "on_packets_lost", "on_packets_expired")


def _fns(repo, pred=lambda m, q: True):
    for m in repo.modules.values():
        if m.path.endswith(".pyi"):
            continue
        for q in sorted(m.functions):
            if pred(m, q):
                yield Fn(repo, f"{m.name}:{q}")


def _controllers(repo):
    """classes registered through register_congestion_control (+ their module)"""
    out = []
    for m in repo.modules.values():
        for st in m.tree.body:
            if isinstance(st, ast.Expr) and isinstance(st.value, ast.Call) and call_name(st.value) == "register_congestion_control" and len(st.value.args) == 2:
                cn = norm(st.value.args[1])
                if cn in m.classes:
                    out.append((m, cn))
    return out


def run(repo, chk):
    chk.rule("R1", "who-may-write: sent_packets {on_packet_sent, on_ack_received, _on_packets_lost, discard_space}; bytes_in_flight {controller callbacks}; QuicSentPacket.in_flight/sent_bytes/is_ack_eliciting {packet_builder}; delivery handlers never write the ledger")
    chk.rule("R2", "each removal from sent_packets is paired with exactly one congestion callback for in-flight packets (three idioms) and with the ack-eliciting counter; insertion with on_packet_sent; delivery handlers called once per removed packet")
    chk.rule("R3", "every registered controller: += sent_bytes once in on_packet_sent; -= sent_bytes once per packet on every path of on_packet_acked / on_packets_lost / on_packets_expired")
    chk.rule("R4", "congestion_window assignments in on_packets_lost are max(..., K_MINIMUM_WINDOW * max_datagram_size) with K_MINIMUM_WINDOW >= 2; elsewhere only non-reducing forms (other forms are listed as not proved, definite reductions are violations)")
    chk.rule("R5", "datagrams_to_send: max_flight_bytes = congestion_window - bytes_in_flight before any writer; raised to max_datagram_size only under _probe_pending; the probe flag is cleared before any bulk-data writer in the packet loop; start_frame refuses in-flight frame types beyond remaining_flight_space")
    chk.decline("numeric window evolution and 'never more in flight than the window' as an arithmetic fact over schedules")
    r1(repo, chk)
    r2(repo, chk)
    r3_r4(repo, chk)
    r5(repo, chk)
    r5_packet_accounting(repo, chk)


# ---- R1 ---------------------------------------------------------------------------------------------

SP_WRITERS = {"QuicPacketRecovery.on_packet_sent": "insert", "QuicPacketRecovery.on_ack_received": "pop", "QuicPacketRecovery._on_packets_lost": "del", "QuicPacketRecovery.discard_space": "clear"}


def _sp_sites(fn: Fn):
    out = []
    for st in fn.stmts():
        if isinstance(st, ast.Assign):
            for t in st.targets:
                if isinstance(t, ast.Subscript) and isinstance(t.value, ast.Attribute) and t.value.attr == "sent_packets":
                    out.append(("insert", st))
                if isinstance(t, ast.Attribute) and t.attr == "sent_packets":
                    out.append(("assign", st))
        if isinstance(st, ast.AnnAssign) and isinstance(st.target, ast.Attribute) and st.target.attr == "sent_packets":
            out.append(("assign", st))
        if isinstance(st, ast.Delete):
            for t in st.targets:
                if isinstance(t, ast.Subscript) and isinstance(t.value, ast.Attribute) and t.value.attr == "sent_packets":
                    out.append(("del", st))
    for c in fn.calls():
        f = c.func
        if isinstance(f, ast.Attribute) and isinstance(f.value, ast.Attribute) and f.value.attr == "sent_packets" and f.attr in ("pop", "clear", "popitem", "update", "setdefault", "__delitem__", "__setitem__"):
            out.append((f.attr, c))
    return out


def r1(repo, chk):
    n = 0
    for fn in _fns(repo):
        for kind, node in _sp_sites(fn):
            n += 1
            if fn.qual == "QuicPacketSpace.__init__" and kind == "assign":
                continue
            ok = SP_WRITERS.get(fn.qual) == kind
            chk.ob("R1", f"{fn.qual}: `{norm(node)[:60]}` is one of the four ledger operations", ok, f"sent_packets is written ({kind}) outside on_packet_sent/on_ack_received/_on_packets_lost/discard_space", fn.loc(node))
    if n < 5:
        raise AnalysisError("sent_packets writers not found")
    ctrl = _controllers(repo)
    if len(ctrl) < 2:
        raise AnalysisError("fewer than two registered congestion controllers found")
    allowed = {f"{c}.{cb}" for m, c in ctrl for cb in ("on_packet_sent",) + REMOVAL_CB}
    for fn in _fns(repo):
        for st, t, v in fn.assigns(suffix="bytes_in_flight"):
            if not isinstance(t, ast.Attribute):
                continue
            ok = fn.qual in allowed
            chk.ob("R1", f"{fn.qual}: `{norm(st)[:50]}` changes bytes_in_flight inside a controller callback", ok, "the in-flight ledger is written outside on_packet_sent/acked/lost/expired", fn.loc(st))
        for field in ("in_flight", "sent_bytes", "is_ack_eliciting", "delivery_handlers", "is_crypto_packet"):
            for st, t, v in fn.assigns(suffix=field):
                if isinstance(t, ast.Attribute) and norm(t.value) in ("self._packet", "packet") and field != "delivery_handlers":
                    ok = fn.mod.name == "quic.packet_builder"
                    chk.ob("R1", f"{fn.qual}: `{norm(st)[:50]}` sets a sent packet's accounting field in the packet builder", ok, "a packet's in_flight / sent_bytes / is_ack_eliciting changes after it was registered", fn.loc(st))
    # delivery handlers (registered through start_frame(handler=...)) never touch the ledger
    handlers = set()
    for fn in _fns(repo):
        for c in fn.calls(suffix="start_frame"):
            h = get_kw(c, "handler", 2)
            if h is not None:
                handlers.add(norm(h).split(".")[-1])
    nh = 0
    for fn in _fns(repo):
        if fn.qual.split(".")[-1] in handlers:
            nh += 1
            bad = _sp_sites(fn) or [st for st, t, v in fn.assigns(suffix="bytes_in_flight")]
            chk.ob("R1", f"delivery handler {fn.qual} does not touch sent_packets / bytes_in_flight", not bad, "", fn.loc(fn.node))
    chk.count("delivery_handlers", sorted(handlers))
    if nh < 8:
        raise AnalysisError(f"only {nh} delivery handlers found")


# ---- R2 ---------------------------------------------------------------------------------------------


def _loop_of(n):
    p = getattr(n, "_parent", None)
    while p is not None and not isinstance(p, (ast.FunctionDef, ast.AsyncFunctionDef)):
        if isinstance(p, (ast.For, ast.While)):
            return p
        p = getattr(p, "_parent", None)
    return None


def r2(repo, chk):
    # insertion
    ps = Fn(repo, REC + "on_packet_sent")
    ins = [n for k, n in _sp_sites(ps) if k == "insert"]
    cbs = ps.calls(name="self._cc.on_packet_sent")
    ok = len(ins) == 1 and len(cbs) == 1 and set(ps.guard_atoms_x(cbs[0])) == {("packet.in_flight", True)} and not ps.guard_atoms(ins[0]) and not ps.lexical_guards(ins[0], expand=False) and norm(get_kw(cbs[0], "packet", 0)) == "packet"
    chk.ob("R2", "on_packet_sent: insertion is unconditional and the controller is told exactly when packet.in_flight", ok, "", ps.loc(ps.node))
    inc = [st for st, t, v in ps.assigns(suffix="ack_eliciting_in_flight") if isinstance(st, ast.AugAssign) and isinstance(st.op, ast.Add)]
    ok = len(inc) == 1 and ps.lexical_guards(inc[0], expand=False) == [("packet.is_ack_eliciting", True)]
    chk.ob("R2", "on_packet_sent: ack_eliciting_in_flight += 1 exactly when packet.is_ack_eliciting", ok, "", ps.loc(ps.node))
    # callers of on_packet_sent: once per flushed packet
    ds = Fn(repo, CONN + "datagrams_to_send")
    calls = ds.calls(name="self._loss.on_packet_sent")
    ok = len(calls) == 1
    if ok:
        l = _loop_of(calls[0])
        ok = l is not None and norm(l.iter) == "packets" and norm(get_kw(calls[0], "packet")) == norm(l.target) and not [a for a in ds.lexical_guards(calls[0], expand=False) if a != ("datagrams", True)]
        sp = get_kw(calls[0], "space")
        ok = ok and sp is not None and norm(sp) == f"self._spaces[{norm(l.target)}.epoch]"
    chk.ob("R2", "datagrams_to_send registers every flushed packet once, in the space of its epoch", ok, "", ds.loc(ds.node))

    # removal 1: on_ack_received (direct call under `if packet.in_flight`)
    ar = Fn(repo, REC + "on_ack_received")
    pops = [n for k, n in _sp_sites(ar) if k == "pop"]
    chk.ob("R2", "on_ack_received removes acknowledged packets by pop()", len(pops) == 1, "", ar.loc(ar.node))
    for p in pops:
        st = p
        while not isinstance(st, ast.stmt):
            st = st._parent
        var = norm(st.targets[0]) if isinstance(st, ast.Assign) else None
        body = st._parent.body if hasattr(st._parent, "body") else []
        cb = [c for c in ar.calls(name="self._cc.on_packet_acked")]
        ok = var is not None and len(cb) == 1 and norm(get_kw(cb[0], "packet")) == var and ar.before(st, cb[0])
        if ok:
            extra = [a for a in ar.lexical_guards(cb[0], expand=False) if a not in ar.lexical_guards(st, expand=False)]
            ok = extra == [(f"{var}.in_flight", True)]
        chk.ob("R2", "on_ack_received: each popped packet reaches on_packet_acked exactly when it is in flight", ok, "callback missing, conditional on something else, or for another packet", ar.loc(p))
        dec = [s2 for s2, t, v in ar.assigns(suffix="ack_eliciting_in_flight") if isinstance(s2, ast.AugAssign) and isinstance(s2.op, ast.Sub)]
        ok = len(dec) == 1 and [a for a in ar.lexical_guards(dec[0], expand=False) if a not in ar.lexical_guards(st, expand=False)] == [(f"{var}.is_ack_eliciting", True)] and ar.before(st, dec[0])
        chk.ob("R2", "on_ack_received: ack_eliciting_in_flight -= 1 exactly for ack-eliciting popped packets", ok, "", ar.loc(p))
        # guard: only numbers in the ACK ranges are removed; never-sent numbers are simply absent from the dict
        lg = ar.lexical_guards(st, expand=False)
        chk.ob("R2", "on_ack_received only pops packet numbers that are tracked and covered by the ACK ranges", ("packet_number in ack_rangeset", True) in lg + ar.guard_atoms(st) and _loop_of(st) is not None and "sent_packets" in norm(_loop_of(st).iter), f"guards {lg}", ar.loc(p))
        hl = [l for l in ar.stmts(lambda s: isinstance(s, ast.For)) if norm(l.iter) == f"{var}.delivery_handlers"]
        ok = len(hl) == 1 and ar.before(st, hl[0]) and [a for a in ar.lexical_guards(hl[0], expand=False) if a not in lg] == []
        if ok:
            hc = [c for c in ast.walk(hl[0]) if isinstance(c, ast.Call) and isinstance(c.func, ast.Name)]
            ok = len(hc) == 1 and norm(hc[0].args[0]) == "QuicDeliveryState.ACKED" and not [s for s in ast.walk(hl[0]) if isinstance(s, (ast.Break, ast.Continue, ast.Return))]
        chk.ob("R2", "on_ack_received calls every delivery handler of a popped packet once with ACKED", ok, "", ar.loc(p))

    # removal 2: _on_packets_lost (collect into list, call once)
    pl = Fn(repo, REC + "_on_packets_lost")
    dels = [n for k, n in _sp_sites(pl) if k == "del"]
    chk.ob("R2", "_on_packets_lost removes lost packets by del", len(dels) == 1, "", pl.loc(pl.node))
    for d in dels:
        loop = _loop_of(d)
        var = norm(loop.target) if loop is not None else "?"
        apps = [c for c in pl.calls() if isinstance(c.func, ast.Attribute) and c.func.attr == "append" and c.args and norm(c.args[0]) == var and inside(c, loop)]
        ok = loop is not None and norm(loop.iter) == "packets" and len(apps) == 1
        lst = norm(apps[0].func.value) if apps else None
        if ok:
            ok = [a for a in pl.lexical_guards(apps[0], expand=False)] == [(f"{var}.in_flight", True)] and not pl.lexical_guards(d, expand=False)
        chk.ob("R2", "_on_packets_lost collects exactly the in-flight removed packets", ok, "", pl.loc(d))
        cb = pl.calls(name="self._cc.on_packets_lost")
        ok = len(cb) == 1 and lst is not None and norm(get_kw(cb[0], "packets")) == lst and not inside(cb[0], loop) and pl.before(loop, cb[0])
        if ok:
            lg = pl.lexical_guards(cb[0], expand=False)
            ok = lg in ([], [(lst, True)])
        chk.ob("R2", "_on_packets_lost hands the collected packets to on_packets_lost once, conditional only on the list being non-empty", ok, f"guards {pl.lexical_guards(cb[0], expand=False) if cb else None}: a removal path that skips the controller leaves bytes_in_flight above the tracked packets for ever", pl.loc(pl.node))
        inits = [v for s2, t, v in pl.assigns(chain=lst)] if lst else []
        chk.ob("R2", "_on_packets_lost: the collection starts empty", len(inits) == 1 and norm(inits[0]) == "[]", "", pl.loc(pl.node))
        dec = [s2 for s2, t, v in pl.assigns(suffix="ack_eliciting_in_flight") if isinstance(s2, ast.AugAssign) and isinstance(s2.op, ast.Sub)]
        ok = len(dec) == 1 and pl.lexical_guards(dec[0], expand=False) == [(f"{var}.is_ack_eliciting", True)] and inside(dec[0], loop)
        chk.ob("R2", "_on_packets_lost: ack_eliciting_in_flight -= 1 exactly for ack-eliciting lost packets", ok, "", pl.loc(pl.node))
        hl = [l for l in pl.stmts(lambda s: isinstance(s, ast.For)) if norm(l.iter) == f"{var}.delivery_handlers" and inside(l, loop)]
        ok = len(hl) == 1 and not pl.lexical_guards(hl[0], expand=False)
        if ok:
            hc = [c for c in ast.walk(hl[0]) if isinstance(c, ast.Call) and isinstance(c.func, ast.Name)]
            ok = len(hc) == 1 and norm(hc[0].args[0]) == "QuicDeliveryState.LOST" and not [s for s in ast.walk(loop) if isinstance(s, (ast.Break, ast.Continue, ast.Return))]
        chk.ob("R2", "_on_packets_lost calls every delivery handler of a lost packet once with LOST", ok, "", pl.loc(pl.node))
    # callers of _on_packets_lost pass packets that are in sent_packets of that space
    for fn in _fns(repo, lambda m, q: m.name == "quic.recovery"):
        for c in fn.calls(name="self._on_packets_lost"):
            pk = get_kw(c, "packets")
            sp = get_kw(c, "space")
            src = fn.closure_chains(pk) if pk is not None else set()
            ok = sp is not None and any(x == f"{norm(sp)}.sent_packets" or x.startswith(f"{norm(sp)}.sent_packets") for x in src)
            if not ok and isinstance(pk, ast.Name) and sp is not None:
                # a list filled by append() inside a loop over that space's sent_packets
                apps = [a for a in fn.calls(name=f"{pk.id}.append")]
                ok = bool(apps) and all(_loop_of(a) is not None and f"{norm(sp)}.sent_packets" in norm(_loop_of(a).iter) and a.args and norm(a.args[0]) in [n.id for n in ast.walk(_loop_of(a).target) if isinstance(n, ast.Name)] for a in apps)
                src = src | {f"append in loop over {norm(_loop_of(a).iter)}" for a in apps if _loop_of(a) is not None}
            chk.ob("R2", f"{fn.qual}: the packets declared lost are taken from the same space's sent_packets", ok, f"packets depend on {sorted(src)[:6]}", fn.loc(c))
    # removal 3: discard_space (filter-then-call, then clear)
    dsf = Fn(repo, REC + "discard_space")
    clears = [n for k, n in _sp_sites(dsf) if k == "clear"]
    cb = dsf.calls(name="self._cc.on_packets_expired")
    ok = len(clears) == 1 and len(cb) == 1 and dsf.before(cb[0], clears[0]) and not dsf.lexical_guards(cb[0], expand=False) and not dsf.lexical_guards(clears[0], expand=False)
    if ok:
        ok = _filter_in_flight(get_kw(cb[0], "packets"), "space.sent_packets.values()")
    chk.ob("R2", "discard_space expires exactly the in-flight packets of the space before clearing it", ok, "", dsf.loc(dsf.node))
    z = [st for st, t, v in dsf.assigns(suffix="ack_eliciting_in_flight") if isinstance(v, ast.Constant) and v.value == 0]
    chk.ob("R2", "discard_space resets the ack-eliciting counter of the cleared space", len(z) == 1, "", dsf.loc(dsf.node))
    # the three removal functions are the only callers of the removal callbacks
    for fn in _fns(repo):
        for cbn in REMOVAL_CB + ("on_packet_sent",):
            for c in fn.calls(suffix=cbn):
                if call_name(c).startswith("self._cc."):
                    want = {"on_packet_acked": "QuicPacketRecovery.on_ack_received", "on_packets_lost": "QuicPacketRecovery._on_packets_lost", "on_packets_expired": "QuicPacketRecovery.discard_space", "on_packet_sent": "QuicPacketRecovery.on_packet_sent"}[cbn]
                    chk.ob("R2", f"{fn.qual}: `{call_name(c)}` is called from the matching ledger operation", fn.qual == want, "a controller callback is issued without the matching change of sent_packets", fn.loc(c))

    # wholesale replacement of the tracked spaces is a removal too: everything still tracked must be expired first
    n_repl = 0
    for fn in _fns(repo):
        for st, t, v in fn.assigns(suffix="spaces"):
            tt = norm(t)
            if tt not in ("self._loss.spaces", "self.spaces") or (fn.qual == "QuicPacketRecovery.__init__"):
                continue
            if tt == "self.spaces" and not fn.qual.startswith("QuicPacketRecovery."):
                continue
            n_repl += 1
            recv = "self._loss" if tt.startswith("self._loss") else "self"
            ok = False
            for loop in fn.stmts(lambda x: isinstance(x, ast.For)):
                if norm(loop.iter) == f"{recv}.spaces" and isinstance(loop.target, ast.Name) and not fn.lexical_guards(loop, expand=False) == None:
                    body = [norm(b) for b in loop.body]
                    if body == [f"{recv}.discard_space({loop.target.id})"] and fn.before(loop, st) and fn.lexical_guards(loop, expand=False) == fn.lexical_guards(st, expand=False):
                        ok = True
            chk.ob("R2", f"{fn.qual}: `{norm(st)[:60]}` replaces the tracked spaces only after discarding each of them", ok, "packets still in flight (e.g. the Initial sent before a Retry) vanish from sent_packets without on_packets_expired: their bytes stay in bytes_in_flight for ever", fn.loc(st))
    if n_repl < 1:
        raise AnalysisError("no assignment of QuicPacketRecovery.spaces found outside its constructor (anchor moved?)")


# ---- R3 / R4 -----------------------------------------------------------------------------------------


def _sum_over(e, iterable: str, attr: str) -> bool:
    """e is sum(<x>.<attr> for <x> in <iterable>) - generator or list comprehension, no filter"""
    if not (isinstance(e, ast.Call) and call_name(e) == "sum" and len(e.args) == 1 and not e.keywords and isinstance(e.args[0], (ast.GeneratorExp, ast.ListComp))):
        return False
    g = e.args[0]
    if len(g.generators) != 1 or g.generators[0].ifs or not isinstance(g.generators[0].target, ast.Name):
        return False
    return norm(g.generators[0].iter) == iterable and norm(g.elt) == f"{g.generators[0].target.id}.{attr}"


def _filter_in_flight(e, source: str) -> bool:
    """e selects exactly the elements x of <source> with x.in_flight: filter(lambda x: x.in_flight, source) or a
    comprehension / generator over source with that single condition (any variable name)"""
    if isinstance(e, ast.Call) and call_name(e) == "filter" and len(e.args) == 2 and isinstance(e.args[0], ast.Lambda):
        lam = e.args[0]
        a = lam.args.args
        return len(a) == 1 and norm(lam.body) == f"{a[0].arg}.in_flight" and norm(e.args[1]) == source
    if isinstance(e, (ast.GeneratorExp, ast.ListComp)) and len(e.generators) == 1:
        g = e.generators[0]
        return isinstance(g.target, ast.Name) and norm(e.elt) == g.target.id and norm(g.iter) == source and [norm(i) for i in g.ifs] == [f"{g.target.id}.in_flight"]
    return False


def r3_r4(repo, chk):
    ctrl = _controllers(repo)
    base = repo.mod("quic.congestion.base")
    kmin = repo.const(base, base.assigns.get("K_MINIMUM_WINDOW"))
    kini = repo.const(base, base.assigns.get("K_INITIAL_WINDOW"))
    chk.ob("R4", "K_MINIMUM_WINDOW >= 2 (RFC 9002 7.2) and K_INITIAL_WINDOW >= K_MINIMUM_WINDOW", isinstance(kmin, int) and kmin >= 2 and isinstance(kini, int) and kini >= kmin, f"K_MINIMUM_WINDOW={kmin}, K_INITIAL_WINDOW={kini}", "src/aioquic/quic/congestion/base.py")
    not_proved = []
    for m, cn in ctrl:
        for cb in ("on_packet_sent",) + REMOVAL_CB:
            ref = f"{m.name}:{cn}.{cb}"
            if not repo.has_func(ref):
                chk.ob("R3", f"{cn}.{cb} is defined", False, "controller lacks a ledger callback", "")
                continue
            fn = Fn(repo, ref)
            upd = [(st, t, v) for st, t, v in fn.assigns(chain="self.bytes_in_flight")]
            want_op = ast.Add if cb == "on_packet_sent" else ast.Sub
            ok = len(upd) == 1 and isinstance(upd[0][0], ast.AugAssign) and isinstance(upd[0][0].op, want_op)
            per = "packet"
            if ok:
                st, t, v = upd[0]
                loop = _loop_of(st)
                if cb in ("on_packets_lost", "on_packets_expired") and loop is None and _sum_over(v, "packets", "sent_bytes"):
                    # one subtraction of sum(p.sent_bytes for p in packets): the same total as the per-packet loop
                    ok = not fn.guard_atoms(st) and fn.cfg.postdominates(fn.cfg.node_of(st), fn.cfg.entry)
                elif cb in ("on_packets_lost", "on_packets_expired"):
                    ok = loop is not None and norm(loop.iter) == "packets" and norm(v) == f"{norm(loop.target)}.sent_bytes" and not [a for a in fn.lexical_guards(st, expand=False)] and not [s for s in ast.walk(loop) if isinstance(s, (ast.Break, ast.Continue, ast.Return))]
                    # nothing can leave the function before the loop
                    ok = ok and fn.cfg.postdominates(fn.cfg.begin[loop], fn.cfg.entry)
                else:
                    ok = loop is None and norm(v) == "packet.sent_bytes" and fn.cfg.postdominates(fn.cfg.node_of(st), fn.cfg.entry)
            chk.ob("R3", f"{cn}.{cb}: bytes_in_flight {'+=' if want_op is ast.Add else '-='} sent_bytes exactly once per packet on every path", ok, "ledger update missing, conditional, repeated, or skipped by an early return", fn.loc(fn.node))
        # R4
        for q in sorted(m.functions):
            if not q.startswith(cn + "."):
                continue
            fn = Fn(repo, f"{m.name}:{q}")
            for st, t, v in fn.assigns(chain="self.congestion_window"):
                kind = _classify(repo, fn, st, v)
                if q.endswith(".on_packets_lost"):
                    chk.ob("R4", f"{q}: `{norm(st)[:70]}` keeps the window at or above K_MINIMUM_WINDOW datagrams", kind == "floor", f"assignment in the loss response is not max(..., K_MINIMUM_WINDOW * max_datagram_size) (classified: {kind})", fn.loc(st))
                elif kind == "reduce":
                    chk.ob("R4", f"{q}: `{norm(st)[:70]}` does not reduce the window outside the loss response", False, "the congestion window is reduced without a floor", fn.loc(st))
                elif kind in ("floor", "nondecreasing", "initial"):
                    chk.ob("R4", f"{q}: `{norm(st)[:70]}` cannot take the window below the floor ({kind})", True, "", fn.loc(st))
                else:
                    not_proved.append(f"{q}: {norm(st)[:80]}")
    chk.count("R4_window_assignments_not_proved", not_proved)
    if not_proved:
        chk.decline("window floor for these assignments (CUBIC interpolation / W_est), listed but not proved: " + "; ".join(not_proved))
    # the base class initial window
    b = Fn(repo, "quic.congestion.base:QuicCongestionControl.__init__")
    for st, t, v in b.assigns(chain="self.congestion_window"):
        chk.ob("R4", "the initial window is K_INITIAL_WINDOW datagrams", _classify(repo, b, st, v) == "initial", "", b.loc(st))


def _classify(repo, fn: Fn, st, v) -> str:
    floor_txt = ("K_MINIMUM_WINDOW * self._max_datagram_size", "self._max_datagram_size * K_MINIMUM_WINDOW")
    if isinstance(st, ast.AugAssign):
        if isinstance(st.op, ast.Add):
            # += of a product/sum of sizes and counts: non-negative quantities
            neg = [n for n in ast.walk(v) if isinstance(n, (ast.USub, ast.Sub))]
            return "nondecreasing" if not neg else "unknown"
        if isinstance(st.op, (ast.Sub, ast.FloorDiv, ast.Div, ast.RShift)):
            return "reduce"
        if isinstance(st.op, ast.Mult):
            c = repo.const(fn.mod, v)
            return "reduce" if isinstance(c, (int, float)) and c < 1 else "unknown"
        return "unknown"
    def is_floor(e, at, depth=0):
        if depth > 3:
            return False
        if isinstance(e, ast.Call) and call_name(e) == "max" and any(norm(a) in floor_txt or is_floor(a, at, depth + 1) for a in e.args):
            return True
        if isinstance(e, ast.Name):
            defs = fn.local_defs(e.id)
            return len(defs) == 1 and is_floor(defs[0], at, depth + 1)
        if isinstance(e, ast.Attribute):
            prior = [(s2, v2) for s2, t2, v2 in fn.assigns(chain=norm(e)) if fn.before(s2, at)]
            return bool(prior) and all(is_floor(v2, s2, depth + 1) for s2, v2 in prior)
        return False

    if is_floor(v, st):
        return "floor"
    txt = norm(v)
    if txt in ("K_INITIAL_WINDOW * self._max_datagram_size", "K_INITIAL_WINDOW * max_datagram_size"):
        return "initial"
    # value flooring a name that was itself floored just before (ssthresh)
    if isinstance(v, ast.Attribute):
        for s2, t2, v2 in fn.assigns(chain=txt):
            if fn.before(s2, st) and isinstance(v2, ast.Call) and call_name(v2) == "max" and any(norm(a) in floor_txt for a in v2.args):
                return "floor"
    if isinstance(v, ast.BinOp) and isinstance(v.op, (ast.FloorDiv, ast.Div)) and "self.congestion_window" in norm(v.left):
        return "reduce"
    if isinstance(v, ast.BinOp) and isinstance(v.op, ast.Mult):
        for a, b in ((v.left, v.right), (v.right, v.left)):
            c = repo.const(fn.mod, b)
            if "self.congestion_window" in norm(a) and isinstance(c, (int, float)) and c < 1:
                return "reduce"
    if isinstance(v, ast.Call) and call_name(v) == "int" and v.args and isinstance(v.args[0], ast.BinOp) and isinstance(v.args[0].op, ast.Mult):
        a, b = v.args[0].left, v.args[0].right
        for x, y in ((a, b), (b, a)):
            c = repo.const(fn.mod, y)
            if "self.congestion_window" in norm(x) and isinstance(c, (int, float)) and c < 1:
                return "reduce"
    return "unknown"


# ---- R5 ---------------------------------------------------------------------------------------------


def r5(repo, chk):
    # the frames whose size is chosen by the writer (STREAM, CRYPTO) are sized from the flight budget, and start_frame
    # re-checks the fixed part against it: the obligations are those of C01-R1b that mention the flight space
    from . import c01

    class Sub:
        n = 0

        def ob(self, rule, key, ok, msg="", loc="", detail=None):
            if "remaining_flight_space" in key:
                Sub.n += 1
                return chk.ob("R5", key, ok, msg or "in-flight bytes beyond the congestion window can be emitted", loc, detail)
            return ok

        def count(self, *a):
            pass

    sub = Sub()
    c01.r1b(repo, sub, c01.r1(repo, sub))
    if Sub.n < 3:
        raise AnalysisError(f"C08-R5: only {Sub.n} flight-space obligations were generated")
    ds = Fn(repo, CONN + "datagrams_to_send")
    mf = [(st, t, v) for st, t, v in ds.assigns(suffix="max_flight_bytes")]
    # the budget may be computed in a local first and installed once: then the local's assignments are the ones judged
    via = None
    if len(mf) == 1 and isinstance(mf[0][2], ast.Name) and ds.assigns(chain=mf[0][2].id):
        via = mf[0][2].id
        install = mf[0][0]
        mf = [(st, t, v) for st, t, v in ds.assigns(chain=via)]
    base = [x for x in mf if norm(x[2]) == "self._loss.congestion_window - self._loss.bytes_in_flight"]
    chk.ob("R5", "datagrams_to_send sets max_flight_bytes = congestion_window - bytes_in_flight", len(base) == 1, f"{[norm(x[2]) for x in mf]}", ds.loc(ds.node))
    writers = [c for c in ds.calls() if call_name(c) in ("self._write_handshake", "self._write_application")]
    if len(writers) < 2:
        raise AnalysisError("datagrams_to_send: _write_handshake/_write_application calls not found")
    for st, t, v in base:
        inst = install if via else st
        chk.ob("R5", "the congestion budget is installed before any packet writer runs", all(ds.before(inst, w) for w in writers) and (not via or all(x[0].lineno < install.lineno for x in mf)), "", ds.loc(st))
    for st, t, v in mf:
        if (st, t, v) in base:
            continue
        lg = ds.lexical_guards(st, expand=False)
        mine = [a for a in lg if a not in ds.lexical_guards(base[0][0], expand=False)] if base else lg
        ok = norm(v) == "self._max_datagram_size" and ("self._probe_pending", True) in mine and any(((via or "max_flight_bytes") in a[0]) and "self._max_datagram_size" in a[0] for a in mine) and len(mine) == 2
        chk.ob("R5", f"`{norm(st)[:60]}` raises the budget to one datagram only for a pending probe", ok, f"guards {mine}", ds.loc(st))
    # the probe flag: set by _send_probe only; cleared in the writers before bulk data
    setters = []
    for fn in _fns(repo, lambda m, q: m.name == "quic.connection"):
        for st, t, v in fn.assigns(chain="self._probe_pending"):
            if isinstance(v, ast.Constant) and v.value is True:
                setters.append(fn.qual)
    chk.ob("R5", "_probe_pending is raised only by the probe-timeout callback", setters == ["QuicConnection._send_probe"], f"{setters}", "")
    rec = Fn(repo, REC + "reschedule_data")
    sp = rec.calls(name="self._send_probe")
    lt = Fn(repo, REC + "on_loss_detection_timeout")
    ok = len(sp) == 1 and not rec.lexical_guards(sp[0], expand=False)
    callers = [fn.qual for fn in _fns(repo) for c in fn.calls(suffix="reschedule_data") if fn.qual != "QuicPacketRecovery.reschedule_data"]
    chk.ob("R5", "one probe is requested per probe timeout (reschedule_data calls _send_probe once)", ok, "", rec.loc(rec.node))
    chk.count("reschedule_data_callers", callers)
    wa = Fn(repo, CONN + "_write_application")
    clr = [st for st, t, v in wa.assigns(chain="self._probe_pending") if isinstance(v, ast.Constant) and v.value is False]
    bulk = [c for c in wa.calls() if call_name(c) in ("self._write_stream_frame", "self._write_crypto_frame", "self._write_datagram_frame")]
    if not bulk:
        raise AnalysisError("_write_application: bulk data writers not found")
    ok = bool(clr)
    for b in bulk:
        # on every path from the start of a packet to a bulk writer the probe allowance was consumed or was not pending
        loop = _loop_of(b)
        outer = loop
        while outer is not None and _loop_of(outer) is not None:
            outer = _loop_of(outer)
        cfg = wa.cfg
        sps = [c for c in wa.calls(name="builder.start_packet") if outer is not None and inside(c, outer)]
        for s in sps:
            avoid = {cfg.begin[c] for c in clr}
            # the PING(probe) block: if self._probe_pending: write; clear  -> avoid its If statement as a whole
            blocks = {cfg.begin[c._parent] for c in clr if isinstance(c._parent, ast.If) and norm(c._parent.test) == "self._probe_pending"}
            if not blocks or cfg.reaches(cfg.done_of(s), cfg.node_of(b), avoid=blocks):
                ok = False
    chk.ob("R5", "_write_application consumes the probe allowance (PING + clear) before any bulk data writer of the packet", ok, "stream / crypto / datagram frames can fill the probe packet first; the PING then does not fit, _probe_pending stays set and every later call is granted another datagram beyond the window", wa.loc(wa.node))
    wh = Fn(repo, CONN + "_write_handshake")
    clr2 = [st for st, t, v in wh.assigns(chain="self._probe_pending") if isinstance(v, ast.Constant) and v.value is False]
    chk.ob("R5", "_write_handshake clears the probe allowance when it sends crypto data or a probe PING", len(clr2) >= 2, "", wh.loc(wh.node))
    # the per-datagram flight capacity is lowered to what is left of the budget - whatever is left, a negative remainder
    # (window cut by a loss while packets are still in flight) included
    sp = Fn(repo, "quic.packet_builder:QuicPacketBuilder.start_packet")
    clamps = []
    for st, t, v in sp.assigns(chain="self._flight_capacity"):
        if sp.expand(v, 3) == "self.max_flight_bytes - self._flight_bytes":
            lg = set(sp.lexical_guards(st, expand=True))
            want = {natom("self.max_flight_bytes is not None"), natom("self.max_flight_bytes - self._flight_bytes < self._flight_capacity")}
            inner = {a for a in lg if "_datagram_init" not in a[0]}
            clamps.append((st, inner == want, sorted(inner)))
    ok = len(clamps) == 1 and clamps[0][1]
    chk.ob("R5", "start_packet lowers the datagram's flight capacity to the remaining flight budget whenever that is smaller (no other condition)", ok, f"clamp conditions {[c[2] for c in clamps]}: with bytes_in_flight above the window the budget is negative; skipping the clamp then grants every datagram its full size", sp.loc(sp.node))
    ep = Fn(repo, "quic.packet_builder:QuicPacketBuilder._end_packet")
    pads = [(st, v) for st, t, v in ep.assigns(chain="padding_size") if natom("self._packet_type == QuicPacketType.ONE_RTT") in ep.guard_atoms(st) + ep.lexical_guards(st, expand=False)]
    ok = len(pads) == 1 and ep.expand(pads[0][1], 2) == "self.remaining_flight_space" and natom("self.remaining_flight_space > padding_size") in ep.lexical_guards(pads[0][0], expand=True)
    chk.ob("R5", "_end_packet pads a 1-RTT packet inside a padded datagram up to the flight space, not beyond it", ok, f"{[norm(v) for st, v in pads]}: padding counts as bytes in flight; padding to the buffer space sends more than the congestion budget allows", ep.loc(ep.node))
    sf = Fn(repo, "quic.packet_builder:QuicPacketBuilder.start_frame")
    from rules import c01 as _c01

    ok, _why = _c01.start_frame_refusal(repo)
    chk.ob("R5", "start_frame refuses an in-flight frame type when the flight budget is smaller than its capacity", ok, "", sf.loc(sf.node))
    pm = repo.mod("quic.packet")
    nif = repo.const(pm, pm.assigns.get("NON_IN_FLIGHT_FRAME_TYPES"))
    ok = nif is not Unknown and {int(x) for x in nif} == {0x02, 0x03, 0x1C, 0x1D}
    chk.ob("R5", "only ACK and CONNECTION_CLOSE frames are exempt from the congestion budget", ok, f"{sorted(int(x) for x in nif) if nif is not Unknown else nif}", "src/aioquic/quic/packet.py")
    sp_ = Fn(repo, "quic.packet_builder:QuicPacketBuilder.start_packet")
    ok = any(norm(v) == "remaining_flight_bytes" and ("self.max_flight_bytes is not None", True) in sp_.lexical_guards(st, expand=False) for st, t, v in sp_.assigns(chain="self._flight_capacity")) and any(sp_.expand(v, 2) == "self.max_flight_bytes - self._flight_bytes" for st, t, v in sp_.assigns(chain="remaining_flight_bytes"))
    chk.ob("R5", "start_packet limits the datagram's flight capacity to max_flight_bytes - bytes already built", ok, "", sp_.loc(sp_.node))
    fd = Fn(repo, "quic.packet_builder:QuicPacketBuilder._flush_current_datagram")
    ok = any(isinstance(st, ast.AugAssign) and norm(v) == "self._datagram_flight_bytes" for st, t, v in fd.assigns(chain="self._flight_bytes"))
    chk.ob("R5", "the builder charges every flushed datagram's in-flight bytes to the budget", ok, "", fd.loc(fd.node))


def r5_packet_accounting(repo, chk):
    """the facts recovery and the congestion controller are later told about a packet are the ones the builder measured"""
    sf = Fn(repo, "quic.packet_builder:QuicPacketBuilder.start_frame")
    infl = [st for st, t, v in sf.assigns(chain="self._packet.in_flight") if isinstance(v, ast.Constant) and v.value is True]
    ok = len(infl) == 1 and sf.lexical_guards(infl[0], expand=False) == [natom("frame_type not in NON_IN_FLIGHT_FRAME_TYPES")]
    chk.ob("R5", "start_frame marks the packet in flight for every frame type outside NON_IN_FLIGHT_FRAME_TYPES", ok, f"{[sf.lexical_guards(s, expand=False) for s in infl]}: an ack-eliciting packet that is not counted in flight escapes the congestion window", sf.loc(sf.node))
    ep = Fn(repo, "quic.packet_builder:QuicPacketBuilder._end_packet")
    pads = [c for c in ep.calls(name="buf.push_bytes") if c.args and isinstance(c.args[0], ast.Call) and call_name(c.args[0]) == "bytes"]
    for c in pads:
        blk = getattr(_stmt(c), "_parent", None)
        sib = [norm(x) for x in getattr(blk, "body", [])]
        chk.ob("R5", "_end_packet: a packet that receives PADDING is marked in flight", "self._packet.in_flight = True" in sib, "padding bytes would be sent outside the congestion window (RFC 9002: packets containing PADDING are in flight)", ep.loc(c))
    sb = [(st, v) for st, t, v in ep.assigns(chain="self._packet.sent_bytes")]
    enc = [c for c in ep.calls(suffix="encrypt_packet")]
    ok = len(sb) == 1 and norm(sb[0][1]) == "buf.tell() - self._packet_start" and bool(enc) and all(_stmt(c).lineno < sb[0][0].lineno for c in enc) and ep.lexical_guards(sb[0][0], expand=False) == ep.lexical_guards(_stmt(enc[0]), expand=False)
    chk.ob("R5", "_end_packet records sent_bytes = size of the protected packet, measured after encryption", ok, f"{[norm(v) for st, v in sb]}", ep.loc(ep.node))
    acc = [st for st, t, v in ep.assigns(chain="self._datagram_flight_bytes") if isinstance(st, ast.AugAssign) and norm(v) == "self._packet.sent_bytes"]
    ok = len(acc) == 1 and bool(sb) and sb[0][0].lineno < acc[0].lineno and [a for a in ep.lexical_guards(acc[0], expand=False) if a not in ep.lexical_guards(sb[0][0], expand=False)] == [("self._packet.in_flight", True)]
    chk.ob("R5", "_end_packet charges sent_bytes to the datagram's in-flight bytes exactly when the packet is in flight", ok, "", ep.loc(ep.node))
    apps = [c for c in ep.calls(name="self._packets.append")]
    ok = len(apps) == 1 and norm(apps[0].args[0]) == "self._packet" and bool(sb) and sb[0][0].lineno < apps[0].lineno
    chk.ob("R5", "_end_packet hands the packet record over only after its size was recorded", ok, "", ep.loc(ep.node))


def _stmt(n):
    while n is not None and not isinstance(n, ast.stmt):
        n = getattr(n, "_parent", None)
    return n
