"""C09 - a live connection always has a timer; closing terminates once (claimed in part).

R1  timer totality: get_timer starts from the close/idle deadline and only replaces it by a smaller
    non-None value; the close deadline is armed by connect() and by the first datagram, re-armed only
    while the connection is not closing, and cleared only together with the TERMINATED state
R2  single termination: the termination event is queued only in _close_end, which is reached only from
    handle_timer (deadline due) and from a failed version negotiation (FIRSTFLIGHT), sets TERMINATED
    and clears the deadline; the close event is assigned only while none is pending
R3  inertness after close: receive_datagram and datagrams_to_send return at once in the end states;
    every function that queues an event is reachable from the public API only through those guards;
    the closing branch clears _close_pending on all paths and builds at most one packet per epoch
R4  the closing / draining period is 3 x PTO (RFC 9000 10.2)
"""
from __future__ import annotations

import ast

from sa.flow import FuncRef, Program
from sa.pyfacts import Unknown, call_name, get_kw, norm, walk_no_nested
from sa.q import Fn, inside, natom
from sa.report import AnalysisError

LEVEL = "other"
CONN = "quic.connection:QuicConnection."


def _conn_fns(repo):
    m = repo.mod("quic.connection")
    return [Fn(repo, f"quic.connection:{q}") for q in sorted(m.functions) if q.startswith("QuicConnection.") and ".<locals>." not in q]


def _loss_timer_boundary(repo, chk):
    """the loss timer is armed for sent_time + loss_delay and tested with now - loss_delay: a timer handled exactly at
    its deadline must declare the packet lost (non-strict comparison), else the same deadline is armed again and a
    caller that fires timers on time never advances"""
    dl = Fn(repo, "quic.recovery:QuicPacketRecovery._detect_loss")
    th = [norm(v) for st, t, v in dl.assigns(chain="time_threshold")]
    arms = [st for st, t, v in dl.assigns() if v is not None and norm(v).replace(" ", "") == "packet.sent_time+loss_delay"]
    ok = th == ["now - loss_delay"] and len(arms) == 1
    if ok:
        # with sent_time <= time_threshold the "not lost yet" branch (which re-arms the timer) cannot be reached -
        # one compound test, an elif chain or nested tests alike
        ok = not dl.reaches_assuming(dl.cfg.entry, dl.cfg.node_of(arms[0]), [natom("packet.sent_time <= time_threshold")])
    chk.ob("R1", "_detect_loss declares a packet lost when the loss timer is handled exactly at its deadline (sent_time <= now - loss_delay)", ok, "with a strict comparison the packet is not lost at now == loss_time and the same deadline is armed again: get_timer() keeps naming a deadline that is not in the future", dl.loc(dl.node))


def run(repo, chk):
    chk.rule("R1", "get_timer: result initialised from _close_at, replaced only by values tested `< result` and not None, for every ACK deadline, the loss-detection time and the pacing time; _close_at writers: __init__ (None), _connect, receive_datagram (first arming, re-arming outside the end states), _close_begin, _close_end (None, with TERMINATED)")
    _loss_timer_boundary(repo, chk)
    chk.rule("R2", "ConnectionTerminated is queued only by _close_end; _close_end has exactly two guarded callers; _close_event is assigned only when it is None (or immediately before _close_end)")
    chk.rule("R3", "END_STATES early returns in receive_datagram / datagrams_to_send; event-queuing functions are reachable from public methods only behind them; the closing branch is bounded and clears _close_pending")
    chk.rule("R4", "_close_begin sets the deadline to now + 3 * probe timeout")
    chk.decline("'within three probe timeouts' as a timing fact under schedules; events of the asyncio adapter")
    chk.assume("the caller stops using the connection once termination was reported (handle_timer / receive_datagram are not called with a None deadline)")
    prog = Program(repo)
    r1(repo, chk)
    r2(repo, chk)
    r3(repo, chk, prog)
    r4(repo, chk)


def r1(repo, chk):
    gt = Fn(repo, CONN + "get_timer")
    rets = [r for r in gt.returns() if r.value is not None]
    rv = {norm(r.value) for r in rets}
    ok = len(rv) == 1 and len(rets) == len(gt.returns())
    res = next(iter(rv)) if ok else None
    chk.ob("R1", "get_timer returns one local result on every path", ok, f"returns {sorted(rv)}", gt.loc(gt.node))
    if res:
        defs = gt.assigns(chain=res)
        first = [st for st, t, v in defs if norm(v) == "self._close_at" and not gt.lexical_guards(st, expand=False)]
        chk.ob("R1", "get_timer starts from the close / idle deadline", len(first) == 1 and all(gt.before(first[0], st) for st, t, v in defs if st is not first[0]), "", gt.loc(gt.node))
        sources = set()
        for st, t, v in defs:
            if first and st is first[0]:
                continue
            src = norm(v)
            lg = gt.lexical_guards(st, expand=False)
            ok = (f"{res} > {src}", True) in lg and ((f"{src} is not None", True) in lg)
            sources.add(src.split(".")[-1])
            chk.ob("R1", f"get_timer: `{norm(st)}` only lowers the deadline to a non-None value", ok, f"guards {lg}: the timer could become None or later than the close deadline", gt.loc(st))
        need = {"ack_at", "_loss_at", "_pacing_at"}
        chk.ob("R1", "get_timer considers ACK deadlines, loss detection and pacing", need <= sources, f"sources read: {sorted(sources)}", gt.loc(gt.node))
        la = [st for st, t, v in gt.assigns(chain="self._loss_at")]
        ok = len(la) == 1 and norm(la[0].value) == "self._loss.get_loss_detection_time()"
        chk.ob("R1", "get_timer refreshes the loss-detection time from the recovery object", ok, "", gt.loc(gt.node))
        loops = [st for st in gt.stmts(lambda s: isinstance(s, ast.For))]
        ok = any(norm(l.iter) == "self._loss.spaces" for l in loops)
        chk.ob("R1", "get_timer visits every packet space", ok, "", gt.loc(gt.node))
    # writers of _close_at
    seen = []
    for fn in _conn_fns(repo):
        for st, t, v in fn.assigns(chain="self._close_at"):
            name = fn.qual.split(".")[-1]
            none = isinstance(v, ast.Constant) and v.value is None
            seen.append((name, none))
            if name == "__init__":
                chk.ob("R1", "__init__: no deadline before connect() / the first datagram", none, "", fn.loc(st))
            elif none:
                ts = [c for c in fn.calls(name="self._set_state") if c.args and norm(c.args[0]) == "QuicConnectionState.TERMINATED"]
                ok = bool(ts) and any(fn.always_after(st, c) for c in ts)
                chk.ob("R1", f"{name}: the deadline is cleared only together with entering TERMINATED", ok, "a live connection can be left without a timer", fn.loc(st))
            elif name == "_connect":
                ok = fn.cfg.postdominates(fn.cfg.node_of(st), fn.cfg.entry) and "self._idle_timeout()" in norm(v)
                chk.ob("R1", "_connect arms the idle deadline on every path", ok, "", fn.loc(st))
            elif name == "_close_begin":
                chk.ob("R1", "_close_begin arms the closing deadline on every path", fn.cfg.postdominates(fn.cfg.node_of(st), fn.cfg.entry), "", fn.loc(st))
            elif name == "receive_datagram":
                lg = fn.lexical_guards(st, expand=False)
                if ("self._close_at is None", True) in lg:
                    # first arming: before anything that can return, except for the end-state return
                    early = [r for r in fn.returns() if not fn.before(st._parent, r) and r.lineno < st.lineno]
                    bad = [r for r in early if not any("END_STATES" in a[0] and a[1] for a in fn.guard_atoms(r))]
                    ok = lg == [("self._close_at is None", True)] and not bad and "self._idle_timeout()" in norm(v)
                    chk.ob("R1", "receive_datagram arms the idle deadline on the first datagram, before any packet can be rejected", ok, f"guards {lg}, earlier returns {[r.lineno for r in bad]}", fn.loc(st))
                else:
                    at = fn.guard_atoms(st)
                    ok = natom("self._state in END_STATES", False) in at and ("self._close_pending", False) in at
                    chk.ob("R1", "receive_datagram re-arms the idle deadline only while the connection is neither closing nor about to close", ok, "a packet that started the closing / draining period (e.g. the peer's CONNECTION_CLOSE) overwrites the 3 x PTO deadline with the idle timeout", fn.loc(st))
                    decs = fn.calls(suffix="decrypt_packet")
                    chk.ob("R1", "only authenticated packets extend the idle deadline", bool(decs) and all(fn.before(d, st) for d in decs), "", fn.loc(st))
            else:
                chk.ob("R1", f"{name}: `{norm(st)[:50]}` is an expected writer of the deadline", False, "unexpected writer of _close_at", fn.loc(st))
    have = {n for n, _ in seen}
    chk.ob("R1", "the deadline has all its expected writers (_connect, receive_datagram, _close_begin arm it; _close_end clears it)", {"_connect", "receive_datagram", "_close_begin", "_close_end"} <= have, f"writers found: {sorted(have)}: without the missing one a live connection has no finite timer (or no closing deadline)", "")
    # every timer source get_timer reads is maintained: an owed ACK arms its deadline (C12-R2), and a discarded packet
    # space stops being a source (a stale, already expired ack_at would be returned for ever and the close / idle
    # deadline never reached)
    from . import c12

    class Sub:
        n = 0

        def ob(self, rule, key, ok, msg="", loc="", detail=None):
            if "arms ack_at" in key:
                Sub.n += 1
                return chk.ob("R1", key, ok, msg or "an owed ACK has no timer: get_timer names only the idle deadline", loc, detail)
            return ok

        def count(self, *a):
            pass

    c12.r2(repo, Sub())
    if Sub.n < 1:
        raise AnalysisError("C09-R1: the ACK arming obligation of C12-R2 was not generated")
    ds = Fn(repo, "quic.recovery:QuicPacketRecovery.discard_space")
    clr = [st for st, t, v in ds.assigns(suffix="ack_at") if isinstance(v, ast.Constant) and v.value is None and not ds.lexical_guards(st, expand=False)]
    skips = [st for st in gt.stmts(lambda x: isinstance(x, ast.If)) if "discarded" in norm(st.test)]
    chk.ob("R1", "a discarded packet space is no timer source: discard_space clears its ack_at (or get_timer skips discarded spaces)", bool(clr) or bool(skips), "after the space is discarded nothing sends that ACK or clears the deadline: get_timer keeps returning an expired time and a caller that fires the timer when asked never reaches the close / idle deadline", ds.loc(ds.node))
    firsts = [s for s in seen if s[0] == "receive_datagram"]
    chk.ob("R1", "receive_datagram has both the first-datagram arming and the per-packet re-arming", len(firsts) == 2, f"{len(firsts)} writes of _close_at in receive_datagram: a server connection whose first datagram is not processed would have no timer", "")
    co = Fn(repo, CONN + "connect")
    cc = co.calls(name="self._connect")
    chk.ob("R1", "connect() starts the handshake (and with it the idle deadline) on every path", len(cc) == 1 and co.cfg.postdominates(co.cfg.node_of(cc[0]), co.cfg.entry), "", co.loc(co.node))


def r2(repo, chk):
    ce = Fn(repo, CONN + "_close_end")
    apps = []
    for fn in _conn_fns(repo):
        for c in fn.calls(name="self._events.append"):
            a = c.args[0] if c.args else None
            if a is not None and (norm(a) == "self._close_event" or (isinstance(a, ast.Call) and call_name(a).endswith("ConnectionTerminated"))):
                apps.append((fn, c))
    ok = len(apps) == 1 and apps[0][0].qual == "QuicConnection._close_end"
    chk.ob("R2", "the termination event is queued only by _close_end", ok, f"{[(f.qual) for f, c in apps]}", ce.loc(ce.node))
    for fn, c in apps:
        if fn.qual == "QuicConnection._close_end":
            chk.ob("R2", "_close_end queues the event exactly once on every path", fn.cfg.postdominates(fn.cfg.node_of(c), fn.cfg.entry) and not [l for l in _ancestors(c) if isinstance(l, (ast.For, ast.While))], "", fn.loc(c))
    ts = [c for c in ce.calls(name="self._set_state") if c.args and norm(c.args[0]) == "QuicConnectionState.TERMINATED"]
    chk.ob("R2", "_close_end enters TERMINATED on every path", len(ts) == 1 and ce.cfg.postdominates(ce.cfg.node_of(ts[0]), ce.cfg.entry), "", ce.loc(ce.node))
    callers = []
    for fn in _conn_fns(repo):
        for c in fn.calls(name="self._close_end"):
            callers.append((fn, c))
    names = sorted(f.qual.split(".")[-1] for f, c in callers)
    chk.ob("R2", "_close_end is called from handle_timer and from the version-negotiation failure only", names == ["_receive_version_negotiation_packet", "handle_timer"], f"{names}", ce.loc(ce.node))
    for fn, c in callers:
        at = fn.guard_atoms(c)
        name = fn.qual.split(".")[-1]
        if name == "handle_timer":
            ok = natom("now >= self._close_at") in at
        else:
            ok = natom("self._state == QuicConnectionState.FIRSTFLIGHT") in at and ("self._is_client", True) in at
        st = c
        while not isinstance(st, ast.stmt):
            st = st._parent
        sibs = st._parent.body if st in getattr(st._parent, "body", []) else getattr(st._parent, "orelse", [])
        nxt = sibs[sibs.index(st) + 1] if st in sibs and sibs.index(st) + 1 < len(sibs) else None
        # nothing else happens on that path: a return follows, or no other statement that calls anything is reachable
        later_calls = [x for x in fn.stmts() if x is not st and any(isinstance(y, ast.Call) for y in ast.walk(x)) and not isinstance(x, (ast.If, ast.While, ast.For, ast.Try)) and x in fn.cfg.begin and st in fn.cfg.done and fn.cfg.reaches(fn.cfg.done[st], fn.cfg.begin[x])]
        ok = ok and (isinstance(nxt, ast.Return) or not later_calls)
        chk.ob("R2", f"{name}: _close_end() is guarded by a condition it invalidates and nothing else runs after it", ok, f"guards {at}; reachable afterwards: {[norm(x)[:40] for x in later_calls[:3]]}", fn.loc(c))
    for fn in _conn_fns(repo):
        for st, t, v in fn.assigns(chain="self._close_event"):
            if fn.qual.endswith(".__init__"):
                continue
            at = fn.guard_atoms(st)
            ok = ("self._close_event is None", True) in at
            if not ok:
                # immediately followed by _close_end() on all paths
                ends = fn.calls(name="self._close_end")
                ok = any(fn.always_after(st, e) for e in ends) and natom("self._state == QuicConnectionState.FIRSTFLIGHT") in at
            chk.ob("R2", f"{fn.qual.split('.')[-1]}: `self._close_event = ...` cannot replace a pending close", ok, f"guards {at}", fn.loc(st))
    cl = Fn(repo, CONN + "close")
    for st, t, v in cl.assigns(chain="self._close_pending"):
        at = cl.guard_atoms(st)
        chk.ob("R2", "close() is a no-op once a close is pending or the connection ended", ("self._close_event is None", True) in at and natom("self._state in END_STATES", False) in at, f"guards {at}", cl.loc(st))
    # every trigger of the property starts (or completes) termination
    sets = [st for st, t, v in cl.assigns(chain="self._close_event") if isinstance(v, ast.Call) and call_name(v).endswith("ConnectionTerminated")]
    pend = [st for st, t, v in cl.assigns(chain="self._close_pending") if isinstance(v, ast.Constant) and v.value is True]
    ok = len(sets) == 1 and len(pend) == 1 and cl.lexical_guards(sets[0], expand=False) == cl.lexical_guards(pend[0], expand=False)
    chk.ob("R2", "close(): records the termination event and marks the close pending (local close)", ok, "a local close would never be sent / never terminate", cl.loc(cl.node))
    pc = Fn(repo, CONN + "_handle_connection_close_frame")
    sets = [st for st, t, v in pc.assigns(chain="self._close_event") if isinstance(v, ast.Call) and call_name(v).endswith("ConnectionTerminated")]
    cb = [c for c in pc.calls(name="self._close_begin") if norm(get_kw(c, "is_initiator", 0)) == "False"]
    ok = len(sets) == 1 and len(cb) == 1 and pc.before(sets[0], cb[0]) and set(pc.guard_atoms(cb[0])) == {("self._close_event is None", True)}
    chk.ob("R2", "_handle_connection_close_frame: a peer close records the event and starts the draining period", ok, "a peer close would leave the connection open until the idle timeout", pc.loc(pc.node))
    ht0 = Fn(repo, CONN + "handle_timer")
    ends = ht0.calls(name="self._close_end")
    sets = [st for st, t, v in ht0.assigns(chain="self._close_event") if isinstance(v, ast.Call) and call_name(v).endswith("ConnectionTerminated")]
    ok = len(ends) == 1 and ht0.lexical_guards(ends[0], expand=False) == [natom("now >= self._close_at")] and len(sets) == 1 and sets[0].lineno < ends[0].lineno and ht0.lexical_guards(sets[0], expand=False) == [("self._close_event is None", True), natom("now >= self._close_at")]
    chk.ob("R2", "handle_timer: at the close / idle deadline the event is recorded (idle timeout if none) and _close_end() runs unconditionally", ok, f"guards of _close_end {[ht0.lexical_guards(e, expand=False) for e in ends]}", ht0.loc(ht0.node))
    cbg = Fn(repo, CONN + "_close_begin")
    sts = {norm(c.args[0]) for c in cbg.calls(name="self._set_state") if c.args}
    chk.ob("R2", "_close_begin enters CLOSING (initiator) or DRAINING", sts == {"QuicConnectionState.CLOSING", "QuicConnectionState.DRAINING"}, f"{sorted(sts)}", cbg.loc(cbg.node))
    gt = Fn(repo, CONN + "get_timer")
    for st, t, v in gt.assigns(chain="timer_at"):
        lg = gt.lexical_guards(st, expand=False)
        bad = [a for a in lg if "END_STATES" in a[0] and a != natom("self._state in END_STATES", False)]
        chk.ob("R2", f"get_timer: `{norm(st)}` is considered while the connection is live (not only in an end state)", not bad, f"{bad}", gt.loc(st)) if any("END_STATES" in a[0] for a in lg) else None
    ht = Fn(repo, CONN + "handle_timer")
    ld = ht.calls(name="self._loss.on_loss_detection_timeout")
    ok = bool(ld) and all(natom("now >= self._close_at", False) in ht.guard_atoms(c) for c in ld)
    chk.ob("R2", "handle_timer does no loss detection once the close deadline has passed", ok, "", ht.loc(ht.node))


def _ancestors(n):
    p = getattr(n, "_parent", None)
    while p is not None:
        yield p
        p = getattr(p, "_parent", None)


def r3(repo, chk, prog):
    rd = Fn(repo, CONN + "receive_datagram")
    first = [st for st in rd.node.body if isinstance(st, ast.If)]
    guard = next((st for st in first if norm(st.test) == "self._state in END_STATES" and len(st.body) == 1 and isinstance(st.body[0], ast.Return)), None)
    chk.ob("R3", "receive_datagram returns at once in an end state", guard is not None, "", rd.loc(rd.node))
    if guard is not None:
        # nothing with an effect precedes the guard
        pre = rd.node.body[: rd.node.body.index(guard)]
        ok = all(isinstance(s, ast.Expr) and isinstance(s.value, ast.Constant) or (isinstance(s, ast.Assign) and isinstance(s.targets[0], ast.Name)) for s in pre)
        chk.ob("R3", "nothing but local computation precedes that return", ok, "", rd.loc(guard))
    ds = Fn(repo, CONN + "datagrams_to_send")
    def _end_test(t):
        # `self._state in END_STATES`, possibly as one disjunct of an `or` (more reasons to send nothing)
        return norm(t) == "self._state in END_STATES" or (isinstance(t, ast.BoolOp) and isinstance(t.op, ast.Or) and any(norm(v) == "self._state in END_STATES" for v in t.values))

    g2 = [st for st in ds.node.body if isinstance(st, ast.If) and _end_test(st.test) and len(st.body) == 1 and isinstance(st.body[0], ast.Return) and norm(st.body[0].value) == "[]"]
    builders = ds.calls(name="QuicPacketBuilder")
    chk.ob("R3", "datagrams_to_send returns [] in an end state, before a builder exists", len(g2) == 1 and all(ds.before(g2[0], b) for b in builders), "", ds.loc(ds.node))
    # closing branch
    cp = [st for st, t, v in ds.assigns(chain="self._close_pending") if isinstance(v, ast.Constant) and v.value is False]
    tests = [st for st in ds.stmts(lambda s: isinstance(s, ast.If)) if norm(st.test) == "self._close_pending"]
    ok = len(tests) == 1 and len(cp) == 1
    why = ""
    if ok:
        br = tests[0]
        cb = [c for c in ds.calls(name="self._close_begin") if inside(c, br)]
        body_nodes = [n for s2 in br.body for n in ast.walk(s2)]
        loops = [l for l in body_nodes if isinstance(l, ast.For) and any(isinstance(c, ast.Call) and call_name(c) == "builder.start_packet" for c in ast.walk(l))]
        tr = [t for t in body_nodes if isinstance(t, ast.Try)]
        checks = {
            "_close_pending is cleared on every path through the branch": cp[0] in br.body and not ds.cfg.reaches(ds.cfg.tedge[br], ds.cfg.exit, avoid={ds.cfg.begin[cp[0]]}),
            "the closing period starts on every path through the branch": len(cb) == 1 and not ds.cfg.reaches(ds.cfg.tedge[br], ds.cfg.exit, avoid={ds.cfg.node_of(cb[0])}),
            "_close_begin(is_initiator=True) is called unconditionally in the branch": len(cb) == 1 and any(isinstance(s2, ast.Expr) and s2.value is cb[0] for s2 in br.body) and norm(get_kw(cb[0], "is_initiator", 0)) == "True",
            "one loop over the (epoch, packet type) list starts the packets": len(loops) == 1 and norm(loops[0].iter) == "epoch_packet_types" and not [w for w in body_nodes if isinstance(w, ast.While)],
            "QuicPacketBuilderStop is caught around that loop": len(tr) == 1 and any(h.type is not None and norm(h.type) == "QuicPacketBuilderStop" for h in tr[0].handlers) and bool(loops) and inside(loops[0], tr[0]),
        }
        why = "; ".join(k for k, v in checks.items() if not v)
        ok = not why
    chk.ob("R3", "the closing branch builds at most one packet per epoch, survives a full packet, clears _close_pending and starts the closing period on every path", ok, "not established: " + why, ds.loc(ds.node))
    # event queuing functions and their public entry points
    m = repo.mod("quic.connection")
    callers: dict[int, set] = {}
    for fr in prog.funcs.values():
        for n in walk_no_nested(fr.node):
            if isinstance(n, ast.Call):
                for cal in prog.resolve_call(fr, n):
                    if isinstance(cal, FuncRef):
                        callers.setdefault(id(cal.node), set()).add(fr)
    # function values registered as callbacks (frame handlers, TLS callbacks) count as called by their registrar's users:
    qfuncs = [fr for fr in prog.funcs.values() if fr.mod.name == "quic.connection" and fr.qual.startswith("QuicConnection.")]
    queuers = []
    for fr in qfuncs:
        f = Fn(repo, fr.ref)
        if f.calls(name="self._events.append"):
            queuers.append(fr)
    chk.count("event_queuing_functions", sorted(fr.qual for fr in queuers))
    # receive_datagram / datagrams_to_send return at once in an end state (checked above); handle_timer only acts
    # on a non-None deadline; connect() can only be the first call of a client (asserted) - none can follow termination
    GUARDED = {"QuicConnection.receive_datagram", "QuicConnection.handle_timer", "QuicConnection.datagrams_to_send", "QuicConnection.connect"}
    for fr in queuers:
        # climb the call graph to public methods
        seen, work, publics = set(), [fr], set()
        while work:
            x = work.pop()
            if id(x.node) in seen:
                continue
            seen.add(id(x.node))
            nm = x.qual.split(".")[-1]
            if x.mod.name == "quic.connection" and x.qual.startswith("QuicConnection.") and not nm.startswith("_") and x is not fr:
                publics.add(x.qual)
                continue
            cs = callers.get(id(x.node), set())
            if not cs and x is not fr and not nm.startswith("_"):
                publics.add(x.qual)
            work.extend(cs)
        if not nm_private(fr):
            publics.add(fr.qual)
        extra = {p for p in publics if p not in GUARDED and p.startswith("QuicConnection.")}
        # public methods that queue events directly must test the end states themselves
        bad = []
        for p in extra:
            pf = Fn(repo, "quic.connection:" + p)
            direct = pf.calls(name="self._events.append")
            guarded = all(natom("self._state in END_STATES", False) in pf.guard_atoms(c) for c in direct) if direct else False
            if not guarded:
                bad.append(p)
        chk.ob("R3", f"{fr.qual} queues events only on behalf of receive_datagram / handle_timer (both inert after close)", not bad, f"also reachable from public method(s) {sorted(bad)} without an end-state test", Fn(repo, fr.ref).loc(fr.node))
    if len(queuers) < 6:
        raise AnalysisError("event queuing functions not found")


def nm_private(fr) -> bool:
    return fr.qual.split(".")[-1].startswith("_")


def r4(repo, chk):
    cb = Fn(repo, CONN + "_close_begin")
    m = cb.mod
    ok = False
    for st, t, v in cb.assigns(chain="self._close_at"):
        if isinstance(v, ast.BinOp) and isinstance(v.op, ast.Add) and norm(v.left) == "now" and isinstance(v.right, ast.BinOp) and isinstance(v.right.op, ast.Mult):
            a, b = v.right.left, v.right.right
            pt = "self._loss.get_probe_timeout()"
            k = repo.const(m, a) if cb.expand(b, 2) == pt else (repo.const(m, b) if cb.expand(a, 2) == pt else Unknown)
            ok = k == 3
    chk.ob("R4", "_close_begin: the closing / draining period is now + 3 * probe timeout", ok, "", cb.loc(cb.node))
    sts = {norm(c.args[0]) for c in cb.calls(name="self._set_state") if c.args}
    chk.ob("R4", "_close_begin enters CLOSING (initiator) or DRAINING", sts == {"QuicConnectionState.CLOSING", "QuicConnectionState.DRAINING"}, f"{sorted(sts)}", cb.loc(cb.node))
    es = repo.const(m, m.assigns.get("END_STATES"))
    cls = repo.enum_members(m, repo.cls("quic.connection:QuicConnectionState"))
    want = {cls.get("CLOSING"), cls.get("DRAINING"), cls.get("TERMINATED")}
    chk.ob("R4", "END_STATES = {CLOSING, DRAINING, TERMINATED}", es is not Unknown and set(es) == want, f"{es}", "src/aioquic/quic/connection.py")
