"""C04 - native helpers never access memory out of bounds (whole property).

R1  every memory access / library extent / non-constant pointer addition in
    _crypto.c and _buffer.c is within its region on every path (E6).
R1-inv  Buffer objects re-establish base <= pos <= end at every exit.
R2  PyArg_ParseTuple format units agree with the C types they are stored in.
R3  allocation results are checked before use.
R4  every error return has a Python exception set.
R5  facts the C summaries rely on, checked on the Python side: the cipher names
    handed to AEAD()/HeaderProtection() come from crypto.CIPHER_SUITES and are in
    the table of known block sizes / key lengths.
"""
from __future__ import annotations

import ast
import os

from sa import cbounds
from sa.pyfacts import Unknown, norm
from sa.report import AnalysisError

LEVEL = "proof"

# OpenSSL facts (trusted base): cipher name -> (block size, key length, iv length)
CIPHERS = {
    b"aes-128-ecb": (16, 16, 0),
    b"aes-256-ecb": (16, 32, 0),
    b"chacha20": (1, 32, 16),
    b"aes-128-gcm": (1, 16, 12),
    b"aes-256-gcm": (1, 32, 12),
    b"chacha20-poly1305": (1, 32, 12),
}


def run(repo, chk):
    chk.rule("R1", "every array subscript, dereference, memcpy/memset/memcmp, OpenSSL/CPython extent and every pointer addition with a non-constant operand stays inside its region on every path (interval+linear abstract interpretation over the clang AST)")
    chk.rule("R1-inv", "Buffer methods re-establish base <= pos <= end (inside one allocation) at every normal and error exit")
    chk.rule("R2", "each PyArg_ParseTuple format unit is stored into a C variable of the type CPython writes")
    chk.rule("R3", "malloc results are tested before use")
    chk.rule("R4", "every `return NULL` / `return -1` is reached with a Python exception set")
    chk.rule("R5", "cipher names reaching AEAD()/HeaderProtection() are constants from crypto.CIPHER_SUITES with known block size/key length; AEAD ciphers are stream AEADs (block size 1), header-protection ciphers have block size <= 16")
    chk.trust("clang 14 parser/type checker (AST dumped with -std=c99 -DPy_LIMITED_API=0x030A0000 as in setup.py)")
    chk.trust("CPython PyArg_ParseTuple unit semantics (y# n K I B H), PyBytes_FromStringAndSize / Py_BuildValue extents")
    chk.trust("OpenSSL EVP: EVP_CipherUpdate writes at most inl+block_size-1 bytes, exactly inl for stream AEADs; tag ctrl touches `arg` bytes; cipher block/key/iv sizes in rules/c04.py:CIPHERS")
    chk.trust("pointer + constant <= 4096 cannot wrap (no allocation lies within 4 KiB of the top of the address space)")
    chk.assume("arguments of _crypto methods are at most 2^31-1 bytes long (they are slices of UDP datagrams / the packet builder buffer), so Py_ssize_t -> int conversions at OpenSSL call sites preserve the value")
    chk.assume("a y# argument of length n gives n readable bytes (the trailing NUL is not counted)")

    totals = {"functions": 0, "paths": 0, "accesses": 0, "calls": 0, "loops": 0}
    exported = {}
    raise_summary = {}
    for fname, maxlen in (("_buffer.c", None), ("_crypto.c", (1 << 31) - 1)):
        path = os.path.join(repo.src, fname)
        an = cbounds.CAnalysis(path, lambda rule, key, ok, msg, loc, detail: chk.ob(rule, key, ok, msg, loc, detail), maxlen)
        an.unchecked_units = []
        called = set()
        for name, fn in an.funcs.items():
            for c in _walk(fn):
                if c.get("kind") == "CallExpr":
                    cal = cbounds.strip([x for x in c["inner"] if x][0])
                    if cal.get("kind") == "DeclRefExpr" and cal["referencedDecl"]["name"] in an.funcs:
                        called.add(cal["referencedDecl"]["name"])
        todo = [n for n in an.funcs if n not in called and not n.startswith("PyInit")]
        if not todo:
            raise AnalysisError(f"no analysable functions found in {fname}")
        for name in todo:
            an.analyse_function(name)
        an.flush()
        for k in totals:
            totals[k] += an.stats[k]
        exported[fname] = sorted(todo)
        raise_summary[fname] = {k: sorted(v) for k, v in an.raise_summary.items()}
        chk.count(f"{fname}: unchecked-overflow format units (consumed by C17-R5)", [f"{f}:{u}:{v}" for f, u, v, _ in an.unchecked_units])
    chk.count("c_functions_analysed", exported)
    chk.count("c_stats", totals)
    chk.count("c_raise_summary", raise_summary)
    # engine health: all exported methods of both modules must have been analysed
    need = {"_buffer.c": 18, "_crypto.c": 6}
    for f, n in need.items():
        if len(exported[f]) < n:
            raise AnalysisError(f"only {len(exported[f])} functions of {f} analysed, expected at least {n}")

    _r5(repo, chk)


def _walk(n):
    stack = [n]
    while stack:
        x = stack.pop()
        if isinstance(x, dict):
            yield x
            stack.extend(x.get("inner", []))


def _r5(repo, chk):
    mod = repo.mod("quic.crypto")
    table = repo.const(mod, mod.assigns.get("CIPHER_SUITES")) if "CIPHER_SUITES" in mod.assigns else Unknown
    if table is Unknown or not isinstance(table, dict) or not table:
        raise AnalysisError("quic.crypto:CIPHER_SUITES is not a constant table")
    for suite, pair in table.items():
        ok = isinstance(pair, tuple) and len(pair) == 2 and pair[0] in CIPHERS and pair[1] in CIPHERS
        chk.ob("R5", f"CIPHER_SUITES[{suite:#x}] names known", ok, f"unknown cipher name in {pair}", repo.loc(mod.assigns["CIPHER_SUITES"], mod))
        if ok:
            hp, aead = CIPHERS[pair[0]], CIPHERS[pair[1]]
            chk.ob("R5", f"CIPHER_SUITES[{suite:#x}] aead {pair[1]!r} is a stream AEAD with 12-byte IV and key <= {cbounds.MAX_KEY_LENGTH}", aead[0] == 1 and aead[2] == cbounds.AEAD_IV_LENGTH and aead[1] <= cbounds.MAX_KEY_LENGTH, "AEAD summary (outl == inl, 12-byte nonce) does not hold for this cipher", repo.loc(mod.assigns["CIPHER_SUITES"], mod))
            chk.ob("R5", f"CIPHER_SUITES[{suite:#x}] hp {pair[0]!r} block <= 16, iv <= 16, key <= {cbounds.MAX_KEY_LENGTH}", hp[0] <= 16 and hp[2] <= 16 and hp[1] <= cbounds.MAX_KEY_LENGTH, "header-protection summary (mask output <= inl+15) does not hold", repo.loc(mod.assigns["CIPHER_SUITES"], mod))
    # every construction of AEAD / HeaderProtection in the package takes its name from the table
    sites = 0
    for m, q, fn in repo.all_functions():
        for call in [c for c in ast.walk(fn) if isinstance(c, ast.Call)]:
            if isinstance(call.func, ast.Name) and call.func.id in ("AEAD", "HeaderProtection") and m.imports.get(call.func.id, "").startswith("_crypto:"):
                sites += 1
                arg = call.args[0] if call.args else None
                idx = 1 if call.func.id == "AEAD" else 0
                ok = False
                why = "first argument is not a name unpacked from CIPHER_SUITES[...]"
                if isinstance(arg, ast.Name):
                    for st in ast.walk(fn):
                        if isinstance(st, ast.Assign) and isinstance(st.targets[0], ast.Tuple) and isinstance(st.value, ast.Subscript) and norm(st.value.value) == "CIPHER_SUITES":
                            names = [norm(e) for e in st.targets[0].elts]
                            if len(names) == 2 and names[idx] == arg.id:
                                ok = True
                chk.ob("R5", f"{m.name}:{q}: {call.func.id}({norm(arg) if arg else ''}, ...) name comes from CIPHER_SUITES[..][{idx}]", ok, why, repo.loc(call, m))
    if sites < 2:
        raise AnalysisError("constructions of AEAD/HeaderProtection not found in the package")
    chk.count("python_construction_sites", sites)
