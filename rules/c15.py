"""C15 - HTTP/3 applications only see well-formed messages.

R1  character classes of validate_header_name / validate_header_value decided exhaustively on the
    comparison partition of the byte range, against reference/h3_field_chars.json
R2  pseudo-header discipline in validate_headers (order flag, allow-list, repeat set, required set)
    and the sets passed by the four wrappers
R3  every HeadersReceived / PushPromiseReceived is constructed only after the matching validator
    returned normally on the same header list
R4  content-length bookkeeping: recorded from the validated header, every delivered body byte is
    counted, every event that can end a request/push stream is preceded by the comparison
R5  a violation raises MessageError (H3_MESSAGE_ERROR) which handle_event turns into close()
"""
from __future__ import annotations

import ast
import itertools
import json
import os

from sa.pyfacts import Unknown, attr_chain, call_name, get_kw, norm
from sa.q import Fn, inside, natom, raise_class
from sa.regions import Evaluator, representatives
from sa.report import AnalysisError

LEVEL = "other"
H3 = "h3.connection"
REF = os.path.join(os.path.dirname(os.path.dirname(os.path.abspath(__file__))), "reference", "h3_field_chars.json")

ACCEPT, REJECT = "accept", "reject"


class Decider:
    """abstract evaluation of a byte-sequence validator's decision tree for a sequence shape
    (a tuple of byte values); only comparison-with-constant tests are admitted."""

    def __init__(self, repo, fn: Fn, seq_param: str):
        self.repo, self.fn, self.seq = repo, fn, seq_param
        self.mod = fn.mod
        self.raised: set = set()
        self.ev = Evaluator(lambda e: repo.const(self.mod, e), self._resolve, self._special)
        self.regex_consts: set = set()
        self.alias: dict[str, str] = {}  # local name -> symbolic variable
        self.loopvars: dict[str, str] = {}

    def _resolve(self, e):
        if isinstance(e, ast.Name):
            if e.id in self.loopvars:
                return self.loopvars[e.id]
            if e.id in self.alias:
                return self.alias[e.id]
            return None
        t = norm(e)
        if getattr(self, "_index_var", None) and t == f"{self.seq}[{self._index_var}]":
            return "c"
        if t == f"{self.seq}[0]":
            return "first"
        if t == f"{self.seq}[-1]":
            return "last"
        if t == f"len({self.seq})":
            return "L"
        return None

    # ---- regular-expression atoms: `RX.match(seq)` / `.search` / `.fullmatch`, alone or compared with None.
    # The pattern is a constant folded from the module; its decision on the representative byte
    # string is computed with Python's `re` on that constant (data extracted from the source).
    def _regex_of(self, e):
        import re

        if isinstance(e, ast.Name) and e.id in self.mod.assigns:
            e = self.mod.assigns[e.id]
        if isinstance(e, ast.Call) and norm(e.func) == "re.compile" and e.args:
            pat = self.repo.const(self.mod, e.args[0])
            flags = 0
            for a in e.args[1:] + [k.value for k in e.keywords]:
                for n in ast.walk(a):
                    if isinstance(n, ast.Attribute) and isinstance(n.value, ast.Name) and n.value.id == "re":
                        flags |= int(getattr(re, n.attr))
            if isinstance(pat, (bytes, str)):
                return pat, flags
        return None

    def _regex_call(self, e, env):
        import re

        if not (isinstance(e, ast.Call) and isinstance(e.func, ast.Attribute) and e.func.attr in ("match", "search", "fullmatch")):
            return None
        if len(e.args) == 1 and norm(e.args[0]) == self.seq:
            rx = self._regex_of(e.func.value)
        elif len(e.args) >= 2 and norm(e.func.value) == "re" and norm(e.args[1]) == self.seq:
            pat = self.repo.const(self.mod, e.args[0])
            rx = (pat, 0) if isinstance(pat, (bytes, str)) and len(e.args) == 2 else None
        else:
            return None
        if rx is None:
            raise AnalysisError(f"{self.fn.qual}: regular expression in `{norm(e)[:60]}` is not a foldable constant")
        pat, flags = rx
        if isinstance(pat, str):
            raise AnalysisError(f"{self.fn.qual}: str pattern applied to a bytes header field")
        from sa.regions import regex_constants

        self.regex_consts |= regex_constants(pat)
        return getattr(re.compile(pat, flags), e.func.attr)(env["_seq"]) is not None

    def _special(self, test, env):
        r = self._regex_call(test, env)
        if r is not None:
            return r
        if isinstance(test, ast.Call) and isinstance(test.func, ast.Name) and test.func.id in ("any", "all") and len(test.args) == 1 and isinstance(test.args[0], ast.GeneratorExp):
            g = test.args[0]
            if len(g.generators) == 1 and not g.generators[0].ifs and isinstance(g.generators[0].target, ast.Name) and norm(g.generators[0].iter) == self.seq:
                saved = dict(self.loopvars)
                self.loopvars = dict(saved)
                self.loopvars[g.generators[0].target.id] = "c"
                vals = []
                for b in env["_seq"]:
                    e2 = dict(env)
                    e2["c"] = b
                    vals.append(self.ev.truth(g.elt, e2))
                self.loopvars = saved
                return any(vals) if test.func.id == "any" else all(vals)
        if isinstance(test, ast.Name) and test.id == self.seq:
            # truth of a bytes value is `len(value) > 0`
            self.ev._note("L", 0)
            return env["L"] > 0
        if isinstance(test, ast.Compare) and len(test.ops) == 1 and isinstance(test.comparators[0], ast.Constant) and test.comparators[0].value is None:
            r = self._regex_call(test.left, env)
            if r is not None:
                if isinstance(test.ops[0], (ast.Is, ast.Eq)):
                    return not r
                if isinstance(test.ops[0], (ast.IsNot, ast.NotEq)):
                    return r
        return None

    def decide(self, shape: tuple) -> str:
        env = {"L": len(shape), "_seq": bytes(shape)}
        if shape:
            env["first"], env["last"] = shape[0], shape[-1]
        self.alias, self.loopvars = {}, {}
        r = self._block(self.fn.node.body, env, shape, in_loop=False)
        return REJECT if r == "raise" else ACCEPT

    def _block(self, stmts, env, shape, in_loop):
        for st in stmts:
            r = self._stmt(st, env, shape, in_loop)
            if r is not None:
                return r
        return None

    def _stmt(self, st, env, shape, in_loop):
        if isinstance(st, ast.Pass) or (isinstance(st, ast.Expr) and isinstance(st.value, ast.Constant)):
            return None
        if isinstance(st, ast.If):
            branch = st.body if self.ev.truth(st.test, env) else st.orelse
            return self._block(branch, env, shape, in_loop)
        if isinstance(st, ast.Raise):
            self.raised.add(raise_class(st))
            return "raise"
        if isinstance(st, ast.Return):
            return "return"
        if isinstance(st, ast.Continue) and in_loop:
            return "continue"
        if isinstance(st, ast.Break) and in_loop:
            return "break"
        if isinstance(st, ast.Assign) and len(st.targets) == 1 and isinstance(st.targets[0], ast.Name) and in_loop and getattr(self, "_index_var", None) and norm(st.value) == f"{self.seq}[{self._index_var}]":
            self.loopvars[st.targets[0].id] = "c"
            return None
        if isinstance(st, ast.Assign) and len(st.targets) == 1 and isinstance(st.targets[0], ast.Name) and not in_loop:
            v = self._resolve(st.value)
            if v in ("first", "last", "L"):
                if v in ("first", "last") and v not in env:
                    raise AnalysisError(f"{self.fn.qual}: `{norm(st)}` evaluated for an empty sequence (IndexError not guarded by a length test)")
                self.alias[st.targets[0].id] = v
                return None
        if isinstance(st, ast.For) and not in_loop and not st.orelse:
            it = norm(st.iter)
            if it == self.seq and isinstance(st.target, ast.Name):
                names = (None, st.target.id)
            elif it == f"enumerate({self.seq})" and isinstance(st.target, ast.Tuple) and len(st.target.elts) == 2 and all(isinstance(x, ast.Name) for x in st.target.elts):
                names = (st.target.elts[0].id, st.target.elts[1].id)
            elif it == f"range(len({self.seq}))" and isinstance(st.target, ast.Name):
                # index loop: the byte is read as seq[i] (bound to a local in the body, or used directly)
                names = (st.target.id, None)
            else:
                raise AnalysisError(f"{self.fn.qual}: unsupported loop header `for {norm(st.target)} in {it}`")
            for p, b in enumerate(shape):
                e2 = dict(env)
                self.loopvars = {names[1]: "c"} if names[1] else {}
                self._index_var = names[0] if names[1] is None else None
                e2["c"] = b
                if names[0]:
                    self.loopvars[names[0]] = "i"
                    e2["i"] = p
                r = self._block(st.body, e2, shape, in_loop=True)
                if r == "raise" or r == "return":
                    self.loopvars = {}
                    return r
                if r == "break":
                    break
            self.loopvars = {}
            return None
        raise AnalysisError(f"{self.fn.qual}: statement outside the comparison-only validator grammar: `{norm(st)[:70]}` (line {st.lineno})")


def _oracle(ref):
    nr = ref["name"]["reject_ranges"]
    ni = set(ref["name"]["reject_non_initial"])
    va = set(ref["value"]["reject_anywhere"])
    vw = set(ref["value"]["reject_first_or_last"])

    def name(shape):
        for p, b in enumerate(shape):
            if any(lo <= b <= hi for lo, hi in nr) or (p != 0 and b in ni):
                return REJECT
        return ACCEPT

    def value(shape):
        if any(b in va for b in shape):
            return REJECT
        if shape and (shape[0] in vw or shape[-1] in vw):
            return REJECT
        return ACCEPT

    consts = {k for lo, hi in nr for k in (lo, hi)} | ni | va | vw
    return name, value, consts


def r1(repo, chk, ref):
    oname, ovalue, oconsts = _oracle(ref)
    total = 0
    for fname, param, oracle, what in (("validate_header_name", "key", oname, "name"), ("validate_header_value", "value", ovalue, "value")):
        fn = Fn(repo, f"{H3}:{fname}")
        params = [a.arg for a in fn.node.args.args]
        if param not in params:
            raise AnalysisError(f"{fname}: parameter {param} not found")
        d = Decider(repo, fn, param)
        A = 0x61  # 'a': accepted by every rule, used as the neutral neighbour
        classes = []
        if what == "name":
            classes = [("only byte", lambda c: (c,)), ("first byte", lambda c: (c, A, A)), ("non-initial byte", lambda c: (A, c, A)), ("last byte", lambda c: (A, A, c))]
        else:
            classes = [("only byte", lambda c: (c,)), ("first byte", lambda c: (c, A, A)), ("middle byte", lambda c: (A, c, A)), ("last byte", lambda c: (A, A, c)), ("last of two", lambda c: (A, c)), ("first of two", lambda c: (c, A))]
        for cname, mk in classes:
            for c in range(256):
                shape = mk(c)
                got, want = d.decide(shape), oracle(shape)
                total += 1
                chk.ob("R1", f"{fname}: 0x{c:02x} as {cname} is {want}ed", got == want, f"the validator {got}s {what} {bytes(shape)!r}, RFC 9113 8.2.1 / the property require it to be {want}ed", fn.loc(fn.node))
        # all combinations of partition representatives for lengths 0..3
        consts = set(oconsts)
        for v in d.ev.constants.values():
            consts |= {k for k in v if isinstance(k, int) and 0 <= k <= 255}
        consts |= d.regex_consts
        reps = representatives(consts)
        bad = []
        n = 0
        maxlen = 4 if getattr(chk, "tier", "quick") == "thorough" else 3
        for L in range(0, maxlen + 1):
            for shape in itertools.product(reps, repeat=L):
                if what == "name" and L == 0:
                    continue
                n += 1
                if d.decide(shape) != oracle(shape):
                    bad.append(bytes(shape))
        total += n
        chk.ob("R1", f"{fname}: all {what}s of length <= {maxlen} over the {len(reps)} partition representatives agree with the reference", not bad, f"{len(bad)} disagreements, e.g. {bad[:4]}", fn.loc(fn.node), {"representatives": reps, "evaluated": n})
        chk.ob("R5", f"{fname}: every rejection raises MessageError", d.raised <= {"MessageError"} and bool(d.raised), f"raises {sorted(map(str, d.raised))}", fn.loc(fn.node))
        chk.count(f"{fname}_constants", {k: sorted(x for x in v if isinstance(x, int)) for k, v in d.ev.constants.items()})
    chk.count("R1_decisions", total)


def _fold_bytes_set(repo, mod, e):
    v = repo.const(mod, e)
    if v is Unknown:
        return None
    try:
        return {x.decode("ascii") for x in v}
    except Exception:
        return None


def r2(repo, chk, ref):
    vh = Fn(repo, f"{H3}:validate_headers")
    loops = [s for s in vh.node.body if isinstance(s, ast.For)]
    main = [l for l in loops if norm(l.iter) == "headers"]
    if not main:
        raise AnalysisError("validate_headers: loop over `headers` not found")
    loop = main[0]
    if not (isinstance(loop.target, ast.Tuple) and len(loop.target.elts) == 2):
        raise AnalysisError("validate_headers: loop target is not (key, value)")
    k, v = (norm(x) for x in loop.target.elts)
    # character validators run for every header, unconditionally
    for callee, args in (("validate_header_name", [k]), ("validate_header_value", [k, v])):
        cs = [c for c in vh.calls(name=callee) if inside(c, loop)]
        ok = any([norm(a) for a in c.args] == args and not vh.lexical_guards(c, expand=False) and not vh.enclosing_handlers(c) for c in cs)
        chk.ob("R2", f"validate_headers: {callee}({', '.join(args)}) runs for every header", ok, "call missing, conditional, given other arguments, or wrapped in a handler", vh.loc(loop))
        # nothing may leave the loop body before the validators ran
        for c in cs:
            early = [s for s in vh.stmts(lambda s: isinstance(s, (ast.Continue, ast.Break, ast.Return)) and inside(s, loop)) if not vh.before(c, s)]
            chk.ob("R2", f"validate_headers: no continue/break/return precedes {callee}", not early, f"early exit at line {[s.lineno for s in early]}", vh.loc(loop))
    pseudo = f"{k}.startswith(b':')"
    raises = [r for r in vh.raises() if inside(r, loop)]

    def raise_with(frags, pol_pseudo=True):
        out = []
        for r in raises:
            atoms = vh.guard_atoms_x(r) + vh.guard_atoms(r)
            if (pseudo, pol_pseudo) not in atoms:
                continue
            for a in atoms:
                if a[0] != pseudo and all(f in a[0] for f in frags[0]) and a[1] == frags[1]:
                    out.append(r)
        return out

    flagdefs = vh.assigns(chain="after_pseudo_headers")
    # locate the flag by role rather than by name: a local set to True in the non-pseudo branch
    flags = set()
    for st, t, val in vh._assigns_scan() and [(a, b, c) for a, b, c, d in vh._assigns_scan()]:
        if isinstance(t, ast.Name) and isinstance(val, ast.Constant) and val.value is True and inside(st, loop):
            lg = vh.lexical_guards(st, expand=False)
            if lg == [(pseudo, False)]:
                flags.add(t.id)
    chk.ob("R2", "validate_headers: a flag is set unconditionally by every regular header", bool(flags), f"no `flag = True` directly under the non-pseudo branch of `{pseudo}`", vh.loc(loop))
    okflag = False
    for fl in flags:
        rs = raise_with(([fl], True))
        rs = [r for r in rs if not any(a[0] != pseudo and a[0] != fl and a[1] is not None and inside(r, loop) and a in vh.lexical_guards(r, expand=False) for a in vh.lexical_guards(r, expand=False))]
        inits = [(st, val) for st, t, val in vh.assigns(chain=fl)]
        false_in_loop = [st for st, val in inits if inside(st, loop) and not (isinstance(val, ast.Constant) and val.value is True)]
        init_false = any(not inside(st, loop) and isinstance(val, ast.Constant) and val.value is False and vh.before(st, loop) for st, val in inits)
        if rs and not false_in_loop and init_false:
            okflag = True
    chk.ob("R2", "validate_headers: a pseudo-header after a regular header raises", okflag, "no raise in the pseudo-header branch guarded only by the regular-header flag (or the flag is reset inside the loop)", vh.loc(loop))
    # allow-list
    rs = raise_with((["not in allowed_pseudo_headers", k], True))
    chk.ob("R2", "validate_headers: a pseudo-header outside the allowed set raises", bool(rs) and any(_only_pseudo_guard(vh, r, pseudo, ["allowed_pseudo_headers"]) for r in rs), "membership test in allowed_pseudo_headers no longer guards a raise for every pseudo-header", vh.loc(loop))
    # repeat set
    seen = None
    for c in vh.calls(suffix="add"):
        if inside(c, loop) and [norm(a) for a in c.args] == [k] and isinstance(c.func, ast.Attribute):
            lg = vh.lexical_guards(c, expand=False)
            if lg == [(pseudo, True)]:
                seen = norm(c.func.value)
    chk.ob("R2", "validate_headers: every accepted pseudo-header is recorded in the seen set", seen is not None, f"no unconditional `<set>.add({k})` in the pseudo-header branch", vh.loc(loop))
    if seen:
        rs = raise_with(([f"{k} in {seen}"], True))
        ok = bool(rs) and any(_only_pseudo_guard(vh, r, pseudo, [seen]) for r in rs)
        chk.ob("R2", "validate_headers: a repeated pseudo-header raises", ok, f"no raise guarded by `{k} in {seen}`", vh.loc(loop))
        # the repeat test must come before the add on the path
        adds = [c for c in vh.calls(suffix="add") if inside(c, loop) and norm(c.func) == f"{seen}.add"]
        tests = [st for st in vh.stmts(lambda s: isinstance(s, ast.If) and inside(s, loop)) if f"{k} in {seen}" in norm(st.test)]
        chk.ob("R2", "validate_headers: repeat test precedes recording", all(vh.before(t, a) for t in tests for a in adds) and bool(tests), "the key is added to the seen set before it is tested", vh.loc(loop))
        # seen set starts empty and has no other writer
        inits = vh.assigns(chain=seen)
        ok = len(inits) == 1 and norm(inits[0][2]) in ("set()", "frozenset()") and not inside(inits[0][0], loop)
        muts = [c for c in vh.calls() if isinstance(c.func, ast.Attribute) and norm(c.func.value) == seen and c.func.attr in ("discard", "remove", "clear", "pop", "difference_update", "intersection_update")]
        chk.ob("R2", "validate_headers: the seen set starts empty and only grows", ok and not muts, "seen set re-initialised or shrunk", vh.loc(vh.node))
        # required set
        post = [r for r in vh.raises() if not inside(r, loop)]
        req = []
        for r in post:
            lg = _atoms1(vh, r)
            if any("required_pseudo_headers" in a[0] and seen in a[0] for a in lg) and len(lg) == 1:
                req.append(r)
        chk.ob("R2", "validate_headers: a missing required pseudo-header raises", bool(req), "no raise after the loop guarded solely by a test relating required_pseudo_headers to the seen set", vh.loc(vh.node))
        for r in req:
            lg = _atoms1(vh, r)
            t = lg[0]
            good = (("required_pseudo_headers.difference(" + seen + ")" in t[0] or "required_pseudo_headers - " + seen in t[0]) and t[1] is True) or (("required_pseudo_headers <= " + seen in t[0] or "required_pseudo_headers.issubset(" + seen + ")" in t[0] or seen + " >= required_pseudo_headers" in t[0] or seen + ".issuperset(required_pseudo_headers)" in t[0]) and t[1] is False)
            chk.ob("R2", "validate_headers: the required-set test is `required - seen` non-empty", good, f"test is {t}", vh.loc(r))
            chk.ob("R2", "validate_headers: the required-set test runs after the whole loop", vh.before(loop, r) and not [s for s in vh.returns() if vh.reachable(s) and not vh.before(r, s) and not inside(s, r) and _stmt_before(s, r)], "a return precedes the required-set test", vh.loc(r))
    # all raises are MessageError
    kinds = {raise_class(r) for r in vh.raises()}
    inner = set()
    for r in vh.raises():
        if raise_class(r) != "MessageError":
            hs = vh.enclosing_handlers(r)
            if hs and all(any(isinstance(x, ast.Raise) and raise_class(x) == "MessageError" for x in h.body) for h in hs):
                inner.add(raise_class(r))
    chk.ob("R5", "validate_headers: every rejection raises MessageError", kinds - inner <= {"MessageError"}, f"raises {sorted(map(str, kinds - inner))}", vh.loc(vh.node))

    # wrappers
    m = repo.mod(H3)
    wrappers = {"request": "validate_request_headers", "response": "validate_response_headers", "trailers": "validate_trailers", "push_promise": "validate_push_promise_headers"}
    for kind, wname in wrappers.items():
        w = Fn(repo, f"{H3}:{wname}")
        cs = w.calls(name="validate_headers")
        ok = len(cs) == 1 and w.cfg.postdominates(w.cfg.node_of(cs[0]), w.cfg.entry) and not w.enclosing_handlers(cs[0])
        chk.ob("R2", f"{wname}: validate_headers is called on every path, outside any handler", ok, "call missing / conditional / wrapped", w.loc(w.node))
        if not cs:
            continue
        c = cs[0]
        hdr = get_kw(c, "headers", 0)
        chk.ob("R2", f"{wname}: passes its own header list", hdr is not None and norm(hdr) == w.node.args.args[0].arg, f"first argument {norm(hdr) if hdr is not None else None}", w.loc(c))
        def _arg(e):
            # a set bound once to a local of the wrapper is read through
            if isinstance(e, ast.Name) and not w.is_param(e.id) and len(w.local_defs(e.id)) == 1:
                return w.local_defs(e.id)[0]
            return e

        allowed = _fold_bytes_set(repo, m, _arg(get_kw(c, "allowed_pseudo_headers", 1)))
        required = _fold_bytes_set(repo, m, _arg(get_kw(c, "required_pseudo_headers", 2)))
        spec = ref["pseudo_headers"][kind]
        if allowed is None or required is None:
            raise AnalysisError(f"{wname}: pseudo-header sets are not constant")
        chk.ob("R2", f"{wname}: allowed pseudo-headers are within the known set for {kind}s", allowed <= set(spec["known"]), f"allows {sorted(allowed - set(spec['known']))}", w.loc(c))
        chk.ob("R2", f"{wname}: required pseudo-headers include {spec['required_at_least']}", set(spec["required_at_least"]) <= required, f"requires only {sorted(required)}", w.loc(c))
        chk.ob("R2", f"{wname}: required pseudo-headers are allowed", required <= allowed, f"required {sorted(required)} vs allowed {sorted(allowed)}", w.loc(c))
        if kind in ("request", "response"):
            st = get_kw(c, "stream", 3)
            chk.ob("R4", f"{wname}: forwards the stream so that content-length is recorded", st is not None and norm(st) == "stream", "stream argument not forwarded", w.loc(c))


def _atoms1(fn, node):
    """lexical guards of node, unexpanded except that a bare single-definition local used as a
    whole test is replaced by its defining expression (one level)"""
    out = []
    for txt, pol in fn.lexical_guards(node, expand=False):
        if txt.isidentifier():
            defs = fn.local_defs(txt)
            if len(defs) == 1 and not fn.is_param(txt):
                txt = norm(defs[0])
        out.append((txt, pol))
    return out


def _stmt_before(a, b):
    return a.lineno < b.lineno


def _only_pseudo_guard(vh, r, pseudo, allowed_frags):
    """the raise's lexical guards are the pseudo-header test plus tests mentioning only the given fragments"""
    for a in vh.lexical_guards(r, expand=False):
        if a[0] == pseudo:
            continue
        if not any(f in a[0] for f in allowed_frags):
            return False
    return True


VALIDATORS = ("validate_request_headers", "validate_response_headers", "validate_trailers", "validate_push_promise_headers")


def r3(repo, chk):
    m = repo.mod(H3)
    n_events = 0
    for q in sorted(m.functions):
        fn = Fn(repo, f"{H3}:{q}")
        for c in fn.calls():
            cn = call_name(c)
            if cn not in ("HeadersReceived", "PushPromiseReceived"):
                continue
            n_events += 1
            hv = get_kw(c, "headers", 0)
            if hv is None or not isinstance(hv, ast.Name):
                chk.ob("R3", f"{q}: {cn}(headers=...) passes a local name", False, f"headers argument is {norm(hv) if hv is not None else None}", fn.loc(c))
                continue
            want = ("validate_push_promise_headers",) if cn == "PushPromiseReceived" else ("validate_request_headers", "validate_response_headers", "validate_trailers")
            vals = [v for v in fn.calls() if call_name(v) in want and v.args and norm(v.args[0]) == hv.id]
            cfg = fn.cfg
            begins = {cfg.node_of(v) for v in vals}
            tgt = cfg.node_of(c)
            ok = bool(vals) and not cfg.reaches(cfg.entry, tgt, avoid=begins)
            chk.ob("R3", f"{q}: {cn} is constructed only after a validator accepted `{hv.id}`", ok, "a path reaches the event without passing " + "/".join(want), fn.loc(c))
            # every definition of the name that reaches the event is validated afterwards
            for st, t, val in fn.assigns(chain=hv.id):
                d = cfg.done.get(st)
                if d is None:
                    continue
                if cfg.reaches(d, tgt, avoid=begins):
                    chk.ob("R3", f"{q}: `{norm(st)[:60]}` is validated before {cn}", False, "a definition of the header list reaches the event without validation", fn.loc(st))
            # a failing validator is not swallowed
            for v in vals:
                hs = fn.enclosing_handlers(v)
                bad = [h for h in hs if not any(isinstance(x, ast.Raise) for x in h.body) and (h.type is None or any(nm in norm(h.type) for nm in ("Exception", "ProtocolError", "MessageError", "BaseException")))]
                chk.ob("R3", f"{q}: failure of `{call_name(v)}` propagates", not bad, "a handler around the validator swallows the error", fn.loc(v))
            if cn == "HeadersReceived":
                # selection of the validator
                for v in vals:
                    at = fn.guard_atoms_x(v)
                    name = call_name(v)
                    init = [a for a in at if "headers_recv_state" in a[0] and "HeadersState.INITIAL" in a[0] and " == " in a[0]]
                    if name == "validate_trailers":
                        ok = any(a[1] is False for a in init) or any("headers_recv_state" in a[0] and " != " in a[0] and a[1] for a in at)
                        chk.ob("R3", f"{q}: validate_trailers is used exactly when headers were already received", ok and not any(a[1] is True for a in init), f"path condition {at}", fn.loc(v))
                    else:
                        role = ("self._is_client", name == "validate_response_headers")
                        ok = any(a[1] is True for a in init) and role in at
                        chk.ob("R3", f"{q}: {name} is selected by role and by the INITIAL header state", ok, f"path condition {at}", fn.loc(v))
                kinds = {call_name(v) for v in vals}
                chk.ob("R3", f"{q}: request, response and trailer validators are all present", kinds == set(want), f"only {sorted(kinds)}", fn.loc(c))
    if n_events < 2:
        raise AnalysisError(f"only {n_events} HeadersReceived/PushPromiseReceived constructions found in h3.connection")
    chk.count("header_event_constructions", n_events)


def r4(repo, chk):
    m = repo.mod(H3)
    vh = Fn(repo, f"{H3}:validate_headers")
    # both roles hand the stream to the validator of initial headers (that is how the declared length is recorded)
    n_calls = 0
    for q in sorted(m.functions):
        if not q.startswith("H3Connection."):
            continue
        fn = Fn(repo, f"{H3}:{q}")
        for wname in ("validate_request_headers", "validate_response_headers"):
            for c in fn.calls(name=wname):
                n_calls += 1
                st = get_kw(c, "stream", 1)
                chk.ob("R4", f"{q}: `{wname}` receives the stream the headers arrived on", st is not None and norm(st) == "stream", "content-length of this role's messages is validated but never recorded, so it is never compared with the body", fn.loc(c))
    if n_calls < 2:
        raise AnalysisError("calls of validate_request_headers / validate_response_headers not found in H3Connection")
    # recorded from the validated header
    recs = vh.assigns(suffix="expected_content_length")
    ok = False
    for st, t, val in recs:
        at = vh.guard_atoms_x(st)
        src = vh.expand(val, 3)
        if any("b'content-length'" in a[0] and " == " in a[0] and a[1] for a in at) and "int(value)" in src:
            ok = True
    chk.ob("R4", "validate_headers: expected_content_length is recorded from int(value) of the content-length header", ok, "no such assignment", vh.loc(vh.node))
    neg = [r for r in vh.raises() if any(" < 0" in a[0] or "0 > " in a[0] for a in vh.lexical_guards(r))]
    conv = [c for c in vh.calls(name="int")]
    ok = bool(neg) and bool(conv) and all(any(h.type is not None and "ValueError" in norm(h.type) and any(isinstance(x, ast.Raise) and raise_class(x) == "MessageError" for x in h.body) for h in vh.enclosing_handlers(c)) for c in conv)
    chk.ob("R4", "validate_headers: a negative or non-numeric content-length raises MessageError", ok, "int() conversion / sign check not converted to MessageError", vh.loc(vh.node))

    chkfn = Fn(repo, f"{H3}:H3Connection._check_content_length")
    # the function is loop-free and does nothing else, so the dominating atoms of the raise are its exact condition
    # (nested form, merged form and early-return form all give the same two atoms)
    want = {natom("stream.content_length != stream.expected_content_length"), natom("stream.expected_content_length is not None")}
    rs = chkfn.raises("MessageError")
    ok = len(rs) == 1 and set(chkfn.guard_atoms(rs[0])) | set(chkfn.lexical_guards(rs[0], expand=False)) == want and not chkfn.stmts(lambda x: isinstance(x, (ast.For, ast.While, ast.Try)))
    chk.ob("R4", "_check_content_length raises MessageError when the counted body differs from the declared length", ok, "comparison no longer guards the raise (or has extra conditions)", chkfn.loc(chkfn.node))
    for r in rs:
        lg = set(chkfn.lexical_guards(r, expand=False)) | set(chkfn.guard_atoms(r))
        chk.ob("R4", "_check_content_length: the only other condition is that a length was declared", lg == want, f"guards {sorted(lg)}", chkfn.loc(r))
    # header-block position on the stream: first block = message headers, second = trailers, a third is refused
    hp = Fn(repo, f"{H3}:H3Connection._handle_request_or_push_frame")
    sets = {norm(v): hp.lexical_guards(st, expand=False) for st, t, v in hp.assigns(chain="stream.headers_recv_state")}
    ini, aft = natom("stream.headers_recv_state == HeadersState.INITIAL"), natom("stream.headers_recv_state == HeadersState.INITIAL", False)
    ok = set(sets) == {"HeadersState.AFTER_HEADERS", "HeadersState.AFTER_TRAILERS"} and ini in sets["HeadersState.AFTER_HEADERS"] and aft in sets["HeadersState.AFTER_TRAILERS"]
    chk.ob("R3", "_handle_request_or_push_frame: a validated header block moves the stream INITIAL -> AFTER_HEADERS, any later one -> AFTER_TRAILERS", ok, f"{ {k: v for k, v in sets.items()} }: the validator applied to the next block (message headers vs trailers) is chosen by this state", hp.loc(hp.node))
    ref3 = [r for r in hp.raises("FrameUnexpected") if natom("stream.headers_recv_state == HeadersState.AFTER_TRAILERS") in hp.lexical_guards(r, expand=False) and natom("frame_type == FrameType.HEADERS") in hp.lexical_guards(r, expand=False)]
    chk.ob("R3", "a HEADERS frame after the trailers is refused", len(ref3) == 1, "", hp.loc(hp.node))

    # writers of content_length / expected_content_length
    writers = []
    for q in sorted(m.functions):
        fn = Fn(repo, f"{H3}:{q}")
        for st, t, val in fn.assigns(suffix="content_length"):
            if attr_chain(t) in (None,) or not attr_chain(t).endswith(".content_length") or attr_chain(t).endswith("expected_content_length"):
                continue
            writers.append((q, fn, st, val))
    for q, fn, st, val in writers:
        if q == "H3Stream.__init__":
            ok = isinstance(val, ast.Constant) and val.value == 0
            chk.ob("R4", "H3Stream.content_length starts at 0", ok, f"initialised to {norm(val)}", fn.loc(st))
        else:
            ok = isinstance(st, ast.AugAssign) and isinstance(st.op, ast.Add) and isinstance(val, ast.Call) and call_name(val) == "len"
            chk.ob("R4", f"{q}: `{norm(st)}` only adds the length of delivered data", ok, "content_length written other than by += len(...)", fn.loc(st))
    n_data = 0
    for q in sorted(m.functions):
        fn = Fn(repo, f"{H3}:{q}")
        incs = [(st, val) for qq, f2, st, val in writers if f2.qual == fn.qual and isinstance(st, ast.AugAssign)]
        checks = fn.calls(name="self._check_content_length")
        for c in fn.calls():
            cn = call_name(c)
            if cn not in ("DataReceived", "HeadersReceived"):
                continue
            if cn == "DataReceived":
                n_data += 1
                dv = get_kw(c, "data", 0)
                if dv is None:
                    chk.ob("R4", f"{q}: DataReceived has a data argument", False, "", fn.loc(c))
                    continue
                if not (isinstance(dv, ast.Constant) and dv.value == b""):
                    want = f"len({norm(dv)})"
                    ok = False
                    for st, val in incs:
                        if norm(val) != want:
                            continue
                        if fn.before(st, c):
                            ok = True
                            continue
                        common = fn.lexical_guards(c, expand=False)
                        lg = [a for a in fn.lexical_guards(st, expand=False) if a not in common]
                        if lg == [(f"{norm(dv)} is not None", True)] or lg == [(f"{norm(dv)} is None", False)] or lg == [(norm(dv), True)]:
                            holder = st._parent
                            if isinstance(holder, ast.If) and fn.before(holder, c):
                                ok = True
                    chk.ob("R4", f"{q}: DataReceived(data={norm(dv)}) is preceded by `content_length += {want}`", ok, "body bytes are delivered without being counted", fn.loc(c))
            ev = get_kw(c, "stream_ended")
            if ev is None or (isinstance(ev, ast.Constant) and ev.value is False):
                continue
            ok = False
            for k in checks:
                if fn.before(k, c):
                    ok = True
                    continue
                lg = fn.lexical_guards(k, expand=False)
                if len(lg) >= 1 and lg[-1 if False else 0] is not None:
                    inner = fn.lexical_guards(k, expand=False)
                    holder = k
                    while holder is not None and not isinstance(holder, ast.If):
                        holder = getattr(holder, "_parent", None)
                    if isinstance(holder, ast.If) and norm(holder.test) == norm(ev) and any(inside(k, s) for s in holder.body) and fn.before(holder, c):
                        # no rebinding of the flag between the test and the event
                        ok = True
            chk.ob("R4", f"{q}: {cn}(stream_ended={norm(ev)}) is preceded by the content-length comparison whenever the stream ends", ok, "an end-of-stream event can be emitted without comparing the declared and the delivered length", fn.loc(c))
    if n_data < 3:
        raise AnalysisError(f"only {n_data} DataReceived constructions found")
    chk.count("data_event_constructions", n_data)


def r5(repo, chk, ref):
    m = repo.mod(H3)
    me = repo.cls(f"{H3}:MessageError")
    code = None
    for st in me.body:
        if isinstance(st, ast.Assign) and norm(st.targets[0]) == "error_code":
            code = repo.const(m, st.value)
    chk.ob("R5", "MessageError.error_code == H3_MESSAGE_ERROR (0x10E)", code == ref["message_error_code"], f"error_code folds to {code}", repo.loc(me, m))
    bases = [norm(b) for b in me.bases]
    chk.ob("R5", "MessageError is a ProtocolError", bases == ["ProtocolError"], f"bases {bases}", repo.loc(me, m))
    he = Fn(repo, f"{H3}:H3Connection.handle_event")
    hs = [st for st in he.stmts(lambda s: isinstance(s, ast.Try))]
    ok = False
    for t in hs:
        for h in t.handlers:
            if h.type is not None and norm(h.type) in ("ProtocolError", "(ProtocolError,)") and h.name:
                closes = [c for c in ast.walk(h) if isinstance(c, ast.Call) and call_name(c) == "self._quic.close"]
                for c in closes:
                    ec = get_kw(c, "error_code", 0)
                    if ec is not None and norm(ec) == f"{h.name}.error_code":
                        covered = [cc for cc in ast.walk(t) if isinstance(cc, ast.Call) and call_name(cc) == "self._receive_stream_data" and any(inside(cc, b) for b in t.body)]
                        ok = bool(covered)
    chk.ob("R5", "handle_event converts ProtocolError raised while processing stream data into close(error_code=exc.error_code)", ok, "conversion vanished", he.loc(he.node))


def run(repo, chk):
    chk.rule("R1", "validate_header_name / validate_header_value touch each byte only through comparisons with constants; their accept/reject decision is evaluated for every byte value in every position class and for all combinations of partition representatives up to length 3, and must equal the reference (RFC 9113 8.2.1, property text)")
    chk.rule("R2", "validate_headers: both character validators run for every header; pseudo-header after regular header, unknown, repeated and missing pseudo-headers each guard a raise; the wrappers pass sets consistent with RFC 9114 4.3")
    chk.rule("R3", "every HeadersReceived / PushPromiseReceived construction is reachable only through the normal return of the matching validator applied to the same header list, selected by role and header state")
    chk.rule("R4", "content-length: recorded from the validated header, every DataReceived payload is counted, every event that may end the stream is preceded by the comparison, which raises MessageError")
    chk.rule("R5", "rejections raise MessageError; its code is H3_MESSAGE_ERROR; handle_event converts it into close()")
    chk.decline("semantic header rules beyond the property text (e.g. :scheme/:path consistency, connection-specific fields)")
    chk.trust("reference/h3_field_chars.json transcribed from RFC 9113 8.2.1 / RFC 9114 4.2-4.3 and the property text")
    with open(REF) as fp:
        ref = json.load(fp)
    r1(repo, chk, ref)
    r2(repo, chk, ref)
    r3(repo, chk)
    r4(repo, chk)
    r5(repo, chk, ref)
