"""C05 - network input can never make the QUIC/TLS API raise.

R1  the exception-escape set of every API boundary is empty (E4)
R2  the conversion points exist and are total
R2b facts that justify the call-site refinements / suppressions
R3  frame-handler table consistency (every RFC frame type registered; handlers
    that index the three-epoch tables are not registered for 0-RTT)
R4  frame capacity accounting: bytes pushed after start_frame(capacity=C) <= C
"""
from __future__ import annotations

import ast
import json
import os

from sa.excflow import C_RAISES, EXT_RAISES, Escape
from sa.flow import FuncRef, Program
from sa.linear import Lin
from sa.pyfacts import Unknown, attr_chain, call_name, get_kw, norm
from sa.q import Fn, flatten_cond, raise_class, raise_kw
from sa.report import VERIF, AnalysisError

LEVEL = "other"
CONN = "quic.connection:QuicConnection."
BOUNDARIES = ["receive_datagram", "handle_timer", "datagrams_to_send", "get_timer", "next_event"]

_shared = {}


def engine(repo):
    k = id(repo)
    if k not in _shared:
        prog = Program(repo)
        _shared[k] = (prog, Escape(prog))
    return _shared[k]


def report_escapes(chk, esc: Escape, boundaries, rule="R1", allow=()):
    """one obligation per exception source reachable from the boundaries: discharged iff it cannot escape"""
    total_sites = 0
    for b in boundaries:
        items = esc.escaping(b)
        bname = b.split(":")[1]
        funcs = esc.reachable(b)
        total_sites += esc.source_sites(funcs)
        escaping = [it for it in items if it.cls not in allow]
        for it in escaping:
            chain = " > ".join(c.split(":")[1] for c in it.chain[:8])
            chk.ob(rule, f"{bname}: {it.cls} from {it.origin}", False, f"may escape {bname} [{it.why}] via {chain}", it.loc, {"chain": list(it.chain)})
        chk.ob(rule, f"{bname}: all other exception sources reachable are caught, converted or discharged", True, "", "", {"functions_reachable": len(funcs), "escaping": len(escaping)})
        chk.count(f"{bname}: functions reachable", len(funcs))
    return total_sites


def engine_health(chk, esc: Escape, floor=0.90):
    rate = esc.resolved_calls / max(esc.total_calls, 1)
    chk.count("call_sites", esc.total_calls)
    chk.count("call_sites_resolved", esc.resolved_calls)
    chk.count("resolution_rate", round(rate, 4))
    chk.count("fixpoint_iterations", esc.iterations)
    chk.count("unresolved_calls (treated as not raising)", dict(sorted(esc.unresolved.items(), key=lambda x: -x[1])[:60]))
    chk.count("preconditions discharged at call sites", esc.discharged_log[:80])
    stale = [s for i, s in enumerate(esc.suppressions) if i not in esc.used_suppressions]
    chk.count("suppressions", [{"in": s["in"], "stmt": s["stmt"], "exc": s["exc"], "reason": s["reason"]} for s in esc.suppressions])
    chk.count("stale_suppressions", [f"{s['in']}: {s['stmt']}" for s in stale])
    if rate < floor:
        raise AnalysisError(f"call resolution rate {rate:.2%} below the floor {floor:.0%}")


def run(repo, chk):
    chk.rule("R1", "least-fixpoint exception-escape analysis over the resolved call graph: no exception class from raise/assert/C helpers/third-party table/partial operations may propagate out of receive_datagram, handle_timer, datagrams_to_send, get_timer, next_event")
    chk.rule("R2", "conversion points: BufferReadError->FRAME_ENCODING_ERROR around the frame-type pull and the handler call; QuicConnectionError->close() in receive_datagram; tls.Alert->CRYPTO_ERROR in _handle_crypto_frame; BufferReadError->AlertDecodeError in handle_message; header parsing under except ValueError")
    chk.rule("R2b", "facts behind the call-site refinements: _connect calls handle_message on a freshly created client Context; crypto streams are never reset/finished")
    chk.rule("R3", "every frame type of RFC 9000 section 19 / RFC 9221 is registered; a handler that indexes _spaces/_crypto_streams/_crypto_buffers with context.epoch is not registered for the 0-RTT epoch; get_epoch's range is covered by _cryptos")
    chk.rule("R4b", "packet builder: start_packet reserves header + minimum payload + AEAD tag (linear entailment from the fall-through of its space test), remaining_buffer_space reserves the tag, start_frame refuses frames beyond it - so _end_packet's padding and in-place encryption fit the datagram buffer")
    chk.rule("R5", "a third-party call whose argument count is chosen by peer data (public_key.verify(*params)) is dominated by a key-type/algorithm agreement test")
    chk.rule("R4", "for every frame writer the bytes pushed after start_frame(capacity=C) are bounded by C symbolically; QuicPacketBuilderStop raised on the path is caught")
    chk.decline("TypeError/AttributeError from ill-typed values other than Optional message fields, MemoryError, RecursionError, exceptions raised by application callbacks")
    chk.assume("the API is used as documented: a client calls connect() once before anything else, a server connection receives its first datagram through receive_datagram, no calls after termination")
    chk.assume("application callbacks (session_ticket_fetcher/handler, token_handler) return normally")
    chk.assume("local handshake messages fit the 16 KiB crypto buffers and locally serialised structures fit their buffers (BufferWriteError on the write side is decided only for frame writers, rule R4)")
    chk.trust("S4 table of third-party raise behaviour (sa/excflow.py:EXT_RAISES) and the C raise summary (cross-checked against C04's analysis of the C sources)")

    prog, esc = engine(repo)
    engine_health(chk, esc)
    sites = report_escapes(chk, esc, [CONN + b for b in BOUNDARIES])
    chk.count("exception_source_sites_reachable", sites)

    _r2(repo, chk)
    _r2b(repo, chk, prog)
    _r3(repo, chk, prog)
    _r4(repo, chk, prog)
    _r4b(repo, chk)
    _r5(repo, chk)


# ---- R4b: the packet builder's own pushes fit ------------------------------------------------


def _r4b(repo, chk):
    """start_packet must refuse a packet unless header + smallest payload (the sample-size padding
    _end_packet may add) + AEAD tag fit; otherwise _end_packet's padding/encryption overflow the
    datagram buffer (BufferWriteError out of datagrams_to_send)."""
    from sa.linear import Store

    PB = "quic.packet_builder:QuicPacketBuilder."
    sp = Fn(repo, PB + "start_packet")
    ep = Fn(repo, PB + "_end_packet")
    # padding formula of _end_packet: padding_size = K + header_size - packet_size
    pads = [v for st, t, v in ep.assigns(chain="padding_size")]
    K = None
    for v in pads:
        l = _lin_expr(repo, ep, v)
        rest = l - Lin.sym("self._header_size") + Lin.sym("packet_size")
        if rest.is_const():
            K = rest.const
    chk.ob("R4b", "_end_packet pads the payload up to a constant minimum (header-protection sample)", K is not None and K >= 0, f"padding_size definitions {[norm(v) for v in pads]}", ep.loc(ep.node))
    if K is None:
        return
    # the Stop test of start_packet: fall-through must entail  packet_start + header_size + K + tag <= capacity
    stops = [r for r in sp.raises("QuicPacketBuilderStop")]
    tag_syms = ("crypto.aead_tag_size", "self._packet_crypto.aead_tag_size")
    ok = False
    detail = []
    for r in stops:
        holder = r._parent
        if not isinstance(holder, ast.If) or holder.orelse:
            continue
        t = holder.test
        if not (isinstance(t, ast.Compare) and len(t.ops) == 1):
            continue
        l, rr = _lin_expr(repo, sp, t.left), _lin_expr(repo, sp, t.comparators[0])
        st = Store()
        op = t.ops[0]
        # fall-through = negation of the test
        if isinstance(op, ast.Gt):
            st.add_le(l, rr)
        elif isinstance(op, ast.GtE):
            st.add_lt(l, rr)
        elif isinstance(op, ast.Lt):
            st.add_le(rr, l)
        elif isinstance(op, ast.LtE):
            st.add_lt(rr, l)
        else:
            continue
        if "header_size" not in norm(t):
            continue
        for tag in tag_syms:
            need_l = Lin.sym("packet_start") + Lin.sym("header_size") + Lin.c(K) + Lin.sym(tag)
            if st.entails_le(need_l, Lin.sym("self._buffer_capacity")):
                ok = True
        detail.append(norm(t))
        # the test must be unconditional in the function body and precede the packet's creation
        news = sp.calls(name="QuicSentPacket")
        ok = ok and not sp.lexical_guards(holder, expand=False) and all(sp.before(holder, n) for n in news)
    chk.ob("R4b", f"start_packet raises QuicPacketBuilderStop unless packet_start + header_size + {K} + aead_tag_size <= capacity", ok, f"the space test(s) {detail} do not reserve the minimum payload and the AEAD tag: a frame that fits leaves no room for the padding byte and encryption overflows the buffer", sp.loc(sp.node))
    # frames are only accepted when they fit before the tag reserve
    sf = Fn(repo, PB + "start_frame")
    rb = Fn(repo, PB + "remaining_buffer_space")
    rets = [r for r in rb.returns() if r.value is not None]
    good = False
    for r in rets:
        l = _lin_expr(repo, rb, r.value)
        want = Lin.sym("self._buffer_capacity") - Lin.sym("self._buffer.tell()") - Lin.sym("self._packet_crypto.aead_tag_size")
        d = l - want
        good = good or (d.is_const() and d.const <= 0)
    chk.ob("R4b", "remaining_buffer_space reserves the AEAD tag", good, f"returns {[norm(r.value) for r in rets]}", rb.loc(rb.node))
    st_ok = any(Fn.find_guards(sf.guard_atoms(r), ">", True, ["capacity", "self.remaining_buffer_space"]) or any("self.remaining_buffer_space" in a[0] and "capacity" in a[0] for a in sf.guard_atoms(r)) for r in sf.raises("QuicPacketBuilderStop"))
    chk.ob("R4b", "start_frame refuses a frame whose declared capacity exceeds remaining_buffer_space", st_ok, "", sf.loc(sf.node))


# ---- R5: third-party calls whose *arity* depends on peer data ---------------------------------


def _r5(repo, chk):
    """public_key.verify(sig, data, *params): the parameter tuple is chosen from the peer's
    CertificateVerify.algorithm while the key comes from the peer's certificate; a mismatch is a
    TypeError (wrong number of arguments) that no alert conversion catches.  Every such call must be
    dominated by a key-type / algorithm agreement test whose failure raises an alert."""
    m = repo.mod("tls")
    n = 0
    for q in sorted(m.functions):
        fn = Fn(repo, "tls:" + q)
        for c in fn.calls(suffix="verify"):
            if not any(isinstance(a, ast.Starred) for a in c.args):
                continue
            n += 1
            star = next(a for a in c.args if isinstance(a, ast.Starred))
            atoms = fn.guard_atoms_x(c) + fn.guard_atoms(c)
            ok = any(a[1] and "signature_algorithm_matches_key(" in a[0] for a in atoms)
            chk.ob("R5", f"{q}: `{norm(c.func)}(..., {norm(star)})` is dominated by a successful key-type/algorithm agreement test", ok, "the star-argument tuple depends on the peer's algorithm, the key on the peer's certificate: a mismatch raises TypeError out of handle_message / receive_datagram", fn.loc(c))
    if repo.has_func("tls:signature_algorithm_matches_key"):
        h = Fn(repo, "tls:signature_algorithm_matches_key")
        rets = [r for r in h.returns() if r.value is not None]
        ok = bool(rets) and all(isinstance(r.value, ast.Call) and call_name(r.value) == "isinstance" for r in rets)
        chk.ob("R5", "signature_algorithm_matches_key decides by the key's class on every path", ok and h.cfg.reachable(h.cfg.exit) is not None, f"returns {[norm(r.value)[:50] for r in rets]}", h.loc(h.node))
        # every algorithm family of signature_algorithm_params has a branch: ED25519, ED448, ECDSA (padding None), RSA
        txt = " ".join(norm(r.value) for r in rets)
        fam = all(k in txt for k in ("Ed25519PublicKey", "Ed448PublicKey", "EllipticCurvePublicKey", "RSAPublicKey"))
        chk.ob("R5", "signature_algorithm_matches_key covers Ed25519, Ed448, ECDSA and RSA", fam, f"classes tested: {txt[:160]}", h.loc(h.node))
    chk.count("verify_calls_with_peer_chosen_arity", n)


# ---- R2 -------------------------------------------------------------------------------------


def _handler_converts(f: Fn, node, exc_names, to_class, code=None):
    """node lies in a try body with a handler for one of exc_names whose body raises to_class (with error code)"""
    for h in f.enclosing_handlers(node):
        names = [attr_chain(e).split(".")[-1] for e in (h.type.elts if isinstance(h.type, ast.Tuple) else [h.type]) if h.type is not None and attr_chain(e)]
        if any(n in exc_names for n in names):
            for st in h.body:
                if isinstance(st, ast.Raise) and raise_class(st) and raise_class(st).split(".")[-1] == to_class:
                    if code is None or code in norm(raise_kw(st, "error_code") or ast.Constant(value="")):
                        return True
    return False


def _r2(repo, chk):
    pr = Fn(repo, CONN + "_payload_received")
    pulls = [c for c in pr.calls(name="buf.pull_uint_var")]
    chk.ob("R2", "_payload_received: frame-type pull converted to FRAME_ENCODING_ERROR", bool(pulls) and all(_handler_converts(pr, c, ["BufferReadError", "ValueError"], "QuicConnectionError", "FRAME_ENCODING_ERROR") for c in pulls), "pull of the frame type is not under except BufferReadError -> QuicConnectionError(FRAME_ENCODING_ERROR)", pr.loc(pr.node))
    hc = [c for c in pr.calls(name="frame_handler")]
    chk.ob("R2", "_payload_received: handler call converted to FRAME_ENCODING_ERROR", bool(hc) and all(_handler_converts(pr, c, ["BufferReadError", "ValueError"], "QuicConnectionError", "FRAME_ENCODING_ERROR") for c in hc), "frame_handler(...) is not under except BufferReadError -> QuicConnectionError(FRAME_ENCODING_ERROR)", pr.loc(pr.node))
    ks = [n for n in pr.nodes(ast.Subscript) if "frame_handlers" in norm(n.value)]
    ok = bool(ks) and all(_handler_converts(pr, n, ["KeyError", "LookupError"], "QuicConnectionError", "FRAME_ENCODING_ERROR") for n in ks)
    chk.ob("R2", "_payload_received: unknown frame type converted to FRAME_ENCODING_ERROR", ok, "handler table lookup not under except KeyError", pr.loc(pr.node))
    rd = Fn(repo, CONN + "receive_datagram")
    pc = rd.calls(name="self._payload_received")
    ok = False
    for c in pc:
        for h in rd.enclosing_handlers(c):
            if h.type is not None and "QuicConnectionError" in norm(h.type) and any(isinstance(x, ast.Call) and call_name(x) == "self.close" for st in h.body for x in ast.walk(st)):
                ok = True
    chk.ob("R2", "receive_datagram: QuicConnectionError from the payload becomes close()", ok, "no except QuicConnectionError -> self.close(...) around _payload_received", rd.loc(rd.node))
    hp = rd.calls(name="pull_quic_header")
    ok = bool(hp) and all(any(h.type is not None and norm(h.type) in ("ValueError", "Exception") and any(isinstance(x, ast.Return) for x in h.body) for h in rd.enclosing_handlers(c)) for c in hp)
    chk.ob("R2", "receive_datagram: header parse errors drop the datagram", ok, "pull_quic_header not under except ValueError: return", rd.loc(rd.node))
    dc = rd.calls(suffix="decrypt_packet")
    for c in dc:
        hs = rd.enclosing_handlers(c)
        names = [norm(h.type) for h in hs if h.type is not None]
        ok = "CryptoError" in names and "KeyUnavailableError" in names and all(isinstance(h.body[-1], ast.Continue) for h in hs if h.type is not None and norm(h.type) in ("CryptoError", "KeyUnavailableError"))
        chk.ob("R2", "receive_datagram: undecryptable packets are skipped (continue)", ok, f"handlers {names}", rd.loc(c))
    cf = Fn(repo, CONN + "_handle_crypto_frame")
    hm = cf.calls(name="self.tls.handle_message")
    ok = bool(hm) and all(_handler_converts(cf, c, ["Alert"], "QuicConnectionError", "CRYPTO_ERROR") for c in hm)
    chk.ob("R2", "_handle_crypto_frame: every tls.Alert becomes QuicConnectionError(CRYPTO_ERROR + description)", ok, "tls.handle_message not under except tls.Alert", cf.loc(cf.node))
    pcd = cf.calls(name="self._push_crypto_data")
    chk.ob("R2", "_handle_crypto_frame: _push_crypto_data inside the same try", bool(pcd) and all(_handler_converts(cf, c, ["Alert"], "QuicConnectionError", "CRYPTO_ERROR") for c in pcd), "", cf.loc(cf.node))
    th = Fn(repo, "tls:Context.handle_message")
    dr = th.calls(name="self._handle_reassembled_message")
    ok = bool(dr) and all(_handler_converts(th, c, ["BufferReadError", "ValueError"], "AlertDecodeError") for c in dr)
    chk.ob("R2", "tls.handle_message: BufferReadError becomes AlertDecodeError", ok, "dispatcher call not under except BufferReadError -> AlertDecodeError", th.loc(th.node))
    # every Alert subclass carries a description; QuicConnectionError handler uses exc fields
    m = repo.mod("tls")
    for cq, c in m.classes.items():
        if any(attr_chain(b) == "Alert" for b in c.bases):
            has = any(isinstance(st, ast.Assign) and norm(st.targets[0]) == "description" for st in c.body)
            chk.ob("R2", f"tls.{cq} defines its alert description", has, "int(exc.description) would raise AttributeError", repo.loc(c, m))
    tp = Fn(repo, CONN + "_parse_transport_parameters")
    ptp = tp.calls(name="pull_quic_transport_parameters")
    ok = bool(ptp) and all(_handler_converts(tp, c, ["ValueError"], "QuicConnectionError", "TRANSPORT_PARAMETER_ERROR") for c in ptp)
    chk.ob("R2", "_parse_transport_parameters: parse errors become TRANSPORT_PARAMETER_ERROR", ok, "", tp.loc(tp.node))


def _r2b(repo, chk, prog):
    cn = Fn(repo, CONN + "_connect")
    init = cn.calls(name="self._initialize")
    hm = cn.calls(name="self.tls.handle_message")
    ok = bool(init) and bool(hm) and all(cn.before(i, h) for i in init for h in hm)
    between = []
    if ok:
        for c in cn.calls():
            if c not in init and c not in hm and any(cn.before(i, c) for i in init) and any(cn.before(c, h) for h in hm):
                between.append(call_name(c))
    chk.ob("R2b", "_connect: handle_message(b\"\") directly follows _initialize", ok and not between and all(isinstance(h.args[0], ast.Constant) and h.args[0].value == b"" for h in hm), f"calls in between: {between}", cn.loc(cn.node))
    ini = Fn(repo, CONN + "_initialize")
    ok = any(isinstance(v, ast.Call) and call_name(v) == "tls.Context" for st, t, v in ini.assigns(chain="self.tls"))
    chk.ob("R2b", "_initialize: self.tls is a fresh tls.Context", ok, "", ini.loc(ini.node))
    ci = Fn(repo, "tls:Context.__init__")
    ok = any(norm(v) == "State.CLIENT_HANDSHAKE_START" and ("is_client", True) in ci.guard_atoms(st) for st, t, v in ci.assigns(chain="self.state"))
    chk.ob("R2b", "Context.__init__: a client starts in CLIENT_HANDSHAKE_START", ok, "", ci.loc(ci.node))
    asserts = [st for st in cn.stmts(lambda s: isinstance(s, ast.Assert)) if norm(st.test) == "self._is_client"]
    chk.ob("R2b", "_connect is client-only", bool(asserts), "", cn.loc(cn.node))
    th = Fn(repo, "tls:Context.handle_message")
    first = th.node.body[0] if th.node.body else None
    while isinstance(first, ast.Expr) and isinstance(first.value, ast.Constant):
        first = th.node.body[th.node.body.index(first) + 1]
    ok = isinstance(first, ast.If) and flatten_cond(first.test, True) == [("State.CLIENT_HANDSHAKE_START == self.state", True)] or (isinstance(first, ast.If) and "CLIENT_HANDSHAKE_START" in norm(first.test) and isinstance(first.body[-1], ast.Return))
    chk.ob("R2b", "handle_message returns right after sending the ClientHello", bool(ok) and isinstance(first.body[-1], ast.Return), "", th.loc(th.node))
    # crypto streams never reset / finished
    bad = []
    n = 0
    for m in repo.modules.values():
        for q, fnode in m.functions.items():
            for c in [x for x in ast.walk(fnode) if isinstance(x, ast.Call)]:
                txt = norm(c)
                if "_crypto_streams" in txt or "crypto_stream" in txt:
                    n += 1
                    if ".reset(" in txt or "end_stream=True" in txt or ".stop(" in txt:
                        bad.append(f"{m.name}:{q}: {txt[:60]}")
    chk.ob("R2b", "crypto streams are never reset, stopped or finished", not bad and n >= 3, f"{bad}", "")
    # RangeSet.bounds() is only applied to the range set of a parsed ACK frame, which is never empty
    callers = []
    for m in repo.modules.values():
        for q, fnode in m.functions.items():
            for c in [x for x in ast.walk(fnode) if isinstance(x, ast.Call)]:
                if isinstance(c.func, ast.Attribute) and c.func.attr == "bounds" and not c.args:
                    callers.append((f"{m.name}:{q}", norm(c.func.value)))
    chk.ob("R2b", "RangeSet.bounds() is called only on on_ack_received's ack_rangeset", callers == [("quic.recovery:QuicPacketRecovery.on_ack_received", "ack_rangeset")], f"{callers}", "")
    srcs = []
    for m in repo.modules.values():
        for q, fnode in m.functions.items():
            for c in [x for x in ast.walk(fnode) if isinstance(x, ast.Call)]:
                if call_name(c).endswith("on_ack_received"):
                    kw = get_kw(c, "ack_rangeset")
                    f2 = Fn(repo, f"{m.name}:{q}")
                    src = None
                    if isinstance(kw, ast.Name):
                        # tuple-unpacked result: `ack_rangeset, _ = pull_ack_frame(buf)` is the only definition
                        defs = [st for st in f2.stmts(lambda s: isinstance(s, ast.Assign)) if any(isinstance(t, ast.Tuple) and t.elts and isinstance(t.elts[0], ast.Name) and t.elts[0].id == kw.id for t in st.targets)]
                        others = [x for x in f2.assigns(chain=kw.id) if x[0] not in defs]
                        if len(defs) == 1 and not others:
                            src = norm(defs[0].value)
                    srcs.append((q, src))
    ok = bool(srcs) and all(v is not None and v.startswith("pull_ack_frame(") for q, v in srcs)
    chk.ob("R2b", "on_ack_received receives the range set returned by pull_ack_frame", ok, f"{srcs}", "")
    pa = Fn(repo, "quic.packet:pull_ack_frame")
    top = [norm(st) for st in pa.node.body]
    adds = [i for i, t in enumerate(top) if t.startswith("rangeset.add(")]
    rets = [i for i, t in enumerate(top) if t.startswith("return rangeset") or t.startswith("return (rangeset")]
    ok = bool(adds) and bool(rets) and adds[0] < rets[0] and len(pa.returns()) == 1
    chk.ob("R2b", "pull_ack_frame adds the first range unconditionally before its only return", ok, "", pa.loc(pa.node))


# ---- R3 -------------------------------------------------------------------------------------


def frame_table(repo):
    """{frame type int: (handler name, frozenset of epoch names)} extracted from QuicConnection.__init__"""
    f = Fn(repo, CONN + "__init__")
    mod = f.mod
    shortcuts = repo.const(mod, mod.assigns["EPOCH_SHORTCUTS"]) if "EPOCH_SHORTCUTS" in mod.assigns else Unknown
    names = {}
    if isinstance(mod.assigns.get("EPOCH_SHORTCUTS"), ast.Dict):
        for k, v in zip(mod.assigns["EPOCH_SHORTCUTS"].keys, mod.assigns["EPOCH_SHORTCUTS"].values):
            names[k.value] = norm(v).split(".")[-1]
    table = {}
    for st, t, v in f.assigns(suffix="__frame_handlers"):
        if not isinstance(v, ast.Dict):
            raise AnalysisError("frame handler table is not a dict literal")
        for k, val in zip(v.keys, v.values):
            key = repo.const(mod, k)
            if not (isinstance(val, ast.Tuple) and len(val.elts) == 2 and isinstance(key, int)):
                raise AnalysisError(f"unsupported frame handler table entry {norm(k)}")
            h = attr_chain(val.elts[0])
            ep = val.elts[1]
            if not (isinstance(ep, ast.Call) and call_name(ep) == "EPOCHS" and isinstance(ep.args[0], ast.Constant)):
                raise AnalysisError(f"unsupported epoch expression {norm(ep)}")
            table[key] = (h.split(".")[-1], frozenset(names.get(ch, "?" + ch) for ch in ep.args[0].value), k)
    if not table:
        raise AnalysisError("frame handler table not found in QuicConnection.__init__")
    return f, table


def _r3(repo, chk, prog):
    with open(os.path.join(VERIF, "reference", "quic_frames.json")) as fp:
        ref = json.load(fp)
    f, table = frame_table(repo)
    chk.count("frame_types_registered", len(table))
    for t in ref["frame_types"]:
        tv = int(t, 16)
        chk.ob("R3", f"frame type {t} ({ref['frame_types'][t]['name']}) registered", tv in table, "a frame type of RFC 9000/9221 has no handler: a conforming peer's packet closes the connection", f.loc(f.node))
    three_epoch = ("self._spaces", "self._crypto_streams", "self._crypto_buffers")
    for tv, (h, epochs, knode) in sorted(table.items()):
        hf = Fn(repo, CONN + h)
        uses = []
        for fn_ in [hf] + [Fn(repo, CONN + call_name(c)[5:]) for c in hf.calls() if call_name(c).startswith("self._") and repo.has_func(CONN + call_name(c)[5:])]:
            for n in fn_.nodes(ast.Subscript):
                if norm(n.value) in three_epoch and "context.epoch" in norm(n.slice):
                    uses.append(f"{fn_.qual}: {norm(n)}")
        ok = not (uses and "ZERO_RTT" in epochs)
        chk.ob("R3", f"frame {tv:#04x} -> {h}: epochs {sorted(epochs)} consistent with the tables it indexes", ok, f"handler indexes a table that has no ZERO_RTT entry ({uses[:2]}) but is registered for the 0-RTT epoch: KeyError escapes receive_datagram", f.loc(knode))
        chk.ob("R3", f"frame {tv:#04x} -> {h}: epochs are known", not any(e.startswith("?") for e in epochs), f"{sorted(epochs)}", f.loc(knode))
    # the tables themselves
    ini = Fn(repo, CONN + "_initialize")
    for chain in ("self._spaces", "self._crypto_streams", "self._crypto_buffers"):
        vals = [v for st, t, v in ini.assigns(chain=chain)]
        keys = set()
        for v in vals:
            if isinstance(v, ast.Dict):
                keys |= {norm(k).split(".")[-1] for k in v.keys}
        chk.ob("R3", f"_initialize: {chain} has INITIAL, HANDSHAKE, ONE_RTT", keys == {"INITIAL", "HANDSHAKE", "ONE_RTT"}, f"keys {sorted(keys)}", ini.loc(ini.node))
    rd = Fn(repo, CONN + "receive_datagram")
    sp = [(st, v) for st, t, v in rd.assigns(chain="space")]
    from .tlsfacts import A

    ok = any(norm(v) == "self._spaces[tls.Epoch.ONE_RTT]" and A("epoch == tls.Epoch.ZERO_RTT", True) in rd.guard_atoms(st) for st, v in sp) and all(norm(v) == "self._spaces[tls.Epoch.ONE_RTT]" or A("epoch == tls.Epoch.ZERO_RTT", False) in rd.guard_atoms(st) for st, v in sp)
    chk.ob("R3", "receive_datagram: 0-RTT packets use the 1-RTT packet space", ok, "space selection indexes _spaces with ZERO_RTT", rd.loc(rd.node))
    txt = " ".join(norm(v) for st, t, v in ini.assigns(chain="self._cryptos")) + " ".join(norm(st) for st in ini.stmts(lambda s: isinstance(s, ast.Assign) and norm(s.targets[0]).startswith("self._cryptos[")))
    chk.ob("R3", "_initialize: _cryptos covers all four epochs", all(e in txt for e in ("ZERO_RTT", "HANDSHAKE", "ONE_RTT", "INITIAL")), txt[:120], ini.loc(ini.node))


# ---- R4 -------------------------------------------------------------------------------------

PUSH_SIZE = {"push_uint8": 1, "push_uint16": 2, "push_uint32": 4, "push_uint64": 8}


def _lin_expr(repo, f: Fn, e, depth=0) -> Lin:
    """capacity / size expression -> Lin over atoms like len(x), size_uint_var(x)"""
    c = repo.const(f.mod, e)
    if isinstance(c, int) and not isinstance(c, bool):
        return Lin.c(c)
    if isinstance(e, ast.BinOp) and isinstance(e.op, ast.Add):
        return _lin_expr(repo, f, e.left, depth) + _lin_expr(repo, f, e.right, depth)
    if isinstance(e, ast.BinOp) and isinstance(e.op, ast.Sub):
        return _lin_expr(repo, f, e.left, depth) - _lin_expr(repo, f, e.right, depth)
    if isinstance(e, ast.BinOp) and isinstance(e.op, ast.Mult):
        a, b = repo.const(f.mod, e.left), repo.const(f.mod, e.right)
        if isinstance(a, int):
            return _lin_expr(repo, f, e.right, depth).scale(a)
        if isinstance(b, int):
            return _lin_expr(repo, f, e.left, depth).scale(b)
    if isinstance(e, ast.IfExp):
        # `size(x) if x else 0`: the field is present exactly when x != 0; the matching push is
        # guarded by the same value (checked through OFFSET_FACT), so count the field itself
        if isinstance(e.orelse, ast.Constant) and e.orelse.value == 0:
            return _lin_expr(repo, f, e.body, depth)
        return Lin.sym(norm(e))
    if isinstance(e, ast.Name) and depth < 4:
        defs = f.local_defs(e.id)
        if len(defs) == 1 and f._simple_def(e.id) and not f.is_param(e.id):
            return _lin_expr(repo, f, defs[0], depth + 1)
    if isinstance(e, ast.Call) and call_name(e) in ("len", "size_uint_var") and e.args:
        inner = e.args[0]
        if isinstance(inner, ast.Name):
            defs = f.local_defs(inner.id)
            if len(defs) == 1 and f._simple_def(inner.id) and not f.is_param(inner.id):
                if call_name(e) == "size_uint_var" and isinstance(defs[0], ast.Call) and call_name(defs[0]) == "len":
                    return Lin.sym(f"size_uint_var({norm(defs[0])})")
        return Lin.sym(norm(e))
    return Lin.sym(norm(e))


OFFSET_FACT = {"ok": False}


def _offset_fact(repo, chk):
    """get_frame() returns a frame whose offset is what next_offset reported: both read _pending[0].start
    (data) or the end of the buffer (FIN only)"""
    no = Fn(repo, "quic.stream:QuicStreamSender.next_offset")
    gf = Fn(repo, "quic.stream:QuicStreamSender.get_frame")
    rets = [norm(r.value) for r in no.returns() if r.value is not None]
    starts = [norm(v) for st, t, v in gf.assigns(chain="start")] + [norm(v) for st, t, v in gf.assigns(chain="r")]
    frames = [c for c in gf.calls(name="QuicStreamFrame")]
    offs = [norm(k.value) for c in frames for k in c.keywords if k.arg == "offset"]
    ok = "self._pending[0].start" in rets and "self._pending[0]" in starts and "r.start" in starts and "start" in offs
    fin_only = "self._buffer_stop" in rets and "self._buffer_fin" in offs
    OFFSET_FACT["ok"] = ok and fin_only
    chk.ob("R4", "QuicStreamSender: frame.offset of get_frame() equals next_offset read just before", OFFSET_FACT["ok"], f"next_offset returns {rets}; get_frame offsets {offs}", gf.loc(gf.node))


def _r4(repo, chk, prog):
    _offset_fact(repo, chk)
    m = repo.mod("quic.connection")
    writers = []
    for q in m.functions:
        if q.startswith("QuicConnection."):
            f = Fn(repo, "quic.connection:" + q)
            sf = f.calls(name="builder.start_frame")
            if sf:
                writers.append((f, sf))
    chk.count("frame_writers", len(writers))
    if len(writers) < 15:
        raise AnalysisError(f"only {len(writers)} frame writers found")
    for f, sfs in writers:
        for sf in sfs:
            cap = None
            for k in sf.keywords:
                if k.arg == "capacity":
                    cap = k.value
            if cap is None and len(sf.args) > 1:
                cap = sf.args[1]
            capl = _lin_expr(repo, f, cap) if cap is not None else Lin.c(1)
            ft = sf.args[0] if sf.args else next((k.value for k in sf.keywords if k.arg == "frame_type"), None)
            ftc = repo.const(f.mod, ft) if ft is not None else Unknown
            type_size = 1 if isinstance(ftc, int) and ftc < 0x40 else (1 if ft is not None and ("QuicFrameType" in norm(ft) or "frame_type" in norm(ft)) else 8)
            total = Lin.c(type_size)
            problems = []
            assumptions = []
            # the buffer variable bound to this start_frame
            st = f.cfg.stmt_of(sf)
            bufname = None
            if isinstance(st, ast.Assign) and isinstance(st.targets[0], ast.Name):
                bufname = st.targets[0].id
            pushes = []
            if bufname:
                for c in f.calls():
                    if isinstance(c.func, ast.Attribute) and isinstance(c.func.value, ast.Name) and c.func.value.id == bufname and c.func.attr.startswith("push_"):
                        if _same_branch(f, sf, c):
                            pushes.append(c)
                    elif any(isinstance(a, ast.Name) and a.id == bufname for a in c.args) and c is not sf and _same_branch(f, sf, c):
                        pushes.append(c)
            for c in pushes:
                if isinstance(c.func, ast.Attribute) and c.func.attr in PUSH_SIZE:
                    total = total + PUSH_SIZE[c.func.attr]
                elif isinstance(c.func, ast.Attribute) and c.func.attr == "push_uint_var":
                    a = c.args[0]
                    sym = f"size_uint_var({f.expand(a, 3)})"
                    alt = f"size_uint_var({norm(a)})"
                    if norm(a) == "frame.offset" and "size_uint_var(stream.sender.next_offset)" in capl.terms and OFFSET_FACT["ok"]:
                        sym = alt = "size_uint_var(stream.sender.next_offset)"
                    if sym in capl.terms or alt in capl.terms:
                        total = total + Lin.sym(sym if sym in capl.terms else alt)
                    else:
                        total = total + 8
                elif isinstance(c.func, ast.Attribute) and c.func.attr == "push_bytes":
                    a = c.args[0]
                    le = _lin_expr(repo, f, ast.Call(func=ast.Name(id="len", ctx=ast.Load()), args=[a], keywords=[]))
                    alt = Lin.sym(f"len({f.expand(a, 3)})")
                    if set(alt.terms) <= set(capl.terms):
                        le = alt
                    total = total + le
                else:
                    # helper that writes into the buffer: account its pushes, with loop bounds when recognisable
                    callee = [x for x in prog.resolve_call(prog.by_ref[f.ref], c) if isinstance(x, FuncRef)]
                    for cal in callee:
                        hl, why = _helper_pushes(repo, Fn(repo, cal.ref), cal, c)
                        if hl is None:
                            problems.append(f"{cal.qual}: {why}; the number of bytes written is not bounded by the capacity {capl}")
                        else:
                            total = total + hl
            diff = capl - total  # must be >= 0
            unknown = {}
            for s, co in diff.terms.items():
                unknown[s] = co
            bounded = {}
            key = f"{f.qual}: start_frame({norm(ft) if ft is not None else ''}, capacity={norm(cap) if cap is not None else 1})"
            if problems:
                chk.ob("R4", key, False, "; ".join(problems), f.loc(sf))
                continue
            # residual symbolic terms: payload bytes cut by get_frame(max_size=remaining - overhead) or fixed-size fields
            residual = [s for s, co in diff.terms.items() if co < 0]
            explained = True
            notes = []
            for s in residual:
                if "frame.data" in s:
                    gf = [c for c in f.calls(suffix="get_frame")]
                    ok = bool(gf) and all("remaining_flight_space - frame_overhead" in norm(c.args[0]) for c in gf) and "frame_overhead" in (norm(cap) if cap is not None else "")
                    explained = explained and ok
                    notes.append("payload cut by get_frame(remaining_flight_space - frame_overhead)")
                elif s in FIXED_FIELDS:
                    diff = diff + Lin.sym(s).scale(-diff.terms[s]) - Lin.c(FIXED_FIELDS[s][0]).scale(-diff.terms[s]) if False else diff
                    notes.append(f"{s} <= {FIXED_FIELDS[s][0]} ({FIXED_FIELDS[s][1]})")
                else:
                    explained = False
            # numeric check with fixed-size fields substituted by their bounds
            const = diff.const
            for s, co in diff.terms.items():
                if s in FIXED_FIELDS and co < 0:
                    const += co * FIXED_FIELDS[s][0]
                elif co < 0 and "frame.data" not in s:
                    explained = False
                elif co < 0 and "frame.data" in s:
                    pass
            ok = explained and const >= 0
            chk.ob("R4", key, ok, f"bytes pushed {total} may exceed the declared capacity {capl}" + (f" [{'; '.join(notes)}]" if notes else ""), f.loc(sf), {"pushed": str(total), "capacity": str(capl), "notes": notes})
    for s, (n, why) in FIXED_FIELDS.items():
        chk.assume(f"R4: {s} <= {n}: {why}")
    # QuicPacketBuilderStop is caught on every emitting path of datagrams_to_send
    ds = Fn(repo, CONN + "datagrams_to_send")
    for c in ds.calls():
        cn = call_name(c)
        if cn in ("builder.start_packet", "self._write_connection_close_frame", "self._write_handshake", "self._write_application"):
            caught = any(h.type is not None and "QuicPacketBuilderStop" in norm(h.type) for h in ds.enclosing_handlers(c))
            chk.ob("R4", f"datagrams_to_send: `{norm(c)[:50]}` under except QuicPacketBuilderStop", caught, "a frame or packet that does not fit raises QuicPacketBuilderStop out of datagrams_to_send", ds.loc(c))


def _helper_pushes(repo, h: Fn, cal, call):
    """bytes a helper pushes into the buffer it receives, as a Lin over len(<caller argument>)"""
    params = [a.arg for a in cal.node.args.args]
    argmap = {p: norm(a) for p, a in zip(params, call.args)}
    total = Lin.c(0)

    def push_size(x):
        if isinstance(x, ast.Call) and isinstance(x.func, ast.Attribute) and x.func.attr.startswith("push_"):
            if x.func.attr in PUSH_SIZE:
                return PUSH_SIZE[x.func.attr]
            if x.func.attr == "push_uint_var":
                return 8
            return None
        return 0

    def block(stmts, mult: Lin):
        nonlocal total
        for st in stmts:
            if isinstance(st, ast.While):
                n = _loop_count(h, st, argmap)
                if n is None:
                    return f"loop `while {norm(st.test)}` has no recognisable bound"
                inner = Lin.c(0)
                for x in ast.walk(ast.Module(body=st.body, type_ignores=[])):
                    ps = push_size(x)
                    if ps is None:
                        return f"unbounded push {norm(x)[:40]} inside a loop"
                    inner = inner + ps
                if any(isinstance(x, (ast.While, ast.For)) for b in st.body for x in ast.walk(b)):
                    return "nested loops"
                if not inner.is_const():
                    return "non-constant pushes in loop"
                total = total + n.scale(inner.const)
            elif isinstance(st, ast.For):
                if any(push_size(x) for x in ast.walk(st)):
                    n = _for_count(h, st, argmap)
                    if n is None:
                        return f"for-loop with pushes"
                    inner = Lin.c(0)
                    for x in ast.walk(ast.Module(body=st.body, type_ignores=[])):
                        ps = push_size(x)
                        if ps is None:
                            return f"unbounded push {norm(x)[:40]} inside a loop"
                        inner = inner + ps
                    if any(isinstance(x, (ast.While, ast.For)) for b in st.body for x in ast.walk(b)) or not inner.is_const():
                        return "nested loops / non-constant pushes in loop"
                    total = total + n.scale(inner.const)
            elif isinstance(st, (ast.If, ast.With, ast.Try)):
                for x in ast.walk(st):
                    ps = push_size(x)
                    if ps is None:
                        return f"unbounded push {norm(x)[:40]}"
                    total = total + ps
            else:
                for x in ast.walk(st):
                    ps = push_size(x)
                    if ps is None:
                        return f"unbounded push {norm(x)[:40]}"
                    total = total + ps
        return None

    err = block(h.node.body, Lin.c(1))
    if err:
        return None, err
    return total, ""


def _for_count(h: Fn, loop: ast.For, argmap):
    """iterations of `for V in range(len(P) - 2, -1, -1)` (descending to 0) or `range(len(P) - 1)`: len(arg) - 1"""
    it = loop.iter
    if not (isinstance(it, ast.Call) and call_name(it) == "range" and not it.keywords and not loop.orelse):
        return None
    if any(isinstance(x, (ast.Break, ast.Continue, ast.Return)) for b in loop.body for x in ast.walk(b)):
        return None
    args = [h.expand(a, 3) for a in it.args]
    for pname, arg in argmap.items():
        L = f"len({pname})"
        if args in ([f"{L} - 2", "-1", "-1"], [f"{L} - 1"], ["1", L], ["0", f"{L} - 1"]):
            return Lin.sym(f"len({arg})") - 1
    return None


def _loop_count(h: Fn, loop: ast.While, argmap):
    """`while V > 0` with a single `V -= 1` in the body and V = len(P) - 1 before: len(arg) - 1 iterations"""
    t = loop.test
    if not (isinstance(t, ast.Compare) and len(t.ops) == 1 and isinstance(t.ops[0], ast.Gt) and isinstance(t.left, ast.Name) and isinstance(t.comparators[0], ast.Constant) and t.comparators[0].value == 0):
        return None
    v = t.left.id
    writes = [(st, tg, val) for st, tg, val in h.assigns(chain=v)]
    inside = [w for w in writes if any(w[0] is x for b in loop.body for x in ast.walk(b))]
    outside = [w for w in writes if w not in inside]
    if len(inside) != 1 or not (isinstance(inside[0][0], ast.AugAssign) and isinstance(inside[0][0].op, ast.Sub) and isinstance(inside[0][2], ast.Constant) and inside[0][2].value == 1):
        return None
    if len(outside) != 1 or not isinstance(outside[0][0], ast.Assign):
        return None
    init = outside[0][2]
    # expand other single-definition locals (ranges = len(rangeset))
    txt = init
    for _ in range(3):
        changed = False

        class T(ast.NodeTransformer):
            def visit_Name(self, n):
                nonlocal changed
                if n.id != v and not h.is_param(n.id):
                    d = [w for w in h.assigns(chain=n.id)]
                    if len(d) == 1 and isinstance(d[0][0], ast.Assign) and isinstance(d[0][0].targets[0], ast.Name):
                        changed = True
                        from sa.q import clone

                        return clone(d[0][2])
                return n

        from sa.q import clone

        txt = T().visit(clone(txt))
        if not changed:
            break
    if isinstance(txt, ast.BinOp) and isinstance(txt.op, ast.Sub) and isinstance(txt.right, ast.Constant) and txt.right.value == 1 and isinstance(txt.left, ast.Call) and call_name(txt.left) == "len" and isinstance(txt.left.args[0], ast.Name) and txt.left.args[0].id in argmap:
        return Lin.sym(f"len({argmap[txt.left.args[0].id]})") - 1
    return None


FIXED_FIELDS = {
    "len(connection_id.cid)": (20, "local connection IDs are os.urandom(configuration.connection_id_length) with connection_id_length <= CONNECTION_ID_MAX_SIZE"),
    "len(connection_id.stateless_reset_token)": (16, "os.urandom(16)"),
    "len(challenge)": (8, "os.urandom(8) or the 8 bytes pulled by the PATH_CHALLENGE handler"),
}


def _same_branch(f: Fn, sf, c) -> bool:
    """c executes after sf on some path and they are not in exclusive branches of the same if"""
    try:
        a, b = f.cfg.done_of(sf), f.cfg.node_of(c)
    except KeyError:
        return False
    return f.cfg.dominates(a, b)
