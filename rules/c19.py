"""C19 - asyncio adapter consistent under any schedule (claimed in part).

Every callback of the adapter is synchronous and asyncio is single-threaded, so each method is atomic;
what is decided is what holds at callback boundaries, for every order of callbacks.

R1  routing-table ownership: QuicServer._protocols is written only by datagram_received (two inserts
    after construction and handler installation), _connection_id_issued, _connection_id_retired,
    _connection_terminated (removes every entry of the protocol) and close; the protocol dispatches
    ConnectionIdIssued / Retired / Terminated to exactly those handlers
R2  state only for validated addresses: with retry enabled every path to QuicConnection(...) passes
    validate_token's normal return; validate_token compares the encoded address; create_token binds
    address, original DCID and retry SCID
R3  waiters complete exactly once: every future the adapter creates is stored in a slot that both its
    success branch and the ConnectionTerminated branch complete; the slot is cleared before
    completion; awaits are shielded; the completion flags are updated on the event itself; a waiter
    cannot be created after termination
R4  transmit cycle: datagram_received and _handle_timer run receive / handle_timer -> _process_events ->
    transmit; transmit re-arms the timer from get_timer on every path; readers get data then EOF
"""
from __future__ import annotations

import ast

from sa.pyfacts import call_name, get_kw, norm
from sa.q import Fn, flatten_cond, inside, natom
from sa.report import AnalysisError

LEVEL = "other"
P = "asyncio.protocol:QuicConnectionProtocol."
S = "asyncio.server:QuicServer."


def _cls_fns(repo, mod, cls):
    m = repo.mod(mod)
    return [Fn(repo, f"{mod}:{q}") for q in sorted(m.functions) if q.startswith(cls + ".") and ".<locals>." not in q]


def run(repo, chk):
    chk.rule("R1", "writers of QuicServer._protocols and their shape; handler partials installed before the first datagram is delivered; _process_events dispatches the three connection-ID / termination events")
    chk.rule("R2", "retry: no path reaches QuicConnection(...) without validate_token returning normally (its ValueError returns); token binds the client address")
    chk.rule("R3", "futures: created only into _connected_waiter / _ping_waiters, completed and removed by the success event and by ConnectionTerminated, slot cleared before set_result / set_exception, awaited through asyncio.shield, flags set on the event, no creation after _closed is set")
    chk.rule("R4", "datagram_received / _handle_timer: input -> _process_events -> transmit; transmit always re-arms from get_timer(); stream readers get feed_data then feed_eof, and feed_eof on termination")
    chk.decline("byte-exact stream transfer under real interleavings (inherits C01's declined clauses); behaviour of the event loop itself")
    r1(repo, chk)
    r2(repo, chk)
    r3(repo, chk)
    r4(repo, chk)


def _writes(fn: Fn, attr: str):
    out = []
    for st in fn.stmts():
        if isinstance(st, ast.Assign):
            for t in st.targets:
                if isinstance(t, ast.Subscript) and norm(t.value) == attr:
                    out.append(("set", st))
                if norm(t) == attr:
                    out.append(("assign", st))
        if isinstance(st, ast.AnnAssign) and norm(st.target) == attr:
            out.append(("assign", st))
        if isinstance(st, ast.Delete):
            for t in st.targets:
                if isinstance(t, ast.Subscript) and norm(t.value) == attr:
                    out.append(("del", st))
    for c in fn.calls():
        if isinstance(c.func, ast.Attribute) and norm(c.func.value) == attr and c.func.attr in ("pop", "clear", "update", "setdefault", "popitem"):
            out.append((c.func.attr, c))
    return out


def r1(repo, chk):
    allowed = {"__init__": {"assign"}, "datagram_received": {"set"}, "_connection_id_issued": {"set"}, "_connection_id_retired": {"del"}, "_connection_terminated": {"del"}, "close": {"clear"}}
    n = 0
    for fn in _cls_fns(repo, "asyncio.server", "QuicServer"):
        for kind, node in _writes(fn, "self._protocols"):
            n += 1
            name = fn.qual.split(".")[-1]
            chk.ob("R1", f"QuicServer.{name}: `{norm(node)[:60]}` is an expected operation on the routing table", kind in allowed.get(name, set()), f"unexpected {kind} of _protocols", fn.loc(node))
    if n < 6:
        raise AnalysisError("QuicServer._protocols writers not found")
    dr = Fn(repo, S + "datagram_received")
    sets = [node for kind, node in _writes(dr, "self._protocols")]
    keys = sorted(norm(t.slice) for st in sets for t in st.targets if isinstance(t, ast.Subscript))
    chk.ob("R1", "a new connection is reachable through the client's first destination ID and through the ID the server chose", keys == ["connection.host_cid", "header.destination_cid"], f"{keys}", dr.loc(dr.node))
    handlers = {"_connection_id_issued_handler": "self._connection_id_issued", "_connection_id_retired_handler": "self._connection_id_retired", "_connection_terminated_handler": "self._connection_terminated"}
    deliver = [c for c in dr.calls(name="protocol.datagram_received")]
    for attr, target in handlers.items():
        ins = [(st, v) for st, t, v in dr.assigns(chain=f"protocol.{attr}")]
        ok = len(ins) == 1 and isinstance(ins[0][1], ast.Call) and call_name(ins[0][1]) == "partial" and norm(ins[0][1].args[0]) == target and norm(get_kw(ins[0][1], "protocol")) == "protocol"
        chk.ob("R1", f"datagram_received installs {attr} bound to this protocol", ok, "", dr.loc(dr.node))
        if ins:
            # installed before the first datagram reaches the new protocol (events of that datagram are routed)
            ok = bool(deliver) and all(dr.cfg.reaches(dr.cfg.begin[ins[0][0]], dr.cfg.node_of(d)) and not dr.cfg.reaches(dr.cfg.node_of(d), dr.cfg.begin[ins[0][0]]) for d in deliver)
            chk.ob("R1", f"{attr} is installed before the first datagram is delivered to the protocol", ok, "", dr.loc(ins[0][0]))
    for s_ in sets:
        ok = bool(deliver) and all(not dr.cfg.reaches(dr.cfg.node_of(d), dr.cfg.begin[s_]) for d in deliver)
        chk.ob("R1", f"`{norm(s_)[:50]}` is registered before the datagram is processed", ok, "", dr.loc(s_))
    ct = Fn(repo, S + "_connection_terminated")
    loops = [l for l in ct.stmts(lambda s: isinstance(s, ast.For))]
    ok = len(loops) == 1 and norm(loops[0].iter) in ("list(self._protocols.items())", "tuple(self._protocols.items())", "self._protocols.copy().items()")
    if ok:
        l = loops[0]
        k, v = (norm(e) for e in l.target.elts) if isinstance(l.target, ast.Tuple) else ("", "")
        dels = [st for st in ct.stmts(lambda s: isinstance(s, ast.Delete)) if norm(st) == f"del self._protocols[{k}]"]
        ok = len(dels) == 1 and [a for a in ct.lexical_guards(dels[0], expand=False)] in ([natom(f"{v} == protocol")], [natom(f"{v} is protocol")]) and not [s for s in ast.walk(l) if isinstance(s, (ast.Break, ast.Return))]
    if not ok and len(loops) == 1 and isinstance(loops[0].iter, ast.Name) and isinstance(loops[0].target, ast.Name):
        # collect-then-delete: keys = [k for k, v in self._protocols.items() if v == protocol]; for k in keys: del ...
        l = loops[0]
        defs = [v for st, t, v in ct.assigns(chain=l.iter.id)]
        if len(defs) == 1 and isinstance(defs[0], (ast.ListComp, ast.SetComp)) and len(defs[0].generators) == 1:
            g = defs[0].generators[0]
            if norm(g.iter) == "self._protocols.items()" and isinstance(g.target, ast.Tuple) and len(g.target.elts) == 2:
                k, v = (norm(e) for e in g.target.elts)
                sel = norm(defs[0].elt) == k and [natom(norm(i)) for i in g.ifs] in ([natom(f"{v} == protocol")], [natom(f"{v} is protocol")])
                dels = [st for st in ct.stmts(lambda s: isinstance(s, ast.Delete)) if norm(st) == f"del self._protocols[{l.target.id}]"]
                ok = sel and len(dels) == 1 and inside(dels[0], l) and not ct.lexical_guards(dels[0], expand=False) and not [s for s in ast.walk(l) if isinstance(s, (ast.Break, ast.Return, ast.Continue))]
    chk.ob("R1", "_connection_terminated removes every routing entry that points to the terminated protocol", ok, "entries registered under keys the connection does not know about (the client's first destination ID, the Retry source ID) stay behind and route to a dead connection", ct.loc(ct.node))
    ci = Fn(repo, S + "_connection_id_issued")
    chk.ob("R1", "_connection_id_issued routes the new ID to its protocol", [norm(n) for k, n in _writes(ci, "self._protocols")] == ["self._protocols[cid] = protocol"], "", ci.loc(ci.node))
    pe = Fn(repo, P + "_process_events")
    for ev, h, arg in (("ConnectionIdIssued", "self._connection_id_issued_handler", "event.connection_id"), ("ConnectionIdRetired", "self._connection_id_retired_handler", "event.connection_id"), ("ConnectionTerminated", "self._connection_terminated_handler", None)):
        cs = pe.calls(name=h)
        ok = len(cs) == 1 and natom(f"isinstance(event, events.{ev})") in pe.guard_atoms(cs[0]) + pe.lexical_guards(cs[0], expand=False) and ([norm(a) for a in cs[0].args] == ([arg] if arg else []))
        chk.ob("R1", f"_process_events reports {ev} to the server's handler", ok, "", pe.loc(pe.node))
    loops = [l for l in pe.stmts(lambda s: isinstance(s, ast.While))]
    ok = len(loops) == 1
    if ok:
        # the loop is left only with `event is None`, and every trip round it fetches the next event (pre-test loop with
        # the fetch at the end of the body, or `while True` with fetch + `if event is None: break` at the top)
        L = loops[0]
        cfg = pe.cfg
        fetches = [st for st, t, v in pe.assigns(chain="event") if norm(v) == "self._quic.next_event()"]
        others = [st for st, t, v in pe.assigns(chain="event") if st not in fetches]
        none = natom("event is None")
        forever = isinstance(L.test, ast.Constant) and bool(L.test.value)
        exits_ok = (forever or flatten_cond(L.test, False) == [none]) and all(none in pe.guard_atoms(b) for b in ast.walk(L) if isinstance(b, ast.Break)) and not [s for s in ast.walk(L) if isinstance(s, ast.Return)]
        if forever and not [b for b in ast.walk(L) if isinstance(b, ast.Break)]:
            exits_ok = False
        inner = {cfg.done[st] for st in fetches if inside(st, L) and st in cfg.done}
        cycle_ok = bool(inner) and not cfg.reaches(cfg.tedge[L], cfg.begin[L], avoid=inner)
        first_ok = any(not inside(st, L) and pe.before(st, L) for st in fetches) or all(cfg.dominates(d, cfg.begin[b]) for b in ast.walk(L) if isinstance(b, ast.Break) for d in list(inner)[:1])
        ok = exits_ok and cycle_ok and first_ok and not others
    chk.ob("R1", "_process_events drains the event queue completely", ok, "", pe.loc(pe.node))


def r2(repo, chk):
    dr = Fn(repo, S + "datagram_received")
    ctor = dr.calls(name="QuicConnection")
    if len(ctor) != 1:
        raise AnalysisError("QuicServer.datagram_received: QuicConnection(...) not found")
    vt = dr.calls(name="self._retry.validate_token")
    chk.ob("R2", "datagram_received validates retry tokens", len(vt) == 1, "", dr.loc(dr.node))
    cfg = dr.cfg
    # with retry enabled every path to the constructor passes validate_token's normal return (paths are pruned by the
    # assumption, so nested and flattened forms of the retry tests are the same to this rule)
    RETRY_ON = natom("self._retry is not None")
    ok = bool(vt)
    if ok:
        done = cfg.done_of(vt[0])
        ok = not dr.reaches_assuming(cfg.entry, cfg.node_of(ctor[0]), [RETRY_ON], avoid={done}) and RETRY_ON in dr.guard_atoms(vt[0])
    wr = [f"{st.lineno}" for st, t, v in dr.assigns(chain="self._retry")]
    ok = ok and not wr
    chk.ob("R2", "with retry enabled no connection state is created unless validate_token returned normally", ok, "a path from the retry branch reaches QuicConnection(...) without a validated token", dr.loc(ctor[0]))
    for v in vt:
        hs = dr.enclosing_handlers(v)
        ok = bool(hs) and all(h.type is not None and norm(h.type) == "ValueError" and len(h.body) == 1 and isinstance(h.body[0], ast.Return) for h in hs)
        chk.ob("R2", "an invalid token drops the datagram", ok, "the ValueError of validate_token is swallowed and processing continues", dr.loc(v))
        ok = [norm(a) for a in v.args] == ["addr", "header.token"]
        chk.ob("R2", "the token is validated against the datagram's source address", ok, "", dr.loc(v))
    kw = {k.arg: norm(k.value) for k in ctor[0].keywords}
    ok = kw.get("original_destination_connection_id") == "original_destination_connection_id" and kw.get("retry_source_connection_id") == "retry_source_connection_id"
    chk.ob("R2", "the connection is created with the connection IDs recovered from the token", ok, f"{kw}", dr.loc(ctor[0]))
    # no token: the retry branch answers with a Retry packet and returns
    rc = dr.calls(name="encode_quic_retry")
    ok = len(rc) == 1
    if ok:
        at = dr.guard_atoms(rc[0])
        ok = RETRY_ON in at and ("header.token", False) in at and not cfg.reaches(cfg.done_of(rc[0]), cfg.node_of(ctor[0]))
        ok = ok and not dr.reaches_assuming(cfg.entry, cfg.node_of(ctor[0]), [RETRY_ON, ("header.token", False)])
        snd = [c for c in dr.calls(name="self._transport.sendto") if inside(rc[0], c)]
        ok = ok and len(snd) == 1
    chk.ob("R2", "an Initial without a token is answered with a Retry and creates no state", ok, "", dr.loc(dr.node))
    ct = [c for c in dr.calls(name="self._retry.create_token")]
    ok = len(ct) == 1 and [norm(a) for a in ct[0].args] == ["addr", "header.destination_cid", "source_cid"]
    chk.ob("R2", "the token binds the client address, the original destination ID and the Retry source ID", ok, "", dr.loc(dr.node))
    v = Fn(repo, "quic.retry:QuicRetryTokenHandler.validate_token")
    rs = [r for r in v.raises("ValueError")]
    ok = any(any(" != " in a[0] and "encode_address(addr)" in a[0] and a[1] for a in v.guard_atoms_x(r) + v.guard_atoms(r)) for r in rs)
    chk.ob("R2", "validate_token raises when the token was issued to another address", ok, "address comparison no longer guards a raise: a token works from any address", v.loc(v.node))
    # the key tokens are sealed with belongs to one handler: generated in its constructor, by the library call itself (a
    # shared / cached key makes every server instance in the process accept tokens it never issued)
    hi = Fn(repo, "quic.retry:QuicRetryTokenHandler.__init__")
    keys = [v for st, t, v in hi.assigns(chain="self._key")]
    rm = repo.mod("quic.retry")
    module_level = [norm(n)[:60] for n in rm.tree.body if isinstance(n, (ast.Assign, ast.AnnAssign)) and "generate_private_key" in norm(n)]
    ok = len(keys) == 1 and isinstance(keys[0], ast.Call) and call_name(keys[0]) == "rsa.generate_private_key" and not module_level and not [a for a in hi.node.args.args[1:]]
    others = [q for q in rm.functions if q.startswith("QuicRetryTokenHandler.") and not q.endswith("__init__") and Fn(repo, "quic.retry:" + q).assigns(chain="self._key")]
    chk.ob("R2", "every QuicRetryTokenHandler generates its own token key in its constructor", ok and not others, f"self._key = {[norm(k)[:50] for k in keys]}: a token minted by one server is accepted as address validation by another", hi.loc(hi.node))
    c = Fn(repo, "quic.retry:QuicRetryTokenHandler.create_token")
    txt = " ".join(norm(s) for s in c.stmts())
    ok = "encode_address(addr)" in txt and "original_destination_connection_id" in txt and "retry_source_connection_id" in txt and ".encrypt(" in txt
    chk.ob("R2", "create_token encrypts address, original DCID and retry SCID", ok, "", c.loc(c.node))
    # the address a token is bound to includes every bit of the port: the port expression(s) of encode_address are evaluated
    # (abstractly, over the arithmetic operators only) for all 65536 ports and must be injective
    ea = Fn(repo, "quic.retry:encode_address")
    rets = [r for r in ea.returns() if r.value is not None]
    inj = False
    detail = ""
    if len(rets) == 1:
        blist = [n for n in ast.walk(rets[0].value) if isinstance(n, ast.Call) and call_name(n) == "bytes" and n.args and isinstance(n.args[0], ast.List)]
        if len(blist) == 1:
            elts = blist[0].args[0].elts

            def ev(e, port):
                if isinstance(e, ast.Constant) and isinstance(e.value, int):
                    return e.value
                if isinstance(e, ast.Subscript) and norm(e) == "addr[1]":
                    return port
                if isinstance(e, ast.Name):
                    for st in ea.stmts(lambda x: isinstance(x, ast.Assign)):
                        for tg in st.targets:
                            if isinstance(tg, ast.Tuple) and isinstance(st.value, ast.Tuple) and len(tg.elts) == len(st.value.elts):
                                for a_, b_ in zip(tg.elts, st.value.elts):
                                    if isinstance(a_, ast.Name) and a_.id == e.id:
                                        return ev(b_, port)
                            if isinstance(tg, ast.Tuple) and norm(st.value) == "addr" and len(tg.elts) == 2 and isinstance(tg.elts[1], ast.Name) and tg.elts[1].id == e.id:
                                return port
                    ds = ea.local_defs(e.id)
                    if len(ds) == 1:
                        d0 = ds[0]
                        if isinstance(d0, ast.Subscript) and norm(d0) == "addr[1]":
                            return port
                        return ev(d0, port)
                    return None
                if isinstance(e, ast.BinOp):
                    a, b = ev(e.left, port), ev(e.right, port)
                    if a is None or b is None:
                        return None
                    ops = {ast.RShift: lambda: a >> b, ast.LShift: lambda: a << b, ast.BitAnd: lambda: a & b, ast.BitOr: lambda: a | b, ast.Mod: lambda: a % b if b else None, ast.FloorDiv: lambda: a // b if b else None, ast.Add: lambda: a + b, ast.Sub: lambda: a - b}
                    f = ops.get(type(e.op))
                    return f() if f else None
                return None

            seen_ = set()
            okv = True
            for port in range(65536):
                t = tuple(ev(e, port) for e in elts)
                if any(x is None or not (0 <= x <= 255) for x in t):
                    okv = False
                    detail = f"port {port} -> {t}"
                    break
                seen_.add(t)
            inj = okv and len(seen_) == 65536
            if okv and not inj:
                detail = f"only {len(seen_)} distinct encodings for 65536 ports"
    chk.ob("R2", "encode_address encodes every port differently (the token is bound to the full address)", inj, detail or "port bytes not recognised", ea.loc(ea.node))
    # the token's fields are written and read with the same length-prefix sizes, in the same order
    ws = [(norm(x.args[1]), norm(x.args[2])) for x in c.calls(name="push_opaque") if len(x.args) >= 3]
    rs_ = [(norm(vv.args[1]), norm(t)) for st, t, vv in v.assigns() if isinstance(vv, ast.Call) and call_name(vv) == "pull_opaque" and len(vv.args) >= 2] if hasattr(v, "assigns") else []
    ok = [a for a, b in ws] == [a for a, b in rs_] and len(ws) == 3 and [b for a, b in ws] == ["encode_address(addr)", "original_destination_connection_id", "retry_source_connection_id"] and [b for a, b in rs_] == ["encoded_addr", "original_destination_connection_id", "retry_source_connection_id"]
    chk.ob("R2", "create_token and validate_token agree on the order and prefix sizes of the three token fields", ok, f"written {ws}, read {rs_}", c.loc(c.node))
    dec = [x for x in v.calls(suffix="decrypt")]
    chk.ob("R2", "validate_token decrypts the token with the server's key (a forged token fails)", len(dec) == 1, "", v.loc(v.node))
    # the new connection needs a full-size Initial
    at = dr.guard_atoms(ctor[0])
    ok = ("protocol is None", True) in at and natom("len(data) >= SMALLEST_MAX_DATAGRAM_SIZE") in at and natom("header.packet_type == QuicPacketType.INITIAL") in at
    chk.ob("R2", "state is created only for an unknown destination ID, a full-size datagram and an Initial packet", ok, f"{at[-4:]}", dr.loc(ctor[0]))


def r3(repo, chk):
    fns = _cls_fns(repo, "asyncio.protocol", "QuicConnectionProtocol")
    creations = []
    for fn in fns:
        for c in fn.calls(name="self._loop.create_future"):
            creations.append((fn, c))
    names = sorted(f.qual.split(".")[-1] for f, c in creations)
    chk.ob("R3", "futures are created only by ping() and wait_connected()", names == ["ping", "wait_connected"], f"{names}", "")
    pe = Fn(repo, P + "_process_events")
    term = natom("isinstance(event, events.ConnectionTerminated)")

    def in_branch(node, atom):
        return atom in pe.guard_atoms(node) + pe.lexical_guards(node, expand=False)

    # --- connect waiter
    wc = Fn(repo, P + "wait_connected")
    slot = [st for st, t, v in wc.assigns(chain="self._connected_waiter") if isinstance(v, ast.Call) and call_name(v) == "self._loop.create_future"]
    chk.ob("R3", "wait_connected stores its future in _connected_waiter", len(slot) == 1, "", wc.loc(wc.node))
    for st in slot:
        at = wc.guard_atoms(st)
        ok = ("self._connected", False) in at
        chk.ob("R3", "wait_connected returns at once when the handshake already completed", ok, "", wc.loc(st))
        ok = any(a[0] == "self._closed.is_set()" and a[1] is False for a in at)
        chk.ob("R3", "wait_connected does not create a waiter after the connection terminated", ok, "a future created after ConnectionTerminated was processed is never completed: the caller waits for ever", wc.loc(st))
    _pg = Fn(repo, P + "ping")
    _mk = [norm(t) for st, t, v in _pg.assigns() if isinstance(v, ast.Call) and call_name(v) == "self._loop.create_future" and isinstance(t, ast.Name)]
    PW = _mk[0] if len(_mk) == 1 else "waiter"
    for fn, aw in ((wc, "self._connected_waiter"), (_pg, PW)):
        awaits = [n for n in fn.nodes(ast.Await)]
        ok = bool(awaits) and all(isinstance(a.value, ast.Call) and call_name(a.value) == "asyncio.shield" and norm(a.value.args[0]) == aw for a in awaits)
        chk.ob("R3", f"{fn.qual.split('.')[-1]} awaits its future through asyncio.shield", ok, "cancelling the awaiting task cancels the shared future; completing it later raises InvalidStateError out of the datagram / timer callback and the remaining events of that batch (termination included) are lost", fn.loc(fn.node))
    for branch, how, what in ((term, "set_exception", "ConnectionTerminated"), (natom("isinstance(event, events.HandshakeCompleted)"), "set_result", "HandshakeCompleted")):
        # the local that holds the future taken out of the slot may have any name
        comp = [c for c in pe.calls(suffix=how) if in_branch(c, branch) and isinstance(c.func.value, ast.Name) and (("self._connected_waiter is not None", True) in pe.guard_atoms(c) or (f"{c.func.value.id} is not None", True) in pe.guard_atoms(c))]
        chk.ob("R3", f"_process_events completes the connect waiter on {what}", len(comp) == 1, "", pe.loc(pe.node))
        for c in comp:
            clear = [st for st, t, v in pe.assigns(chain="self._connected_waiter") if isinstance(v, ast.Constant) and v.value is None and in_branch(st, branch)]
            grab = [st for st, t, v in pe.assigns(chain=c.func.value.id) if in_branch(st, branch) and (pe.before(st, c) or (isinstance(st, ast.If) and inside(c, st))) and not any(isinstance(p, (ast.For, ast.While)) and in_branch(p, branch) for p in _ancestors(st))]
            grab = grab if all(norm(v2) == "self._connected_waiter" for st2, t2, v2 in pe.assigns(chain=c.func.value.id) if st2 in grab) else []
            ok = len(clear) == 1 and len(grab) == 1 and (pe.before(grab[0], clear[0]) or (isinstance(grab[0], ast.If) and any(clear[0] is s_ or inside(clear[0], s_) for s_ in grab[0].body))) and pe.before(clear[0], c)
            chk.ob("R3", f"{what}: the connect slot is emptied before the future is completed (no second completion)", ok, "", pe.loc(c))
    flag = [st for st, t, v in pe.assigns(chain="self._connected") if isinstance(v, ast.Constant) and v.value is True]
    ok = len(flag) == 1 and natom("isinstance(event, events.HandshakeCompleted)") in pe.lexical_guards(flag[0], expand=False) and [a for a in pe.lexical_guards(flag[0], expand=False) if not a[0].startswith("isinstance(event, ") and a[0] != "event is not None"] == []
    chk.ob("R3", "the handshake-completed flag is set on the event itself, not only when somebody is already waiting", ok, f"guards {pe.lexical_guards(flag[0], expand=False) if flag else None}: wait_connected() called after the handshake never returns", pe.loc(pe.node))
    # --- ping waiters
    pg = Fn(repo, P + "ping")
    sp = pg.calls(name="self._quic.send_ping")
    uid = pg.expand(sp[0].args[0], 1) if len(sp) == 1 and sp[0].args else "uid"
    store = [st for st in pg.stmts(lambda s: isinstance(s, ast.Assign)) if isinstance(st.targets[0], ast.Subscript) and norm(st.targets[0].value) == "self._ping_waiters" and pg.expand(st.targets[0].slice, 1) == uid and norm(st.value) == PW]
    mk = [st for st, t, v in pg.assigns(chain=PW) if isinstance(v, ast.Call) and call_name(v) == "self._loop.create_future"]
    ok = len(store) == 1 and len(mk) == 1 and len(sp) == 1 and uid == f"id({PW})" and pg.before(store[0], sp[0])
    chk.ob("R3", "ping() registers its future under the uid it sends", ok, "", pg.loc(pg.node))
    for st in mk:
        ok = any(a[0] == "self._closed.is_set()" and a[1] is False for a in pg.guard_atoms(st))
        chk.ob("R3", "ping() does not create a waiter after the connection terminated", ok, "a ping issued after termination never completes", pg.loc(st))
    ackb = natom("isinstance(event, events.PingAcknowledged)")
    pops = [c for c in pe.calls(name="self._ping_waiters.pop") if in_branch(c, ackb)]
    res = [c for c in pe.calls(suffix="set_result") if in_branch(c, ackb)]
    ok = len(pops) == 1 and len(res) == 1 and norm(pops[0].args[0]) == "event.uid" and len(pops[0].args) == 2 and isinstance(res[0].func.value, ast.Name) and (f"{res[0].func.value.id} is not None", True) in pe.guard_atoms(res[0]) and pe.before(pops[0], res[0])
    if ok:
        w = res[0].func.value.id
        ok = [norm(v) for st, t, v in pe.assigns(chain=w) if in_branch(st, ackb)] == [norm(pops[0])]
    chk.ob("R3", "PingAcknowledged removes the waiter from the table before completing it", ok, "", pe.loc(pe.node))
    exc = [c for c in pe.calls(suffix="set_exception") if in_branch(c, term) and any(isinstance(p, ast.For) and norm(p.iter) == "self._ping_waiters.values()" for p in _ancestors(c))]
    clr = [c for c in pe.calls(name="self._ping_waiters.clear") if in_branch(c, term)]
    ok = len(exc) == 1 and len(clr) == 1 and pe.cfg.reaches(pe.cfg.node_of(exc[0]), pe.cfg.node_of(clr[0]))
    chk.ob("R3", "ConnectionTerminated fails every pending ping waiter and empties the table", ok, "", pe.loc(pe.node))
    cs = [c for c in pe.calls(name="self._closed.set") if in_branch(c, term)]
    chk.ob("R3", "ConnectionTerminated releases wait_closed()", len(cs) == 1 and not [a for a in pe.lexical_guards(cs[0], expand=False) if not a[0].startswith("isinstance(event, ") and a[0] != "event is not None"], "", pe.loc(pe.node))
    others = [f"{fn.qual.split('.')[-1]}: {norm(c)[:40]}" for fn in fns for c in fn.calls() if isinstance(c.func, ast.Attribute) and c.func.attr in ("set_result", "set_exception", "cancel") and fn.qual != "QuicConnectionProtocol._process_events" and "waiter" in norm(c.func.value)]
    chk.ob("R3", "waiters are completed only by _process_events", not others, f"{others}", "")


def _ancestors(n):
    p = getattr(n, "_parent", None)
    while p is not None:
        yield p
        p = getattr(p, "_parent", None)


def r4(repo, chk):
    for name, first in (("datagram_received", "self._quic.receive_datagram"), ("_handle_timer", "self._quic.handle_timer")):
        fn = Fn(repo, P + name)
        a, b, c = fn.calls(name=first), fn.calls(name="self._process_events"), fn.calls(name="self.transmit")
        ok = len(a) == 1 and len(b) == 1 and len(c) == 1 and fn.before(a[0], b[0]) and fn.before(b[0], c[0]) and fn.cfg.postdominates(fn.cfg.node_of(c[0]), fn.cfg.entry)
        chk.ob("R4", f"{name}: input -> _process_events -> transmit on every path", ok, "", fn.loc(fn.node))
    ht = Fn(repo, P + "_handle_timer")
    ok = any(norm(v) == "max(self._timer_at, self._loop.time())" for st, t, v in ht.assigns(chain="now"))
    chk.ob("R4", "_handle_timer never reports a time before the deadline it was armed for", ok, "", ht.loc(ht.node))
    # the fired handle is forgotten before transmit() looks at it: transmit arms a new timer only when self._timer is None
    clr = [st for st, t, v in ht.assigns(chain="self._timer") if isinstance(v, ast.Constant) and v.value is None]
    trc = ht.calls(name="self.transmit")
    ok = len(clr) == 1 and bool(trc) and not ht.lexical_guards(clr[0], expand=False) and all(clr[0].lineno < c.lineno for c in trc)
    chk.ob("R4", "_handle_timer forgets the fired timer handle before it calls transmit()", ok, "transmit() sees a non-None self._timer; when get_timer() returns the same deadline again it neither cancels nor re-arms, and the connection is left without a timer", ht.loc(ht.node))
    tr = Fn(repo, P + "transmit")
    gt = [st for st, t, v in tr.assigns(chain="timer_at") if norm(v) == "self._quic.get_timer()"]
    arm = [c for c in tr.calls(name="self._loop.call_at")]
    ok = len(gt) == 1 and len(arm) == 1 and tr.cfg.postdominates(tr.cfg.begin[gt[0]], tr.cfg.entry)
    if ok:
        at = tr.guard_atoms(arm[0]) + tr.lexical_guards(arm[0], expand=False)
        ok = ("self._timer is None", True) in at and ("timer_at is not None", True) in at and [norm(x) for x in arm[0].args] == ["timer_at", "self._handle_timer"]
        cancel = [c for c in tr.calls(name="self._timer.cancel")]
        ok = ok and len(cancel) == 1 and natom("self._timer_at != timer_at") in tr.guard_atoms(cancel[0]) + tr.lexical_guards(cancel[0], expand=False)
        last = [st for st, t, v in tr.assigns(chain="self._timer_at") if norm(v) == "timer_at"]
        ok = ok and len(last) == 1 and tr.cfg.postdominates(tr.cfg.begin[last[0]], tr.cfg.entry)
    chk.ob("R4", "transmit re-arms the timer from get_timer() on every path (cancelling a stale one)", ok, "", tr.loc(tr.node))
    send = [c for c in tr.calls(name="self._transport.sendto")]
    ok = len(send) == 1 and any(isinstance(p, ast.For) and "self._quic.datagrams_to_send" in norm(p.iter) for p in _ancestors(send[0]))
    chk.ob("R4", "transmit sends every datagram the connection hands out", ok, "", tr.loc(tr.node))
    ts = Fn(repo, P + "_transmit_soon")
    ok = any(norm(v) == "self._loop.call_soon(self.transmit)" and ("self._transmit_task is None", True) in ts.guard_atoms(st) for st, t, v in ts.assigns(chain="self._transmit_task"))
    clr = any(isinstance(v, ast.Constant) and v.value is None for st, t, v in tr.assigns(chain="self._transmit_task"))
    chk.ob("R4", "a deferred transmit is scheduled at most once and re-enabled by transmit itself", ok and clr, "", ts.loc(ts.node))
    qe = Fn(repo, P + "quic_event_received")
    fd = qe.calls(suffix="feed_data")
    fe = [c for c in qe.calls(suffix="feed_eof")]
    ok = len(fd) == 1 and len(fe) == 2
    if ok:
        per = [c for c in fe if ("event.end_stream", True) in qe.guard_atoms(c)]
        allr = [c for c in fe if any(isinstance(p, ast.For) and norm(p.iter) == "self._stream_readers.values()" for p in _ancestors(c))]
        ok = len(per) == 1 and qe.before(fd[0], per[0]) and norm(fd[0].args[0]) == "event.data" and len(allr) == 1 and natom("isinstance(event, events.ConnectionTerminated)") in qe.guard_atoms(allr[0]) + qe.lexical_guards(allr[0], expand=False)
    chk.ob("R4", "a stream reader gets the event's data, then EOF when the stream ended; every reader gets EOF on termination", ok, "", qe.loc(qe.node))
    pe = Fn(repo, P + "_process_events")
    q = pe.calls(name="self.quic_event_received")
    ok = len(q) == 1 and not [a for a in pe.lexical_guards(q[0], expand=False) if a[0] != "event is not None"]
    chk.ob("R4", "every event is handed to quic_event_received", ok, "", pe.loc(pe.node))
    ad = Fn(repo, "asyncio.protocol:QuicStreamAdapter.write")
    ok = [norm(c) for c in ad.calls()][:2] == ["self.protocol._quic.send_stream_data(self.stream_id, data)", "self.protocol._transmit_soon()"]
    chk.ob("R4", "a stream writer hands its bytes to the connection unchanged and schedules a transmit", ok, "", ad.loc(ad.node))
    we = Fn(repo, "asyncio.protocol:QuicStreamAdapter.write_eof")
    sends = [c for c in we.calls(name="self.protocol._quic.send_stream_data") if "end_stream=True" in norm(c)]
    marks = [st for st, t, v in we.assigns(chain="self._closing") if isinstance(v, ast.Constant) and v.value is True]
    # sent only while not yet closing, and the flag is set on the way (early-return or nested form alike)
    ok = len(sends) == 1 and ("self._closing", False) in we.guard_atoms(sends[0]) and len(marks) == 1 and ("self._closing", False) in we.guard_atoms(marks[0]) and (we.before(marks[0], sends[0]) or we.always_after(sends[0], marks[0]))
    chk.ob("R4", "write_eof sends the end of stream once", ok, "", we.loc(we.node))
