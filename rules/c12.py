"""C12 - acknowledgements are sound and timely (claimed in part).

R1  soundness: the ACK queue of a packet-number space is only ever extended by the number of a packet
    that was just decrypted successfully with that space's keys, and only pruned when an ACK frame
    that covered the pruned numbers is itself acknowledged; ACK frames are encoded from that queue
R2  arming: receiving an ack-eliciting packet arms the space's ACK deadline (no path of the frame
    loop skips the ack-eliciting classification); the local delay is below the advertised max_ack_delay
R3  the deadline is cleared only after the ACK frame was started; every deadline is visible to
    get_timer; the emission conditions cover "deadline due" (1-RTT) and "deadline set" (Initial /
    Handshake) and nothing that can postpone sending (pacing) applies when an ACK is due
R4  the non-ack-eliciting frame set is {PADDING, ACK, ACK_ECN, CONNECTION_CLOSE x2}
"""
from __future__ import annotations

import ast

from sa.linear import Lin, Store
from sa.pyfacts import Unknown, attr_chain, call_name, chains_in, get_kw, norm
from sa.q import Fn, flatten_cond, inside
from sa.report import AnalysisError

LEVEL = "other"
CONN = "quic.connection:QuicConnection."
MUTATORS = {"add", "subtract", "shift", "clear", "pop", "append", "remove", "insert", "extend", "update"}


def run(repo, chk):
    chk.rule("R1", "ack_queue mutators: add(packet number returned by a successful decrypt_packet of the same epoch) in receive_datagram, subtract(0, n+1) in the ACK delivery handler under ACKED with n fixed when the ACK frame was written; push_ack_frame encodes that queue")
    chk.rule("R2", "ack-eliciting classification lies on every path of the frame loop; ack_at is armed for an ack-eliciting packet when unset; the local ack delay is <= the advertised max_ack_delay")
    chk.rule("R3", "ack_at is cleared only after start_frame(ACK) succeeded (and when the space is discarded); get_timer reads ack_at of every space; the writers emit ACK when due / set; no pacing or other early exit precedes the ACK when it is due")
    chk.rule("R4", "NON_ACK_ELICITING_FRAME_TYPES equals RFC 9002 section 2")
    chk.decline("the measured delay between arrival and acknowledgement under a schedule (timing); R2/R3 decide the plumbing it depends on")
    chk.assume("the caller fires the timer when asked and then calls datagrams_to_send (as the property states)")
    r1(repo, chk)
    r2(repo, chk)
    r3(repo, chk)
    r4(repo, chk)


def _all_fns(repo):
    for m in repo.modules.values():
        if m.path.endswith(".pyi"):
            continue
        for q in m.functions:
            yield Fn(repo, f"{m.name}:{q}")


def r1(repo, chk):
    sites = []
    for fn in _all_fns(repo):
        for c in fn.calls():
            f = c.func
            if isinstance(f, ast.Attribute) and f.attr in MUTATORS and isinstance(f.value, ast.Attribute) and f.value.attr == "ack_queue":
                sites.append((fn, c, f.attr))
        for st, t, v in fn.assigns(suffix="ack_queue"):
            if isinstance(t, ast.Attribute):
                sites.append((fn, st, "="))
    adds = [(fn, c) for fn, c, k in sites if k == "add"]
    subs = [(fn, c) for fn, c, k in sites if k == "subtract"]
    for fn, c, k in sites:
        where = fn.qual
        if k == "=":
            ok = where == "QuicPacketSpace.__init__" and norm(c.value) == "RangeSet()"
            chk.ob("R1", f"{where}: `{norm(c)[:50]}` is the constructor's empty queue", ok, "the ACK queue is replaced outside the constructor", fn.loc(c))
        elif k == "add":
            chk.ob("R1", f"{where}: ack_queue.add only in receive_datagram", where == "QuicConnection.receive_datagram", "a second place records packets as received", fn.loc(c))
        elif k == "subtract":
            pass
        elif k == "shift":
            # bounding the queue (RFC 9000 13.2.4): only the oldest range may be dropped, only when the queue is over its cap,
            # and only where packets are recorded
            at = fn.guard_atoms(c)
            q = norm(c.func.value)
            ok = where == "QuicConnection.receive_datagram" and any(a[1] and a[0].startswith(f"len({q}) > ") for a in at) and any(fn.before(a2, c) or fn.cfg.reaches(fn.cfg.node_of(a2), fn.cfg.node_of(c)) for f2, a2 in [(f3, c3) for f3, c3, k3 in sites if k3 == "add" and f3 is fn])
            chk.ob("R1", f"{where}: `{norm(c)[:50]}` only drops the oldest range of an over-long queue", ok, "ranges are dropped from the ACK queue outside the size cap", fn.loc(c))
        else:
            chk.ob("R1", f"{where}: `{norm(c)[:50]}` does not mutate the ACK queue", False, f"unexpected mutator .{k}() on an ACK queue", fn.loc(c))
    if not adds or not subs:
        raise AnalysisError("ack_queue.add / ack_queue.subtract sites not found")

    rd = Fn(repo, CONN + "receive_datagram")
    decs = [c for c in rd.calls(suffix="decrypt_packet")]
    if not decs:
        raise AnalysisError("receive_datagram: decrypt_packet call not found")
    for fn, c in adds:
        if fn.qual != "QuicConnection.receive_datagram":
            continue
        ok = any(rd.before(d, c) for d in decs)
        chk.ob("R1", "receive_datagram: ack_queue.add is dominated by the normal return of decrypt_packet", ok, "a packet that was not authenticated can be recorded as received", rd.loc(c))
        arg = c.args[0] if c.args else None
        good = False
        if isinstance(arg, ast.Name):
            for d in decs:
                st = d
                while not isinstance(st, ast.stmt):
                    st = st._parent
                if isinstance(st, ast.Assign) and isinstance(st.targets[0], ast.Tuple) and arg.id in [norm(e) for e in st.targets[0].elts]:
                    # the only definition of the name
                    ndefs = sum(1 for s2 in rd.stmts() for t in _targets(s2) if isinstance(t, ast.Name) and t.id == arg.id)
                    good = ndefs == 1
        chk.ob("R1", "receive_datagram: the recorded number is the packet number returned by decrypt_packet", good, f"argument `{norm(arg) if arg is not None else None}` is not (only) bound by the decrypt_packet result", rd.loc(c))
        # same epoch for keys and queue
        recv = c.func.value.value  # <space>.ack_queue
        spname = norm(recv)
        dec_recv = {norm(d.func.value) for d in decs if isinstance(d.func, ast.Attribute)}
        eps = rd.local_defs("epoch")
        ok = len(eps) == 1 and norm(eps[0]) == "get_epoch(header.packet_type)" and len(dec_recv) == 1
        detail = []
        if ok:
            crname = next(iter(dec_recv))
            for st, t, v in rd.assigns(chain=spname):
                lg = [a for a in rd.lexical_guards(st, expand=False) if "epoch" in a[0]]
                if norm(v) == "self._spaces[epoch]":
                    continue
                if norm(v) == "self._spaces[tls.Epoch.ONE_RTT]" and ("epoch == tls.Epoch.ZERO_RTT", True) in lg:
                    continue  # 0-RTT and 1-RTT share the application data packet number space (RFC 9000 12.3)
                ok = False
                detail.append(norm(st))
            for st, t, v in rd.assigns(chain=crname):
                lg = [a for a in rd.lexical_guards(st, expand=False) if "epoch" in a[0]]
                if norm(v) == "self._cryptos[epoch]":
                    continue
                if norm(v).startswith("self._cryptos_initial[") and ("epoch == tls.Epoch.INITIAL", True) in lg:
                    continue
                ok = False
                detail.append(norm(st))
        chk.ob("R1", "receive_datagram: the queue belongs to the packet number space of the epoch whose keys decrypted the packet", ok, f"definitions not tied to `epoch`: {detail}", rd.loc(c))
        # the error path cannot reach the add without the END_STATES/_close_pending test
        pr = rd.calls(name="self._payload_received")
        ok = True
        for p in pr:
            hs = rd.enclosing_handlers(p)
            for h in hs:
                hn = rd.cfg.handler_node[h]
                tests = [st for st in rd.stmts(lambda s: isinstance(s, ast.If)) if "_close_pending" in norm(st.test) and any(isinstance(x, ast.Return) for x in st.body)]
                tn = {rd.cfg.begin[t] for t in tests}
                if rd.cfg.reaches(hn, rd.cfg.node_of(c), avoid=tn):
                    ok = False
        chk.ob("R1", "receive_datagram: after a frame error the packet is recorded only if the connection did not enter closing", ok, "the handler of QuicConnectionError reaches ack_queue.add without the END_STATES/_close_pending return", rd.loc(c))
    for fn, c in subs:
        ok = fn.qual == "QuicConnection._on_ack_delivery"
        chk.ob("R1", f"{fn.qual}: ack_queue.subtract only in the ACK delivery handler", ok, "the ACK queue is pruned somewhere else", fn.loc(c))
        at = fn.guard_atoms(c)
        params = [a.arg for a in fn.node.args.args]
        dparam = next((p for p in params if p not in ("self",)), None)
        acked = any(" == " in a[0] and "QuicDeliveryState.ACKED" in a[0] and a[1] for a in at)
        chk.ob("R1", f"{fn.qual}: pruning happens only when the ACK frame was acknowledged", acked, f"guards {at}", fn.loc(c))
        if len(c.args) == 2:
            lo = repo.const(fn.mod, c.args[0])
            stop = c.args[1]
            roots = {ch.split(".")[0] for ch in chains_in(stop)}
            dotted = [ch for ch in chains_in(stop) if "." in ch]
            ok = lo == 0 and roots <= set(params) and not dotted
            chk.ob("R1", f"{fn.qual}: the pruned range [0, n+1) uses a bound fixed when the ACK frame was written (a handler argument), not state read at delivery time", ok, f"stop bound `{norm(stop)}` reads {sorted(chains_in(stop))}", fn.loc(c))
            bound_params = [p for p in params if p in roots]
        else:
            chk.ob("R1", f"{fn.qual}: subtract(0, n+1)", False, "unexpected arguments", fn.loc(c))
            bound_params = []
        # registration sites
        wa = Fn(repo, CONN + "_write_ack_frame")
        regs = [s for s in wa.calls(suffix="start_frame") if get_kw(s, "handler") is not None and norm(get_kw(s, "handler")).endswith("_on_ack_delivery")]
        chk.ob("R1", "_write_ack_frame registers the ACK delivery handler", bool(regs), "ACK frames are no longer pruned on acknowledgement (unbounded queue) or pruned elsewhere", wa.loc(wa.node))
        for s in regs:
            ha = get_kw(s, "handler_args")
            pushes = wa.calls(name="push_ack_frame")
            q = pushes[0].args[1] if pushes and len(pushes[0].args) > 1 else None
            qroots = {x for x in wa.closure_chains(q)} if q is not None else set()
            ok = isinstance(ha, ast.Tuple) and len(ha.elts) == len(params) - 2
            if ok:
                binding = dict(zip(params[2:], ha.elts))
                sp = norm(binding.get("space")) if "space" in binding else norm(ha.elts[0])
                for bp in bound_params:
                    e = binding.get(bp)
                    ok = ok and e is not None and norm(e) == f"{sp}.largest_received_packet"
                ok = ok and f"{sp}.ack_queue" in qroots
            chk.ob("R1", "_write_ack_frame: the pruning bound is the largest packet number received in the space whose queue is encoded, evaluated when the frame is written", ok, f"handler_args={norm(ha) if ha is not None else None}, encoded queue depends on {sorted(x for x in qroots if 'ack_queue' in x)}", wa.loc(s))
            # the encoded queue is the space's queue or a slice of it
            if q is not None:
                qs = {x for x in qroots if x.endswith("ack_queue") and "." in x}
                others = {x for x in qroots if x.endswith(".ranges") or "RangeSet" == x}
                ok = len(qs) == 1
                chk.ob("R1", "_write_ack_frame: push_ack_frame encodes the space's ACK queue (or its most recent ranges)", ok, f"queue expression depends on {sorted(qroots)}", wa.loc(pushes[0]))
                for st, t, v in wa.assigns(chain=norm(q)):
                    if isinstance(v, ast.Call) and call_name(v) == "RangeSet":
                        inner = v.args[0] if v.args else None
                        ok = isinstance(inner, ast.Subscript) and isinstance(inner.slice, ast.Slice) and inner.slice.upper is None and isinstance(inner.slice.lower, ast.UnaryOp) and isinstance(inner.slice.lower.op, ast.USub)
                        chk.ob("R1", "_write_ack_frame: a shortened queue keeps the most recent ranges of the same queue", ok, f"`{norm(v)}` is not a tail slice", wa.loc(st))
                        # ...and it is shortened only for lack of room in the datagram: ACK frames are not congestion
                        # controlled, so the congestion / flight budget must not decide how many ranges are reported
                        bound = inner.slice.lower.operand if ok else None
                        btxt = wa.expand(bound, 3) if bound is not None else ""
                        lg = [a[0] for a in wa.lexical_guards(st, expand=False)]
                        dep = btxt + " " + " ".join(wa.expand(ast.parse(g, mode="eval").body, 3) if g.isidentifier() else g for g in lg)
                        okb = "remaining_buffer_space" in btxt and "flight" not in dep and "congestion" not in dep
                        chk.ob("R1", "_write_ack_frame: the number of ranges reported is limited by the room in the datagram only (not by the congestion budget)", okb, f"bound `{btxt[:120]}` under {lg}: a congestion-limited endpoint would report only its newest range(s); the older ranges are pruned unreported once that ACK is acknowledged", wa.loc(st))
    chk.count("ack_queue_sites", len(sites))
    _ack_frame_fits(repo, chk)


def _arith(e, env):
    """integer value of an expression over + - * //, max/min/len-free names in env; None when outside that grammar"""
    if isinstance(e, ast.Constant) and isinstance(e.value, int):
        return e.value
    if isinstance(e, (ast.Name, ast.Attribute)):
        return env.get(norm(e))
    if isinstance(e, ast.BinOp):
        a, b = _arith(e.left, env), _arith(e.right, env)
        if a is None or b is None:
            return None
        if isinstance(e.op, ast.Add):
            return a + b
        if isinstance(e.op, ast.Sub):
            return a - b
        if isinstance(e.op, ast.Mult):
            return a * b
        if isinstance(e.op, ast.FloorDiv):
            return a // b if b else None
        return None
    if isinstance(e, ast.Call) and call_name(e) in ("max", "min") and not e.keywords:
        vs = [_arith(a, env) for a in e.args]
        return None if None in vs or not vs else (max if call_name(e) == "max" else min)(vs)
    return None


def _ack_frame_fits(repo, chk):
    """the ACK frame that is started always fits: with n = min(queued ranges, max_ranges(R)) the declared capacity
    F + (n - 1) * K does not exceed the remaining buffer space R, for every R that can hold a one-range frame.  The two
    expressions are taken from the code and evaluated over R = F .. 1500 with the module's constants (integer
    arithmetic only) - a truncated frame that start_frame refuses is never sent: the receiver goes silent for good."""
    wa = Fn(repo, CONN + "_write_ack_frame")
    m = wa.mod
    sf = [c for c in wa.calls(suffix="start_frame")]
    mr = [(st, v) for st, t, v in wa.assigns(chain="max_ranges")]
    trunc = [st for st in wa.stmts(lambda x: isinstance(x, ast.If)) if "max_ranges" in norm(st.test) and "len(" in norm(st.test)]
    if len(sf) != 1 or len(mr) != 1 or len(trunc) != 1:
        chk.ob("R3", "_write_ack_frame: the truncated ACK frame fits the room that is left", False, "max_ranges / truncation / start_frame not found in the expected roles", wa.loc(wa.node))
        return
    F = repo.const(m, m.assigns.get("ACK_FRAME_CAPACITY")) if "ACK_FRAME_CAPACITY" in m.assigns else None
    K = repo.const(m, m.assigns.get("ACK_RANGE_CAPACITY")) if "ACK_RANGE_CAPACITY" in m.assigns else None
    cap = get_kw(sf[0], "capacity", 1)
    cap_stmt = None
    if isinstance(cap, ast.Name):
        d = [(st, v) for st, t, v in wa.assigns(chain=cap.id)]
        cap_stmt, cap = (d[0][0], d[0][1]) if len(d) == 1 else (None, None)
    # the capacity is computed from the queue as it is after the truncation
    after = cap_stmt is None or wa.before(trunc[0], cap_stmt)
    qn = [n for n in ast.walk(cap) if isinstance(n, ast.Call) and call_name(n) == "len"] if cap is not None else []
    bad = None
    if isinstance(F, int) and isinstance(K, int) and cap is not None and len(qn) == 1:
        for R in range(F, 1501):
            env = {"builder.remaining_buffer_space": R, "ACK_FRAME_CAPACITY": F, "ACK_RANGE_CAPACITY": K}
            n = _arith(mr[0][1], env)
            if n is None or n < 1:
                bad = f"max_ranges not evaluable / < 1 at remaining space {R}"
                break
            env2 = dict(env)
            capx = ast.parse(norm(cap).replace(norm(qn[0]), "__n"), mode="eval").body
            env2["__n"] = n
            c = _arith(capx, env2)
            if c is None or c > R:
                bad = f"remaining space {R}: {n} range(s) allowed, declared capacity {c} > {R}"
                break
    else:
        bad = "constants or capacity expression not found"
    chk.ob("R3", "_write_ack_frame: the truncated ACK frame fits the room that is left", bad is None and after, (bad or "") + ("" if after else " capacity computed before the queue is truncated") + ": start_frame raises QuicPacketBuilderStop, no ACK leaves, the deadline stays armed and the peer's data is never acknowledged", wa.loc(sf[0]))


def _targets(st):
    if isinstance(st, ast.Assign):
        for t in st.targets:
            yield from _flat(t)
    elif isinstance(st, (ast.AugAssign, ast.AnnAssign)):
        yield st.target
    elif isinstance(st, (ast.For, ast.AsyncFor)):
        yield from _flat(st.target)


def _flat(t):
    if isinstance(t, (ast.Tuple, ast.List)):
        for e in t.elts:
            yield from _flat(e)
    else:
        yield t


def r2(repo, chk):
    pr = Fn(repo, CONN + "_payload_received")
    loops = [st for st in pr.stmts(lambda s: isinstance(s, ast.While))]
    if not loops:
        raise AnalysisError("_payload_received: frame loop not found")
    loop = loops[0]
    cls = [st for st in pr.stmts(lambda s: isinstance(s, ast.If) and inside(s, loop)) if "NON_ACK_ELICITING_FRAME_TYPES" in norm(st.test)]
    chk.ob("R2", "_payload_received classifies every frame as ack-eliciting or not", len(cls) == 1, f"{len(cls)} tests against NON_ACK_ELICITING_FRAME_TYPES in the frame loop", pr.loc(loop))
    for st in cls:
        t = flatten_cond(st.test, True)
        ok = t == [("frame_type not in NON_ACK_ELICITING_FRAME_TYPES", True)] and any(isinstance(x, ast.Assign) and norm(x) == "is_ack_eliciting = True" for x in st.body)
        chk.ob("R2", "_payload_received: a frame outside the non-ack-eliciting set sets is_ack_eliciting", ok, f"test {t}", pr.loc(st))
        # every path from the frame handler call (normal or via a handler that continues) to the next iteration passes the test
        hc = [c for c in pr.calls(name="frame_handler") if inside(c, loop)]
        if not hc:
            raise AnalysisError("_payload_received: frame_handler(...) call not found")
        cfg = pr.cfg
        b = cfg.begin[st]
        for c in hc:
            start = cfg.node_of(c)
            ok = not cfg.reaches(start, cfg.begin[loop], avoid={b})
            chk.ob("R2", "_payload_received: no path from the frame handler back to the loop head skips the ack-eliciting classification", ok, "a `continue` (or handler) lets a handled frame bypass the is_ack_eliciting update: the packet never arms the ACK timer", pr.loc(c))
    rets = [r for r in pr.returns() if r.value is not None]
    ok = bool(rets) and all(isinstance(r.value, ast.Tuple) and norm(r.value.elts[0]) == "is_ack_eliciting" for r in rets)
    chk.ob("R2", "_payload_received returns the classification first", ok, "", pr.loc(pr.node))
    inits = [st for st, t, v in pr.assigns(chain="is_ack_eliciting") if isinstance(v, ast.Constant) and v.value is False]
    chk.ob("R2", "_payload_received: is_ack_eliciting starts False and is only ever set True", len(inits) == 1 and not inside(inits[0], loop) and all(isinstance(v, ast.Constant) for st, t, v in pr.assigns(chain="is_ack_eliciting")), "", pr.loc(pr.node))

    rd = Fn(repo, CONN + "receive_datagram")
    call = rd.calls(name="self._payload_received")
    ok = False
    for c in call:
        st = c
        while not isinstance(st, ast.stmt):
            st = st._parent
        if isinstance(st, ast.Assign) and isinstance(st.targets[0], ast.Tuple) and norm(st.targets[0].elts[0]) == "is_ack_eliciting":
            ok = True
    chk.ob("R2", "receive_datagram binds is_ack_eliciting from _payload_received", ok, "", rd.loc(rd.node))
    arms = [(st, t, v) for st, t, v in rd.assigns(suffix="ack_at")]
    adds = [c for c in rd.calls(suffix="add") if call_name(c).endswith("ack_queue.add")]
    good = []
    for st, t, v in arms:
        lg = rd.lexical_guards(st, expand=False)
        sp = norm(t.value) if isinstance(t, ast.Attribute) else ""
        allowed = {("is_ack_eliciting", True), (f"{sp}.ack_at is None", True), (f"{sp}.discarded", False), ("buf.eof()", False)}
        extra = [a for a in lg if a not in allowed]
        need = {("is_ack_eliciting", True), (f"{sp}.ack_at is None", True)}
        if not extra and need <= set(lg) and norm(v) in ("now + self._ack_delay", "self._ack_delay + now") and any(norm(a.func.value.value) == sp for a in adds):
            good.append(st)
    chk.ob("R2", "receive_datagram arms ack_at = now + ack delay for an ack-eliciting packet whose space has no deadline yet", bool(good), "arming statement missing or conditional on something else", rd.loc(rd.node))
    for st in good:
        ok = all(rd.cfg.reaches(rd.cfg.node_of(a), rd.cfg.begin[st]) for a in adds)
        chk.ob("R2", "receive_datagram: the arming follows the recording of the packet", ok, "", rd.loc(st))
    # constants
    init = Fn(repo, CONN + "__init__")
    m = init.mod
    d = [v for st, t, v in init.assigns(chain="self._ack_delay")]
    ack_delay = repo.const(m, d[0]) if d else Unknown
    ser = Fn(repo, CONN + "_serialize_transport_parameters")
    adv = Unknown
    for c in ser.calls(name="QuicTransportParameters"):
        kw = get_kw(c, "max_ack_delay")
        if kw is not None:
            adv = repo.const(m, kw)
    other = []
    for fn in _all_fns(repo):
        for st, t, v in fn.assigns(suffix="_ack_delay"):
            if isinstance(t, ast.Attribute) and fn.qual != "QuicConnection.__init__":
                other.append(fn.qual)
    ok = isinstance(ack_delay, (int, float)) and isinstance(adv, (int, float)) and ack_delay * 1000 <= adv and not other
    chk.ob("R2", "the local ACK delay does not exceed the advertised max_ack_delay", ok, f"_ack_delay={ack_delay!r}s, advertised max_ack_delay={adv!r}ms, other writers {other}", init.loc(init.node))
    chk.count("ack_delay_s", ack_delay if ack_delay is not Unknown else None)
    chk.count("advertised_max_ack_delay_ms", adv if adv is not Unknown else None)


def _cmp_store(test: ast.expr, pol: bool, var: str):
    """linear constraints over (<var>.ack_at, now) implied by test under polarity; returns list of
    alternative Stores (DNF) or None when a literal is not understood; `is None` literals are kept
    symbolically as ('none', bool)"""

    def lit(e, p):
        # returns list of alternatives; each alternative = (constraints list, none flag or None)
        if isinstance(e, ast.UnaryOp) and isinstance(e.op, ast.Not):
            return lit(e.operand, not p)
        if isinstance(e, ast.BoolOp):
            conj = (isinstance(e.op, ast.And) and p) or (isinstance(e.op, ast.Or) and not p)
            parts = [lit(v, p) for v in e.values]
            if any(x is None for x in parts):
                if conj:
                    parts = [x for x in parts if x is not None]  # dropping a conjunct weakens: sound for satisfiability of the conjunction with the due condition
                else:
                    return None
            if conj:
                out = [([], None)]
                for alts in parts:
                    out = [(c1 + c2, n1 if n1 is not None else n2) for c1, n1 in out for c2, n2 in alts if not (n1 is not None and n2 is not None and n1 != n2)]
                return out
            out = []
            for alts in parts:
                out += alts
            return out
        if isinstance(e, ast.Compare) and len(e.ops) == 1:
            l, r, op = norm(e.left), norm(e.comparators[0]), e.ops[0]
            if l == f"{var}.ack_at" and r == "None" and isinstance(op, (ast.Is, ast.IsNot)):
                isnone = isinstance(op, ast.Is)
                return [([], isnone if p else not isnone)]
            names = {f"{var}.ack_at": "A", "now": "N"}
            if l in names and r in names:
                a, b = names[l], names[r]
                t = type(op)
                if not p:
                    t = {ast.Lt: ast.GtE, ast.LtE: ast.Gt, ast.Gt: ast.LtE, ast.GtE: ast.Lt}.get(t)
                if t is None:
                    return None
                return [([(a, t, b)], None)]
        return None

    return lit(test, pol)


def _sat_with_due(alts) -> bool:
    """is (alternative) AND (ack_at is not None AND ack_at < now) satisfiable?  (strictly overdue:
    at ack_at == now the overlap with the pacing test exists in the code but was triaged as harmless -
    the pacer grants a packet as soon as any time has elapsed since the last send, see
    findings/c12_pacing_demo.py - so demanding its absence would be a false alarm)"""
    for cons, none in alts:
        if none is True:
            continue
        s = Store()
        A, N = Lin.sym("A"), Lin.sym("N")
        s.add_lt(A, N)
        for a, t, b in cons:
            x, y = Lin.sym(a), Lin.sym(b)
            if t is ast.Lt:
                s.add_lt(x, y)
            elif t is ast.LtE:
                s.add_le(x, y)
            elif t is ast.Gt:
                s.add_lt(y, x)
            elif t is ast.GtE:
                s.add_le(y, x)
        if not s.infeasible():
            return True
    return False


def r3(repo, chk):
    # writers of ack_at = None
    for fn in _all_fns(repo):
        for st, t, v in fn.assigns(suffix="ack_at"):
            if not isinstance(t, ast.Attribute):
                continue
            if isinstance(v, ast.Constant) and v.value is None:
                if fn.qual == "QuicPacketSpace.__init__":
                    continue
                if fn.qual == "QuicConnection._write_ack_frame":
                    sf = [c for c in fn.calls(suffix="start_frame")]
                    pa = fn.calls(name="push_ack_frame")
                    ok = bool(sf) and all(fn.before(c, st) for c in sf) and bool(pa) and all(fn.before(c, st) for c in pa)
                    chk.ob("R3", "_write_ack_frame clears ack_at only after start_frame(ACK) and push_ack_frame returned", ok, "the deadline is dropped although the frame may not fit (QuicPacketBuilderStop): the pending ACK is silently lost", fn.loc(st))
                elif fn.qual == "QuicPacketRecovery.discard_space":
                    chk.ob("R3", "discard_space clears the deadline of the discarded space", True, "", fn.loc(st))
                else:
                    chk.ob("R3", f"{fn.qual}: `{norm(st)}` does not drop a pending ACK", False, "ack_at is cleared outside ACK emission / space discard", fn.loc(st))
            elif fn.qual not in ("QuicConnection.receive_datagram",):
                chk.ob("R3", f"{fn.qual}: `{norm(st)[:50]}` is the only place that arms the ACK deadline", False, "unexpected writer of ack_at", fn.loc(st))
    gt = Fn(repo, CONN + "get_timer")
    loops = [st for st in gt.stmts(lambda s: isinstance(s, ast.For)) if norm(st.iter) == "self._loss.spaces"]
    ok = False
    for l in loops:
        var = norm(l.target)
        for st, t, v in gt.assigns():
            if inside(st, l) and norm(v) == f"{var}.ack_at" and isinstance(t, ast.Name):
                res = t.id
                if all(norm(r.value) == res for r in gt.returns() if r.value is not None):
                    lg = gt.lexical_guards(st, expand=False)
                    if (f"{var}.ack_at is not None", True) in lg and any(a[0] in (f"{res} > {var}.ack_at",) and a[1] for a in lg):
                        ok = True
    chk.ob("R3", "get_timer takes the minimum over the ACK deadlines of all packet spaces", ok, "an ACK deadline is invisible to the timer: the caller is never asked to fire it", gt.loc(gt.node))
    sp = Fn(repo, "quic.recovery:QuicPacketRecovery.__init__")
    # all three spaces are in _loss.spaces
    ini = Fn(repo, CONN + "_initialize")
    ok = any(norm(v) == "list(self._spaces.values())" for st, t, v in ini.assigns(chain="self._loss.spaces"))
    chk.ob("R3", "_initialize hands every packet space to the recovery object that get_timer iterates", ok, "", ini.loc(ini.node))

    dsp = Fn(repo, "quic.recovery:QuicPacketRecovery.discard_space")
    clr = [st for st, t, v in dsp.assigns(suffix="ack_at") if isinstance(v, ast.Constant) and v.value is None and not dsp.lexical_guards(st, expand=False)]
    chk.ob("R3", "discard_space drops the ACK deadline of the space it discards (nobody can send that ACK any more)", len(clr) == 1, "a stale deadline stays visible to get_timer for the rest of the connection", dsp.loc(dsp.node))
    for name, due_kind in (("_write_application", "due"), ("_write_handshake", "set")):
        fn = Fn(repo, CONN + name)
        ws = fn.calls(name="self._write_ack_frame")
        chk.ob("R3", f"{name} writes an ACK frame", len(ws) == 1, f"{len(ws)} _write_ack_frame calls", fn.loc(fn.node))
        for w in ws:
            spv = norm(get_kw(w, "space", 1)) if get_kw(w, "space", 1) is not None else "space"
            lg = fn.lexical_guards(w, expand=False)
            mine = [a for a in lg if f"{spv}.ack_at" in a[0]]
            if due_kind == "due":
                ok = set(mine) == {(f"{spv}.ack_at is not None", True), (f"now >= {spv}.ack_at", True)}
                extra = [a for a in lg if a not in mine and a != ("self._handshake_complete", True) and a[0] != "True"]
            else:
                ok = set(mine) == {(f"{spv}.ack_at is not None", True)}
                extra = [a for a in lg if a not in mine and a[0] != "True"]
            chk.ob("R3", f"{name}: the ACK is written exactly when the deadline is {due_kind}", ok and not extra, f"guards {lg}", fn.loc(w))
            # ACK frames are not congestion controlled: no other frame writer (whose start_frame may raise
            # QuicPacketBuilderStop for lack of window) runs before the ACK in the packet being built
            loop0 = next((p for p in _ancestors(w) if isinstance(p, (ast.While, ast.For))), None)
            earlier = [c for c in fn.calls() if call_name(c).startswith("self._write_") and call_name(c).endswith("_frame") and c is not w and (c.lineno, c.col_offset) < (w.lineno, w.col_offset) and (loop0 is None or inside(c, loop0))]
            chk.ob("R3", f"{name}: the ACK frame is the first frame written into a packet", not earlier, f"{[call_name(c) for c in earlier]} run first: when the congestion window is exhausted their start_frame stops the builder and the due ACK is withheld until the window reopens", fn.loc(w))
            # nothing that leaves the loop / function may precede the ACK while it is due
            loop = next((p for p in _ancestors(w) if isinstance(p, ast.While)), None)
            exits = [s for s in fn.stmts(lambda s: isinstance(s, (ast.Break, ast.Return, ast.Continue)))]
            for e in exits:
                if loop is None or not inside(e, loop):
                    continue
                if not fn.cfg.reaches(fn.cfg.begin[loop], fn.cfg.begin[e], avoid={fn.cfg.node_of(w)}):
                    continue  # only reachable after the ACK was written in this iteration
                if e.lineno > w.lineno:
                    continue
                conds = []
                p = e
                und = True
                alts = [([], None)]
                for anc in _ancestors(e):
                    if anc is loop:
                        break
                    if isinstance(anc, ast.If):
                        pol = any(inside(e, s) or e is s for s in anc.body)
                        a2 = _cmp_store(anc.test, pol, spv)
                        if a2 is None:
                            continue
                        alts = [(c1 + c2, n1 if n1 is not None else n2) for c1, n1 in alts for c2, n2 in a2 if not (n1 is not None and n2 is not None and n1 != n2)]
                bad = _sat_with_due(alts) if due_kind == "due" else any(n is not True for c, n in alts)
                chk.ob("R3", f"{name}: the early `{type(e).__name__.lower()}` at the top of the packet loop cannot happen while an ACK is {'overdue' if due_kind == 'due' else 'pending'}", not bad, "pacing (or another early exit) can postpone an overdue ACK: its condition overlaps `ack_at is not None and ack_at < now`", fn.loc(e))
    # pacing is applied where the ACK exemption lives (_write_application): datagrams_to_send itself never gives up
    # because of the pacer, or a due ACK would wait for the pacing deadline
    ds = Fn(repo, CONN + "datagrams_to_send")
    writers = [c for c in ds.calls() if call_name(c) in ("self._write_application", "self._write_handshake")]
    if not writers:
        raise AnalysisError("datagrams_to_send: packet writers not found")
    for r in ds.returns():
        if any(ds.cfg.reaches(ds.cfg.begin[r], ds.cfg.node_of(w)) for w in writers):
            continue
        if all(ds.before(w, r) for w in writers if ds.cfg.reaches(ds.cfg.node_of(w), ds.cfg.begin[r])) and any(ds.cfg.reaches(ds.cfg.node_of(w), ds.cfg.begin[r]) for w in writers):
            continue  # after the writers ran
        at = ds.guard_atoms(r) + ds.lexical_guards(r, expand=True)
        bad = [a[0] for a in at if "pacing" in a[0] or "pacer" in a[0]]
        chk.ob("R3", "datagrams_to_send: an early return before the packet writers does not depend on the pacer", not bad, f"returns under {bad}: the exemption that lets a due ACK through pacing is in _write_application and is never reached", ds.loc(r))
    wa = Fn(repo, CONN + "_write_application")
    # the 1-RTT ACK is only sent once the handshake is complete: matches the property's scope


def _ancestors(n):
    p = getattr(n, "_parent", None)
    while p is not None:
        yield p
        p = getattr(p, "_parent", None)


def r4(repo, chk):
    pm = repo.mod("quic.packet")
    v = repo.const(pm, pm.assigns.get("NON_ACK_ELICITING_FRAME_TYPES"))
    want = {0x00, 0x02, 0x03, 0x1C, 0x1D}
    chk.ob("R4", "NON_ACK_ELICITING_FRAME_TYPES == {PADDING, ACK, ACK_ECN, CONNECTION_CLOSE(0x1c), CONNECTION_CLOSE(0x1d)}", v is not Unknown and {int(x) for x in v} == want, f"folds to {sorted(int(x) for x in v) if v is not Unknown else v}", repo.loc(pm.tree.body[0], pm))
