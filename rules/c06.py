"""C06 - the sender never exceeds the peer's flow-control and stream-count limits (claimed in part).

R1  every STREAM emission is clamped: application stream data leaves only through _write_stream_frame,
    whose max_offset is min(highest_offset + connection credit left, per-stream limit); get_frame never
    hands out bytes at or beyond max_offset and raises highest_offset only to what it hands out
R2  credit is consumed by the highest-offset delta only (retransmissions are free): the amount added to
    _remote_max_data_used is highest_offset after - before of the same stream, nobody else writes it;
    the peer's limits only ever increase after the handshake
R3  stream-count limit: a locally created stream beyond the peer's limit is marked blocked, and every
    frame that names a stream (STREAM, RESET_STREAM, STOP_SENDING) is emitted only for unblocked streams
R4  blocked data is released: _unblock_streams runs for both MAX_STREAMS handlers and at handshake
    completion, releases exactly the streams the new limit covers (the complement of the blocking
    test) and reloads their per-stream limit
"""
from __future__ import annotations

import ast

from sa.pyfacts import call_name, get_kw, norm
from sa.q import Fn, flatten_cond, inside, natom
from sa.report import AnalysisError

LEVEL = "other"
CONN = "quic.connection:QuicConnection."


def _conn_fns(repo):
    m = repo.mod("quic.connection")
    return [Fn(repo, f"quic.connection:{q}") for q in sorted(m.functions) if q.startswith("QuicConnection.") and ".<locals>." not in q]


def run(repo, chk):
    chk.rule("R1", "get_frame callers: _write_stream_frame (application streams, with max_offset) and _write_crypto_frame; max_offset = min(highest_offset + _remote_max_data - _remote_max_data_used, stream.max_stream_data_remote); get_frame clamps `stop` to max_offset before building the frame and advances highest_offset only to `stop`")
    chk.rule("R2", "_write_stream_frame returns highest_offset_after - highest_offset_before; _remote_max_data_used += that value is the only writer; _remote_max_data / max_stream_data_remote / _remote_max_streams_* are raised only under `new > old` outside the transport-parameter parser")
    chk.rule("R3", "_get_or_create_stream_for_send blocks a stream whose index >= the peer's limit; in the stream loop of _write_application the STREAM / RESET_STREAM / STOP_SENDING writers run only for streams that are not blocked")
    chk.rule("R4", "_unblock_streams: called by both MAX_STREAMS handlers (after the limit was raised) and when the handshake completes; its release test is the exact complement of the blocking test; it reloads max_stream_data_remote")
    chk.decline("the arithmetic of credit under arbitrary loss / retransmission schedules")
    r1(repo, chk)
    r2(repo, chk)
    r3(repo, chk)
    r4(repo, chk)
    r5(repo, chk)


def _branch_assigns(fn: Fn, test_text: str):
    """{True: {local: value text}, False: {...}} for the if/else that branches on `test_text` (also when it is
    written `if not <test>: ... else: ...`, or through a single-definition local)"""
    for st in fn.stmts(lambda s: isinstance(s, ast.If)):
        if not st.orelse:
            continue
        t, flip = st.test, False
        if isinstance(t, ast.UnaryOp) and isinstance(t.op, ast.Not):
            t, flip = t.operand, True
        if norm(t) == test_text or fn.expand(t, 2) == test_text:
            out = {}
            for pol, body in ((True, st.body), (False, st.orelse)):
                d = {}
                for b in body:
                    if isinstance(b, ast.Assign) and len(b.targets) == 1 and isinstance(b.targets[0], ast.Name):
                        d[b.targets[0].id] = norm(b.value)
                out[pol != flip] = d
            return st, out
    return None, None


def r5(repo, chk):
    """R5: every limit the sender obeys comes from the peer's parameter for that class of stream"""
    chk.rule("R5", "initial limits: a locally opened stream starts with the peer's initial_max_stream_data_uni / _bidi_remote, a peer-opened bidirectional stream with initial_max_stream_data_bidi_local (a peer-opened unidirectional stream cannot be written); the same mapping when streams are unblocked; the remote limits are stored from the peer's transport parameters of the same name; each MAX_* handler stores the raised value; a stream blocked by the stream-count limit is queued for release")
    want = {
        "_get_or_create_stream_for_send": ("stream_is_unidirectional(stream_id)", {True: {"max_stream_data_remote": "self._remote_max_stream_data_uni", "max_streams": "self._remote_max_streams_uni", "streams_blocked": "self._streams_blocked_uni"}, False: {"max_stream_data_remote": "self._remote_max_stream_data_bidi_remote", "max_streams": "self._remote_max_streams_bidi", "streams_blocked": "self._streams_blocked_bidi"}}),
        "_unblock_streams": ("is_unidirectional", {True: {"max_stream_data_remote": "self._remote_max_stream_data_uni", "max_streams": "self._remote_max_streams_uni", "streams_blocked": "self._streams_blocked_uni"}, False: {"max_stream_data_remote": "self._remote_max_stream_data_bidi_remote", "max_streams": "self._remote_max_streams_bidi", "streams_blocked": "self._streams_blocked_bidi"}}),
        "_get_or_create_stream": ("stream_is_unidirectional(stream_id)", {True: {"max_stream_data_remote": "0"}, False: {"max_stream_data_remote": "self._remote_max_stream_data_bidi_local"}}),
    }
    for fname, (test, table) in want.items():
        fn = Fn(repo, CONN + fname)
        st, got = _branch_assigns(fn, test)
        if st is None:
            raise AnalysisError(f"{fname}: the if/else on `{test}` that selects the limits was not found")
        for pol in (True, False):
            for local, src in table[pol].items():
                chk.ob("R5", f"{fname}: `{local}` for a {'unidirectional' if pol else 'bidirectional'} stream is {src}", got[pol].get(local) == src, f"assigned {got[pol].get(local)}: the limit of another stream class (or of the local side) would be obeyed instead of the peer's", fn.loc(st))
        # the selected locals are what the stream is built / tested / released with, and nothing reassigns them
        for local in table[True]:
            n = len(fn.assigns(chain=local))
            chk.ob("R5", f"{fname}: `{local}` is assigned only by the class selection", n == 2, f"{n} assignments", fn.loc(st))
        if fname != "_unblock_streams":
            ctor = [c for c in fn.calls(name="QuicStream")]
            ok = len(ctor) == 1 and norm(get_kw(ctor[0], "max_stream_data_remote", 99)) == "max_stream_data_remote"
            chk.ob("R5", f"{fname}: QuicStream(max_stream_data_remote=max_stream_data_remote)", ok, "the stream is not created with the selected limit", fn.loc(fn.node))
    # QuicStream stores the keyword into the field get_frame's caller reads
    qs = Fn(repo, "quic.stream:QuicStream.__init__")
    ok = any(norm(v) == "max_stream_data_remote" for st, t, v in qs.assigns(chain="self.max_stream_data_remote"))
    chk.ob("R5", "QuicStream.__init__ stores max_stream_data_remote", ok, "", qs.loc(qs.node))
    # transport parameters -> remote limit fields of the same name
    tp = Fn(repo, CONN + "_parse_transport_parameters")
    ok = False
    names = []
    for st in tp.stmts(lambda s: isinstance(s, ast.For)):
        if isinstance(st.iter, (ast.List, ast.Tuple)) and all(isinstance(e, ast.Constant) for e in st.iter.elts):
            v = st.target.id if isinstance(st.target, ast.Name) else "?"
            # value = getattr(params, "initial_" + v) [plain or walrus]; setattr(self, "_remote_" + v, value) under `value is not None`
            gets = [n for n in ast.walk(st) if isinstance(n, ast.Call) and norm(n) == f"getattr(quic_transport_parameters, 'initial_' + {v})"]
            sets = [n for n in ast.walk(st) if isinstance(n, ast.Call) and call_name(n) == "setattr" and len(n.args) == 3 and norm(n.args[0]) == "self" and norm(n.args[1]) == f"'_remote_' + {v}"]
            if len(gets) == 1 and len(sets) == 1 and isinstance(sets[0].args[2], ast.Name):
                val = sets[0].args[2].id
                holder = getattr(gets[0], "_parent", None)
                bound = (isinstance(holder, ast.Assign) and norm(holder.targets[0]) == val) or (isinstance(holder, ast.NamedExpr) and holder.target.id == val)
                lg = tp.lexical_guards(sets[0], expand=False)
                inner = [a_ for a_ in lg if a_ not in tp.lexical_guards(st, expand=False)]
                tested = inner == [(f"{val} is not None", True)] or [a_[0] for a_ in inner] == [f"({val} := {norm(gets[0])}) is not None"]
                if bound and tested:
                    names = [e.value for e in st.iter.elts]
                    ok = True
    chk.ob("R5", "_parse_transport_parameters copies initial_<x> to _remote_<x> under the same name x", ok, "the remote limit fields are no longer filled from the peer's parameter of the same name", tp.loc(tp.node))
    need = {"max_data", "max_stream_data_bidi_local", "max_stream_data_bidi_remote", "max_stream_data_uni", "max_streams_bidi", "max_streams_uni"}
    chk.ob("R5", "all six flow-control / stream-count parameters are copied", set(names) == need, f"copied: {sorted(names)}", tp.loc(tp.node))
    # each MAX_* handler stores the value it pulled (non-vacuity of the `only raises` rule R2)
    for hname, field in (("_handle_max_data_frame", "self._remote_max_data"), ("_handle_max_stream_data_frame", "stream.max_stream_data_remote"), ("_handle_max_streams_bidi_frame", "self._remote_max_streams_bidi"), ("_handle_max_streams_uni_frame", "self._remote_max_streams_uni")):
        h = Fn(repo, CONN + hname)
        ws = h.assigns(chain=field)
        ok = len(ws) == 1 and isinstance(ws[0][2], ast.Name) and "buf.pull_uint_var()" in h.expand(ws[0][2], 2)
        chk.ob("R5", f"{hname} stores the pulled value into {field}", ok, "the raised limit is dropped: data blocked by the limit is never sent", h.loc(h.node))
    hs = Fn(repo, CONN + "_handle_max_stream_data_frame")
    ok = any(norm(v).startswith("self._get_or_create_stream(") and "stream_id" in norm(v) for st, t, v in hs.assigns(chain="stream"))
    chk.ob("R5", "_handle_max_stream_data_frame updates the stream named by the frame", ok, "", hs.loc(hs.node))
    # blocked streams are queued where _unblock_streams looks for them
    g = Fn(repo, CONN + "_get_or_create_stream_for_send")
    sets = [st for st, t, v in g.assigns(chain="stream.is_blocked") if isinstance(v, ast.Constant) and v.value is True]
    ok = False
    if len(sets) == 1:
        blk = getattr(sets[0], "_parent", None)
        sib = [norm(x) for x in getattr(blk, "body", [])]
        ok = "streams_blocked.append(stream)" in sib and "self._streams_blocked_pending = True" in sib
    chk.ob("R5", "_get_or_create_stream_for_send queues a blocked stream on the list _unblock_streams drains and announces STREAMS_BLOCKED", ok, "a blocked stream that is not queued stays blocked after MAX_STREAMS", g.loc(g.node))


def r1_reset_final_size(repo, chk):
    """the final size a RESET_STREAM declares is a claim on flow-control credit like data: it may only name bytes that
    were actually sent (highest_offset, which get_frame keeps within both limits), not bytes merely written"""
    gr = Fn(repo, "quic.stream:QuicStreamSender.get_reset_frame")
    rets = [r for r in gr.returns() if isinstance(r.value, ast.Call) and call_name(r.value) == "QuicResetStreamFrame"]
    ok = len(rets) == 1 and len(gr.returns()) == 1
    fs = gr.expand(get_kw(rets[0].value, "final_size", 1)) if ok and get_kw(rets[0].value, "final_size", 1) is not None else None
    chk.ob("R1", "get_reset_frame declares the highest offset actually sent as the final size", ok and fs == "self.highest_offset", f"final_size={fs}: a reset of a stream with flow-control-blocked data claims bytes beyond the peer's limits (the peer closes with FLOW_CONTROL_ERROR) and that credit is never charged", gr.loc(gr.node))
    wr = Fn(repo, CONN + "_write_reset_stream_frame")
    pushed = [norm(c.args[0]) for c in wr.calls(suffix="push_uint_var") if c.args]
    fr = [norm(t) for st, t, v in wr.assigns() if isinstance(v, ast.Call) and call_name(v).endswith("get_reset_frame")]
    ok = len(fr) == 1 and pushed == [f"{fr[0]}.stream_id", f"{fr[0]}.error_code", f"{fr[0]}.final_size"]
    chk.ob("R1", "_write_reset_stream_frame writes the final size of the frame the sender produced", ok, f"pushed {pushed}", wr.loc(wr.node))


def r1(repo, chk):
    r1_reset_final_size(repo, chk)
    callers = []
    for m in repo.modules.values():
        if m.path.endswith(".pyi"):
            continue
        for q in m.functions:
            fn = Fn(repo, f"{m.name}:{q}")
            for c in fn.calls(suffix="get_frame"):
                if "sender" in call_name(c):
                    callers.append((fn, c))
    names = sorted(f.qual.split(".")[-1] for f, c in callers)
    chk.ob("R1", "sender.get_frame is called only by the STREAM and CRYPTO frame writers", names == ["_write_crypto_frame", "_write_stream_frame"], f"{names}", "")
    ws = Fn(repo, CONN + "_write_stream_frame")
    gf = [c for c in ws.calls(suffix="get_frame")]
    ok = len(gf) == 1 and len(gf[0].args) == 2 and norm(gf[0].args[1]) == "max_offset" and "max_offset" in [a.arg for a in ws.node.args.args]
    chk.ob("R1", "_write_stream_frame passes its max_offset bound to get_frame", ok, "application data is requested without the flow-control bound", ws.loc(ws.node))
    wa = Fn(repo, CONN + "_write_application")
    cs = wa.calls(name="self._write_stream_frame")
    chk.ob("R1", "_write_stream_frame has a single call site (the stream loop of _write_application)", len(cs) == 1 and not [f.qual for f in _conn_fns(repo) if f.qual != "QuicConnection._write_application" and f.calls(name="self._write_stream_frame")], "", wa.loc(wa.node))
    for c in cs:
        mo = get_kw(c, "max_offset", 3)
        ok = False
        if isinstance(mo, ast.Call) and call_name(mo) == "min" and len(mo.args) == 2:
            # hoisted single-definition locals are read through - but only those computed in the same trip round the
            # stream loop as the call: a value computed before the loop is stale after the first stream was served
            stale = set()
            for x in mo.args:
                for nm in ast.walk(x):
                    if isinstance(nm, ast.Name):
                        for st_, t_, v_ in wa.assigns(chain=nm.id):
                            if _innermost_loop(st_) is not _innermost_loop(c):
                                stale.add(nm.id)
            args = [wa._expand(x, 4, set(stale)) for x in mo.args]
            a = {norm(x) for x in args}
            st = norm(get_kw(c, "stream", 2))
            conn_ok = any(_is_conn_credit(x, st) for x in args)
            ok = f"{st}.max_stream_data_remote" in a and conn_ok
        chk.ob("R1", "max_offset = min(highest_offset + connection credit left, per-stream limit)", ok, f"max_offset expression `{norm(mo) if mo is not None else None}`", wa.loc(c))
    g = Fn(repo, "quic.stream:QuicStreamSender.get_frame")
    frames = [c for c in g.calls(name="QuicStreamFrame") if get_kw(c, "data") is not None]
    clamps = [st for st, t, v in g.assigns(chain="stop") if norm(v) == "max_offset"]
    ok = len(clamps) == 1 and bool(frames)
    top = None
    if ok:
        lg = g.lexical_guards(clamps[0], expand=False)
        top = clamps[0]
        while getattr(top, "_parent", None) is not None and top._parent is not g.node:
            top = top._parent  # the whole (possibly nested) conditional the clamp sits in
        ok = ("max_offset is not None", True) in lg and natom("stop > max_offset") in lg and len(lg) == 2 and all(g.before(top, f) for f in frames)
    chk.ob("R1", "get_frame lowers `stop` to max_offset before any frame is built", ok, "data beyond the peer's limit can be framed", g.loc(g.node))
    for f in frames:
        d = norm(get_kw(f, "data"))
        ok = "stop - self._buffer_start" in d and "start - self._buffer_start" in d
        chk.ob("R1", "the frame carries exactly the bytes [start, stop)", ok, f"data `{d[:80]}`", g.loc(f))
    hs = [(st, v) for st, t, v in g.assigns(chain="self.highest_offset")]
    ok = bool(hs) and all(norm(v) == "stop" and natom("stop > self.highest_offset") in g.lexical_guards(st, expand=False) and all(g.before(top if top is not None else c._parent, st) for c in clamps) for st, v in hs)
    chk.ob("R1", "get_frame advances highest_offset only to the clamped `stop`", ok, "", g.loc(g.node))
    others = []
    for m in repo.modules.values():
        for q in m.functions:
            fn = Fn(repo, f"{m.name}:{q}")
            for st, t, v in fn.assigns(suffix="highest_offset"):
                if isinstance(t, ast.Attribute) and fn.qual.startswith("QuicStreamSender.") and fn.qual not in ("QuicStreamSender.__init__", "QuicStreamSender.get_frame"):
                    others.append(fn.qual)
    chk.ob("R1", "QuicStreamSender.highest_offset has no other writer", not others, f"{others}", "")


def _innermost_loop(n):
    p = getattr(n, "_parent", None)
    while p is not None:
        if isinstance(p, (ast.For, ast.While)):
            return p
        p = getattr(p, "_parent", None)
    return None


def _is_conn_credit(e, st) -> bool:
    """e == <st>.sender.highest_offset + self._remote_max_data - self._remote_max_data_used (any order)"""
    pos, neg = [], []

    def walk(x, sign):
        if isinstance(x, ast.BinOp) and isinstance(x.op, ast.Add):
            walk(x.left, sign)
            walk(x.right, sign)
        elif isinstance(x, ast.BinOp) and isinstance(x.op, ast.Sub):
            walk(x.left, sign)
            walk(x.right, -sign)
        else:
            (pos if sign > 0 else neg).append(norm(x))

    walk(e, 1)
    return sorted(pos) == sorted([f"{st}.sender.highest_offset", "self._remote_max_data"]) and neg == ["self._remote_max_data_used"]


def r2(repo, chk):
    ws = Fn(repo, CONN + "_write_stream_frame")
    prev = [(st, v) for st, t, v in ws.assigns(chain="previous_send_highest")]
    gf = ws.calls(suffix="get_frame")
    rets = [r for r in ws.returns() if r.value is not None]
    ok = len(prev) == 1 and norm(prev[0][1]) == "stream.sender.highest_offset" and bool(gf) and ws.before(prev[0][0], gf[0])
    chk.ob("R2", "_write_stream_frame samples the highest offset before asking for a frame", ok, "", ws.loc(ws.node))
    ok = bool(rets) and all(norm(r.value) in ("stream.sender.highest_offset - previous_send_highest", "0") for r in rets) and any(norm(r.value) != "0" for r in rets)
    chk.ob("R2", "_write_stream_frame reports the highest-offset delta (0 for retransmissions)", ok, f"returns {[norm(r.value) for r in rets]}: credit would be charged by frame length (retransmissions consume credit) or not at all (new bytes after a retransmitted prefix are free)", ws.loc(ws.node))
    wa = Fn(repo, CONN + "_write_application")
    used = [(st, v) for st, t, v in wa.assigns(chain="self._remote_max_data_used")]
    ok = len(used) == 1 and isinstance(used[0][0], ast.AugAssign) and isinstance(used[0][0].op, ast.Add)
    if ok:
        src = wa.local_defs(norm(used[0][1]))
        ok = len(src) == 1 and isinstance(src[0], ast.Call) and call_name(src[0]) == "self._write_stream_frame"
        call = src[0] if ok else None
        st = used[0][0]
        ok = ok and not [a for a in wa.lexical_guards(st, expand=False) if a not in wa.lexical_guards(call, expand=False)]
    chk.ob("R2", "_write_application charges exactly the value returned by _write_stream_frame, unconditionally", ok, "", wa.loc(wa.node))
    w = []
    for fn in _conn_fns(repo):
        for st, t, v in fn.assigns(chain="self._remote_max_data_used"):
            if fn.qual not in ("QuicConnection.__init__", "QuicConnection._write_application"):
                w.append(fn.qual)
    chk.ob("R2", "_remote_max_data_used has no other writer", not w, f"{w}", "")
    # limits only increase
    for fn in _conn_fns(repo):
        if fn.qual in ("QuicConnection.__init__", "QuicConnection._parse_transport_parameters"):
            continue
        for field in ("self._remote_max_data", "self._remote_max_streams_bidi", "self._remote_max_streams_uni", "stream.max_stream_data_remote"):
            for st, t, v in fn.assigns(chain=field):
                if fn.qual == "QuicConnection._unblock_streams" and field == "stream.max_stream_data_remote":
                    continue  # R4: reload of the initial limit for a stream that was never opened
                at = fn.guard_atoms(st)
                ok = isinstance(v, ast.Name) and natom(f"{v.id} > {field}") in at
                chk.ob("R2", f"{fn.qual.split('.')[-1]}: `{norm(st)}` only ever raises the peer's limit", ok, f"guards {at}: a reordered or replayed frame could lower the limit below what was already sent", fn.loc(st))


def r3(repo, chk):
    g = Fn(repo, CONN + "_get_or_create_stream_for_send")
    sets = [st for st, t, v in g.assigns(chain="stream.is_blocked") if isinstance(v, ast.Constant) and v.value is True]
    ok = len(sets) == 1
    block_atom = None
    if ok:
        lg = g.lexical_guards(sets[0], expand=True)
        cand = [a for a in lg if "max_streams" in a[0]]
        ok = len(cand) == 1 and cand[0] == natom("stream_id // 4 >= max_streams")
        block_atom = cand[0] if cand else None
    chk.ob("R3", "_get_or_create_stream_for_send marks a stream blocked when its index >= the peer's stream limit", ok, f"blocking test {block_atom}", g.loc(g.node))
    kinds = {norm(v) for st, t, v in g.assigns(chain="max_streams")}
    chk.ob("R3", "the limit used is the peer's uni / bidi stream limit for the stream's kind", kinds == {"self._remote_max_streams_uni", "self._remote_max_streams_bidi"}, f"{sorted(kinds)}", g.loc(g.node))
    wa = Fn(repo, CONN + "_write_application")
    n = 0
    for name in ("self._write_stream_frame", "self._write_reset_stream_frame", "self._write_stop_sending_frame"):
        for c in wa.calls(name=name):
            n += 1
            st = norm(get_kw(c, "stream", 2 if name.endswith("_stream_frame") and "reset" not in name else 1))
            at = wa.guard_atoms(c)
            ok = (f"{st}.is_blocked", False) in at
            chk.ob("R3", f"_write_application: `{name.split('.')[-1]}` runs only for a stream that is not blocked by the peer's stream limit", ok, "a frame naming a stream beyond the peer's MAX_STREAMS is put on the wire: the peer closes with STREAM_LIMIT_ERROR", wa.loc(c))
    if n < 3:
        raise AnalysisError("_write_application: stream frame writers not found")
    # no other function emits frames for application streams
    for fn in _conn_fns(repo):
        if fn.qual == "QuicConnection._write_application":
            continue
        bad = [c for c in fn.calls() if call_name(c) in ("self._write_stream_frame", "self._write_reset_stream_frame", "self._write_stop_sending_frame")]
        chk.ob("R3", f"{fn.qual.split('.')[-1]} does not emit stream frames outside the guarded loop", not bad, "", fn.loc(fn.node)) if bad else None
    return block_atom


def r4(repo, chk):
    u = Fn(repo, CONN + "_unblock_streams")
    loops = [st for st in u.stmts(lambda s: isinstance(s, ast.While))]
    ok = len(loops) == 1
    if ok:
        body_stmts = [s for s in u.stmts() if inside(s, loops[0])]
        txt = [norm(s) for s in body_stmts]
        pops = [s for s in body_stmts if norm(s) == "stream = streams_blocked.pop(0)"]
        ok = len(pops) == 1 and "stream.is_blocked = False" in txt and "stream.max_stream_data_remote = max_stream_data_remote" in txt
        if ok:
            # the release is dominated by: list non-empty, first blocked stream's index below the limit - whether that
            # is written in the loop test or as `if ...: break` inside the loop (complement of the blocking test)
            at = [(a_[0].replace("streams_blocked[0].stream_id", "stream_id"), a_[1]) for a_ in u.guard_atoms(pops[0])]
            ok = ("streams_blocked", True) in at and natom("stream_id // 4 < max_streams") in at
            rel = [s for s in body_stmts if norm(s) in ("stream.is_blocked = False", "stream.max_stream_data_remote = max_stream_data_remote")]
            ok = ok and all(u.lexical_guards(s, expand=False) == u.lexical_guards(pops[0], expand=False) and s.lineno > pops[0].lineno for s in rel)
    chk.ob("R4", "_unblock_streams releases exactly the blocked streams whose index is below the new limit (complement of the blocking test), in order, and reloads their per-stream limit", ok, "a stream at index == limit would be opened (one beyond the peer's limit) or a covered stream stays blocked for ever", u.loc(u.node))
    kinds = {norm(v) for st, t, v in u.assigns(chain="max_streams")}
    chk.ob("R4", "_unblock_streams compares with the limit of the right kind", kinds == {"self._remote_max_streams_uni", "self._remote_max_streams_bidi"}, "", u.loc(u.node))
    for hname, field, uni in (("_handle_max_streams_bidi_frame", "self._remote_max_streams_bidi", "False"), ("_handle_max_streams_uni_frame", "self._remote_max_streams_uni", "True")):
        h = Fn(repo, CONN + hname)
        cs = h.calls(name="self._unblock_streams")
        ws = [st for st, t, v in h.assigns(chain=field)]
        ok = len(cs) == 1 and len(ws) == 1 and h.before(ws[0], cs[0]) and norm(get_kw(cs[0], "is_unidirectional", 0)) == uni
        chk.ob("R4", f"{hname} raises the limit and then releases the streams it covers", ok, "", h.loc(h.node))
    hc = Fn(repo, CONN + "_handle_crypto_frame")
    cs = hc.calls(name="self._unblock_streams")
    kinds = sorted(norm(get_kw(c, "is_unidirectional", 0)) for c in cs)
    chk.ob("R4", "streams created before the peer's limits were known are released when the handshake completes", kinds == ["False", "True"], f"{kinds}", hc.loc(hc.node))
    # data blocked by flow control: the stream stays in the queue (buffer_is_empty False) - nothing to release explicitly
    g = Fn(repo, "quic.stream:QuicStreamSender.get_frame")
    rets_none = [r for r in g.returns() if r.value is None or (isinstance(r.value, ast.Constant) and r.value.value is None)]
    setters = [st for st, t, v in g.assigns(chain="self.buffer_is_empty") if isinstance(v, ast.Constant) and v.value is True]
    def _in_index_error_handler(st):
        p = getattr(st, "_parent", None)
        while p is not None and p is not g.node:
            if isinstance(p, ast.ExceptHandler) and p.type is not None and "IndexError" in norm(p.type):
                return True
            p = getattr(p, "_parent", None)
        return False

    ok = bool(setters) and all(_in_index_error_handler(st) for st in setters)
    chk.ob("R4", "get_frame declares the buffer empty only when nothing is pending (a frame withheld by a limit leaves the stream scheduled)", ok, "", g.loc(g.node))
