"""Facts about tls.Context shared by C11 and C03: the dispatch table, the
transition graph and the authentication guards."""
from __future__ import annotations

import ast

from sa.pyfacts import Unknown, attr_chain, call_name, norm, stmts_of
from sa.q import Fn, flatten_cond, inside, raise_class
from sa.report import AnalysisError

TLS = "tls"
CTX = "tls:Context."


def A(text: str, pol: bool = True):
    """normalised guard atom from source text, e.g. A('a != b', False) -> ('a == b', True)"""
    e = ast.parse(text, mode="eval").body
    atoms = flatten_cond(e, pol)
    if len(atoms) != 1:
        raise ValueError(text)
    return atoms[0]


def enum(repo, name):
    m = repo.mod(TLS)
    if name not in m.classes:
        raise AnalysisError(f"tls:{name} enum not found")
    return repo.enum_members(m, m.classes[name])


class Dispatch:
    """Abstract evaluation of Context._handle_reassembled_message for every
    (state, message type) pair."""

    def __init__(self, repo):
        self.repo = repo
        self.fn = Fn(repo, CTX + "_handle_reassembled_message")
        self.states = enum(repo, "State")
        self.types = enum(repo, "HandshakeType")
        if len(self.states) < 2 or len(self.types) < 2:
            raise AnalysisError("State / HandshakeType enums could not be folded")
        self.table = {}  # (state name, type name | '<other>') -> dict(calls=[...], effects=[...], end='raise:X'|'fallthrough'|'return')
        tnames = list(self.types) + ["<other>"]
        for s in self.states:
            for t in tnames:
                self.table[(s, t)] = self._eval(s, t)

    def _decide(self, test, s, t):
        """True/False/None for the tests the dispatcher may use"""
        if isinstance(test, ast.BoolOp):
            vals = [self._decide(v, s, t) for v in test.values]
            if isinstance(test.op, ast.And):
                if any(v is False for v in vals):
                    return False
                return True if all(v is True for v in vals) else None
            if any(v is True for v in vals):
                return True
            return False if all(v is False for v in vals) else None
        if isinstance(test, ast.UnaryOp) and isinstance(test.op, ast.Not):
            v = self._decide(test.operand, s, t)
            return None if v is None else not v
        if isinstance(test, ast.Compare) and len(test.ops) == 1:
            l, r, op = test.left, test.comparators[0], test.ops[0]

            def val(e):
                if attr_chain(e) == "self.state":
                    return ("state", s)
                if isinstance(e, ast.Name) and e.id == "message_type":
                    return ("type", t)
                c = attr_chain(e)
                if c and c.startswith("State.") and c[6:] in self.states:
                    return ("state", c[6:])
                if c and c.startswith("HandshakeType.") and c[14:] in self.types:
                    return ("type", c[14:])
                if isinstance(e, (ast.Tuple, ast.List, ast.Set)):
                    vs = [val(x) for x in e.elts]
                    if all(v is not None for v in vs):
                        return ("set", vs)
                return None

            a, b = val(l), val(r)
            if a is None or b is None:
                return None
            if isinstance(op, (ast.Eq, ast.Is)):
                return a == b
            if isinstance(op, (ast.NotEq, ast.IsNot)):
                return a != b
            if isinstance(op, ast.In) and b[0] == "set":
                return a in b[1]
            if isinstance(op, ast.NotIn) and b[0] == "set":
                return a not in b[1]
        return None

    def _eval(self, s, t):
        res = {"calls": [], "effects": [], "end": "fallthrough"}

        def run(stmts):
            for st in stmts:
                if isinstance(st, ast.If):
                    d = self._decide(st.test, s, t)
                    if d is None:
                        raise AnalysisError(f"tls dispatch: undecidable test `{norm(st.test)}` at {self.fn.loc(st)}")
                    if run(st.body if d else st.orelse):
                        return True
                elif isinstance(st, ast.Raise):
                    res["end"] = "raise:" + str(raise_class(st))
                    return True
                elif isinstance(st, ast.Return):
                    res["end"] = "return"
                    return True
                elif isinstance(st, ast.Expr) and isinstance(st.value, ast.Call):
                    res["calls"].append((call_name(st.value), st.value))
                elif isinstance(st, ast.Assert):
                    res["effects"].append("assert " + norm(st.test))
                elif isinstance(st, ast.Expr) and isinstance(st.value, ast.Constant):
                    pass
                elif isinstance(st, ast.Pass):
                    pass
                else:
                    res["effects"].append(norm(st))
            return False

        run(self.fn.node.body)
        return res

    def accepted(self):
        """{(state, type): handler method name}"""
        out = {}
        for (s, t), r in self.table.items():
            hs = [c for c, _ in r["calls"] if c.startswith("self.")]
            if hs and not r["end"].startswith("raise"):
                out[(s, t)] = hs
        return out


def handler_fn(repo, callee: str) -> Fn:
    return Fn(repo, CTX + callee.split(".", 1)[1])


def set_state_edges(repo, fn: Fn, depth: int = 2):
    """[(target state, guard atoms, call node, via)] for fn, following self-method helpers"""
    out = []
    for c in fn.calls(name="self._set_state"):
        if c.args:
            tgt = attr_chain(c.args[0]) or norm(c.args[0])
            out.append((tgt.replace("State.", ""), fn.guard_atoms_x(c), c, fn.qual))
    if depth:
        for c in fn.calls():
            cn = call_name(c)
            if cn.startswith("self._") and cn not in ("self._set_state",) and repo.has_func(CTX + cn[5:]):
                sub = Fn(repo, CTX + cn[5:])
                if sub.node is fn.node:
                    continue
                for tgt, atoms, node, via in set_state_edges(repo, sub, depth - 1):
                    out.append((tgt, fn.guard_atoms_x(c) + atoms, c, via))
    return out


def key_releases(repo, fn: Fn):
    """[(direction, epoch, node)] for _setup_traffic_protection / update_traffic_key_cb calls in fn"""
    out = []
    for c in fn.calls():
        cn = call_name(c)
        if cn in ("self._setup_traffic_protection", "self.update_traffic_key_cb") and len(c.args) >= 2:
            d = (attr_chain(c.args[0]) or norm(c.args[0])).replace("Direction.", "")
            e = (attr_chain(c.args[1]) or norm(c.args[1])).replace("Epoch.", "")
            out.append((d, e, c))
    return out


def failing_test(fn: Fn, atom):
    """the If statement(s) whose body raises and whose test, when True, contains `atom`
    (i.e. `if <atom or ...>: raise ...`).  Returns list of If statements."""
    out = []
    for st in fn.stmts(lambda s: isinstance(s, ast.If)):
        if not any(isinstance(x, ast.Raise) for x in st.body):
            continue
        # atoms that hold on the *false* edge
        f_atoms = flatten_cond(st.test, False)
        neg = (atom[0], atom[1])
        if neg in f_atoms:
            out.append(st)
    return out
