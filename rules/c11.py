"""C11 - TLS handshake messages are accepted only in protocol order.

R1  dispatch table == RFC 8446 automaton (exhaustive over states x message types)
R2  transition graph == reference edges, with the guards that authorise the
    shortcut edges; `state` has a single writer
R3  no Finished without CertificateVerify unless PSK: typestate over the
    extracted graph + authenticated writers of `_session_resumed`
R4  traffic keys are released only after the authenticating comparison
"""
from __future__ import annotations

import ast
import json
import os

from sa.pyfacts import attr_chain, call_name, norm
from sa.q import Fn, flatten_cond, raise_class
from sa.report import VERIF, AnalysisError

from . import tlsfacts as T
from .tlsfacts import A

LEVEL = "other"


def load_ref():
    with open(os.path.join(VERIF, "reference", "tls13_automaton.json")) as fp:
        return json.load(fp)


def run(repo, chk):
    ref = load_ref()
    chk.rule("R1", "for every (State, HandshakeType) pair the dispatcher either calls exactly the handler the RFC 8446 automaton allows or raises AlertUnexpectedMessage without any call/assignment before; exhaustive abstract evaluation of _handle_reassembled_message")
    chk.rule("R2", "the set of _set_state targets reachable from each accepted (state, message) equals the reference edge set; shortcut edges carry exactly the authorising guard; Context.state is written only by _set_state/__init__")
    chk.rule("R3", "every path CLIENT_EXPECT_SERVER_HELLO -> CLIENT_POST_HANDSHAKE passes the CertificateVerify handler (signature check dominates the transition) or the edge guarded by _session_resumed; _session_resumed is only ever assigned the constant True under its authenticating test")
    chk.rule("R4", "1-RTT keys and POST_HANDSHAKE transitions are dominated by the failing edge of the Finished comparison; the 0-RTT decrypt key by the binder comparison; the CertificateVerify transition by the signature and certificate checks")
    chk.trust("reference/tls13_automaton.json transcribed from RFC 8446 section 2 and appendix A.1/A.2")
    chk.decline("behaviour of a key-holding adversary as a dynamic claim (decided here only in its structural form R3)")

    client_auth_agreement(repo, chk)
    d = T.Dispatch(repo)
    chk.count("states", len(d.states))
    chk.count("message_types", len(d.types))
    chk.count("pairs_evaluated", len(d.table))
    accepted_ref = {(s, t): h for s, ts in ref["accept"].items() for t, h in ts.items()}

    # anchors: reference names must exist in the code's enums, every enum member must be known to the reference
    for s in d.states:
        chk.ob("R1", f"state {s} known to the reference automaton", s in ref["states"], "State member without a reference entry (new state?)", d.fn.loc(d.fn.node))
    for s in ref["states"]:
        if s not in d.states:
            raise AnalysisError(f"reference state {s} not in tls.State")

    # ---- R1 -------------------------------------------------------------------
    for (s, t), r in sorted(d.table.items()):
        key = f"dispatch[{s}, {t}]"
        handlers = [c for c, _ in r["calls"] if c.startswith("self.")]
        if s == ref["start_state_handled_outside"]:
            # CLIENT_HANDSHAKE_START never reaches the dispatcher (checked below)
            continue
        if (s, t) in accepted_ref:
            want = "self." + accepted_ref[(s, t)]
            ok = handlers == [want] and not r["end"].startswith("raise") and not [e for e in r["effects"] if not e.startswith("assert ")]
            chk.ob("R1", key, ok, f"expected exactly one call to {want}, got calls={handlers} end={r['end']} effects={r['effects']}", d.fn.loc(d.fn.node))
        else:
            ok = r["end"] == "raise:AlertUnexpectedMessage" and not r["calls"] and not r["effects"]
            chk.ob("R1", key, ok, f"must refuse with AlertUnexpectedMessage and no effect; got calls={[c for c, _ in r['calls']]} effects={r['effects']} end={r['end']}", d.fn.loc(d.fn.node))

    # CLIENT_HANDSHAKE_START consumes no peer bytes: handle_message returns before touching the buffer
    hm = Fn(repo, T.CTX + "handle_message")
    buf_writes = [st for st, t, v in hm.assigns(chain="self._receive_buffer")]
    if not buf_writes:
        raise AnalysisError("handle_message: _receive_buffer accumulation not found")
    for st in buf_writes:
        atoms = hm.guard_atoms(st)
        chk.ob("R1", f"handle_message: `{norm(st)[:50]}` unreachable in CLIENT_HANDSHAKE_START", A("self.state == State.CLIENT_HANDSHAKE_START", False) in atoms, f"peer bytes are consumed while the client has not sent its hello; guards={atoms}", hm.loc(st))
    disp_calls = hm.calls(name="self._handle_reassembled_message")
    for c in disp_calls:
        atoms = hm.guard_atoms(c)
        chk.ob("R1", "handle_message: dispatcher unreachable in CLIENT_HANDSHAKE_START", A("self.state == State.CLIENT_HANDSHAKE_START", False) in atoms, f"guards={atoms}", hm.loc(c))
    # handlers parse the message type they are registered for
    for (s, t), hs in sorted(d.accepted().items()):
        if (s, t) not in accepted_ref:
            continue
        h = T.handler_fn(repo, hs[0])
        want_pull = "pull_" + t.lower()
        pulls = [call_name(c) for c in h.calls() if call_name(c).startswith("pull_")]
        chk.ob("R1", f"{h.qual} parses {t}", want_pull in pulls, f"handler registered for {t} calls {pulls}", h.loc(h.node))

    transitions_and_typestate(repo, chk, d, ref)
    m = repo.mod("tls")

    # ---- R4 -------------------------------------------------------------------
    for spec in ref["key_release"]:
        f = Fn(repo, T.CTX + spec["function"])
        rel = [(dd, e, n) for dd, e, n in T.key_releases(repo, f) if dd == spec["direction"] and e == spec["epoch"]]
        if not rel:
            chk.ob("R4", f"{spec['function']}: releases {spec['direction']}/{spec['epoch']}", False, "expected key release not found in this handler", f.loc(f.node))
            continue
        g = spec["after_failing"]
        for dd, e, n in rel:
            atoms = f.guard_atoms_x(n)
            chk.ob("R4", f"{spec['function']}: {dd}/{e} key released only after the comparison {g['contains']} succeeded", bool(Fn.find_guards(atoms, g["op"], g["holds"], g["contains"])), f"path condition {atoms}", f.loc(n))
    transitions_after(repo, chk, ref, "R4")
    # the server's expected Finished value has a single, transcript-derived source
    evd = []
    for q in m.functions:
        if q.startswith("Context."):
            f = Fn(repo, "tls:" + q)
            for st, tgt, v in f.assigns(chain="self._expected_verify_data"):
                evd.append((f, st, v))
    if not evd:
        raise AnalysisError("no writer of Context._expected_verify_data found")
    for f, st, v in evd:
        ok = v is not None and "finished_verify_data(" in f.expand(v, 4) and "self._dec_key" in f.expand(v, 4)
        chk.ob("R4", f"{f.qual}: `_expected_verify_data` derives from finished_verify_data(self._dec_key)", ok, f"assigned {norm(v) if v is not None else None}", f.loc(st))
    # connection._update_traffic_key only installs keys
    uk = Fn(repo, "quic.connection:QuicConnection._update_traffic_key")
    setups = uk.calls(suffix="setup")
    chk.ob("R4", "connection._update_traffic_key installs keys through crypto.{send,recv}.setup", len(setups) >= 2, f"setup calls: {[norm(c.func) for c in setups]}", uk.loc(uk.node))


def client_auth_agreement(repo, chk, R2="R2"):
    """when the server put a CertificateRequest into its flight it goes on to expect the client's Certificate:
    on no path that sent the request is another state entered (paths contradicting the condition under which the
    request was sent are pruned)"""
    sh = Fn(repo, "tls:Context._server_handle_hello")
    reqs = sh.calls(name="push_certificate_request")
    if len(reqs) != 1:
        raise AnalysisError("_server_handle_hello: push_certificate_request call not found")
    cfg = sh.cfg
    assume = [a for a in sh.guard_atoms(reqs[0]) if not a[0].startswith("(")]
    writes = [norm(st) for st, t, v in sh.assigns() if isinstance(t, ast.Attribute) and norm(t) in {a[0] for a in assume} | {"self._request_client_certificate"}]
    others = []
    for c in sh.calls():
        cn = call_name(c)
        if cn == "self._server_expect_finished" or (cn == "self._set_state" and c.args and norm(c.args[0]) != "State.SERVER_EXPECT_CERTIFICATE"):
            if sh.reaches_assuming(cfg.done_of(reqs[0]), cfg.node_of(c), assume):
                others.append(norm(c)[:50])
    exp = [c for c in sh.calls(name="self._set_state") if c.args and norm(c.args[0]) == "State.SERVER_EXPECT_CERTIFICATE"]
    ok = not others and bool(exp) and not writes and any(sh.reaches_assuming(cfg.done_of(reqs[0]), cfg.node_of(c), assume) for c in exp)
    chk.ob(R2, "_server_handle_hello: a flight that carries a CertificateRequest is followed by SERVER_EXPECT_CERTIFICATE on every path", ok, f"after the request was sent (under {assume}) the handler can continue with {others}: the client's Finished is accepted without the requested Certificate / CertificateVerify", sh.loc(reqs[0]))


def transitions_after(repo, chk, ref, R4="R4"):
    """every state transition of an authenticating handler is dominated by its verification (shared with C03-R1)"""
    for spec in ref["transition_after"]:
        f = Fn(repo, T.CTX + spec["function"])
        sets = [c for c in f.calls(name="self._set_state")] + [c for c in f.calls() if call_name(c) in spec.get("or_calls", [])]
        if not sets:
            chk.ob(R4, f"{spec['function']}: transition present", False, "no _set_state in handler", f.loc(f.node))
        for c in sets:
            if "after_failing" in spec:
                g = spec["after_failing"]
                atoms = f.guard_atoms_x(c)
                chk.ob(R4, f"{spec['function']}: `{norm(c)[:60]}` only after the comparison {g['contains']} succeeded", bool(Fn.find_guards(atoms, g["op"], g["holds"], g["contains"])), f"path condition {atoms}", f.loc(c))
            for callee in spec.get("after_calls", []):
                cs = f.calls(name=callee["name"])
                if not cs:
                    chk.ob(R4, f"{spec['function']}: calls {callee['name']}", False, "verification call vanished", f.loc(f.node))
                    continue
                for v in cs:
                    ok = f.before(v, c)
                    if not ok and "unless" in callee:
                        # the call may be skipped only under the stated configuration guard
                        u = callee["unless"]
                        g = [(t, p, st) for t, p, st in f.guards(v) if Fn.find_guards(flatten_cond(t, p), u["op"], u["holds"], u["contains"])]
                        others = [x for x in f.guards(v) if x not in g]
                        ok = bool(g) and not others and all(f.cfg.dominates(f.cfg.done[st], f.cfg.node_of(c)) for t, p, st in g)
                    chk.ob(R4, f"{spec['function']}: {callee['name']} completes before `{norm(c)[:50]}`", ok, "transition reachable without the verification call having returned normally", f.loc(c))


def transitions_and_typestate(repo, chk, d, ref, R2="R2", R3="R3"):
    accepted_ref = {(s, t): h for s, ts in ref["accept"].items() for t, h in ts.items()}
    m = repo.mod("tls")
    # ---- R2 -------------------------------------------------------------------
    edges_ref = ref["edges"]
    seen_edges = {}
    for (s, t), hs in sorted(d.accepted().items()):
        if (s, t) not in accepted_ref:
            continue
        h = T.handler_fn(repo, hs[0])
        got = T.set_state_edges(repo, h)
        want = edges_ref.get(f"{s}/{t}", {})
        got_targets = sorted({g[0] for g in got})
        chk.ob(R2, f"edges[{s}/{t}] targets", got_targets == sorted(want), f"transition targets {got_targets}, reference {sorted(want)}", h.loc(h.node))
        for tgt, atoms, node, via in got:
            seen_edges.setdefault(s, set()).add(tgt)
            need = want.get(tgt)
            if need is None:
                continue
            missing = [g for g in need.get("guards", []) if not Fn.find_guards(atoms, g["op"], g["holds"], g["contains"])]
            chk.ob(R2, f"edge {s}/{t} -> {tgt} guards (via {via})", not missing, f"authorising guard(s) {missing} not on the path; path condition {atoms}", h.loc(node))
    # the start edge
    sh = Fn(repo, T.CTX + "_client_send_hello")
    tg = sorted({e[0] for e in T.set_state_edges(repo, sh)})
    chk.ob(R2, "edges[CLIENT_HANDSHAKE_START] targets", tg == ["CLIENT_EXPECT_SERVER_HELLO"], f"got {tg}", sh.loc(sh.node))
    # single writer of Context.state
    writers = []
    m = repo.mod("tls")
    for q, fnode in m.functions.items():
        if not q.startswith("Context."):
            continue
        f = Fn(repo, "tls:" + q)
        for st, tgt, v in f.assigns(chain="self.state"):
            writers.append(q)
    chk.ob(R2, "Context.state writers", set(writers) <= {"Context.__init__", "Context._set_state"} and "Context._set_state" in writers, f"writers: {sorted(set(writers))}", repo.loc(m.classes["Context"], m))
    # every _set_state call in the class is accounted for by an accepted handler or the start edge
    accounted = {T.handler_fn(repo, hs[0]).qual for hs in d.accepted().values()} | {"Context._client_send_hello", "Context._server_expect_finished"}
    for q in m.functions:
        if q.startswith("Context.") and q not in ("Context._set_state",):
            f = Fn(repo, "tls:" + q)
            for c in f.calls(name="self._set_state"):
                chk.ob(R2, f"{q}: `{norm(c)}` belongs to a dispatched handler", q in accounted, "state transition outside the dispatched handlers", f.loc(c))

    # ---- R3 -------------------------------------------------------------------
    # typestate: remove the CertificateVerify handler's edge and the resumed edge; POST_HANDSHAKE must become unreachable
    graph = {}
    for (s, t), hs in d.accepted().items():
        h = T.handler_fn(repo, hs[0])
        for tgt, atoms, node, via in T.set_state_edges(repo, h):
            graph.setdefault(s, []).append((tgt, t, atoms))

    def reach(start, goal, drop):
        seen, work = {start}, [start]
        while work:
            x = work.pop()
            if x == goal:
                return True
            for tgt, t, atoms in graph.get(x, []):
                if drop(x, t, tgt, atoms):
                    continue
                if tgt not in seen:
                    seen.add(tgt)
                    work.append(tgt)
        return False

    ok = not reach("CLIENT_EXPECT_SERVER_HELLO", "CLIENT_POST_HANDSHAKE", lambda x, t, tgt, atoms: t == "CERTIFICATE_VERIFY" or bool(Fn.find_guards(atoms, "truth", True, ["self._session_resumed"])) and len([a for a in atoms if "_session_resumed" in a[0]]) == len(Fn.find_guards(atoms, "truth", True, ["self._session_resumed"])))
    chk.ob(R3, "client: every path to CLIENT_POST_HANDSHAKE passes CertificateVerify or the resumed edge", ok, "a path to CLIENT_POST_HANDSHAKE avoids both the CertificateVerify handler and the _session_resumed-guarded edge", d.fn.loc(d.fn.node))
    ok = reach("CLIENT_EXPECT_SERVER_HELLO", "CLIENT_POST_HANDSHAKE", lambda *a: False)
    chk.ob(R3, "client: CLIENT_POST_HANDSHAKE reachable (handshake can complete)", ok, "the legal handshake can no longer complete", d.fn.loc(d.fn.node))
    ok = reach("SERVER_EXPECT_CLIENT_HELLO", "SERVER_POST_HANDSHAKE", lambda *a: False)
    chk.ob(R3, "server: SERVER_POST_HANDSHAKE reachable (handshake can complete)", ok, "the legal handshake can no longer complete", d.fn.loc(d.fn.node))
    # server side: a client certificate, once presented, must be followed by CertificateVerify
    ok = not reach("SERVER_EXPECT_CERTIFICATE_VERIFY", "SERVER_POST_HANDSHAKE", lambda x, t, tgt, atoms: t == "CERTIFICATE_VERIFY")
    chk.ob(R3, "server: after a client Certificate only CertificateVerify leads on", ok, "SERVER_EXPECT_CERTIFICATE_VERIFY can be left without CertificateVerify", d.fn.loc(d.fn.node))

    # writers of _session_resumed
    want_writers = ref["session_resumed_writers"]
    found = {}
    for q in m.functions:
        if not q.startswith("Context."):
            continue
        f = Fn(repo, "tls:" + q)
        for st, tgt, v in f.assigns(chain="self._session_resumed"):
            if q == "Context.__init__":
                chk.ob(R3, "_session_resumed initialised False", isinstance(v, ast.Constant) and v.value is False, f"initial value {norm(v)}", f.loc(st))
                continue
            found.setdefault(q, []).append((f, st, v))
    for q, lst in sorted(found.items()):
        spec = want_writers.get(q)
        for f, st, v in lst:
            if spec is None:
                chk.ob(R3, f"{q}: writer of _session_resumed `{norm(st)}`", False, "unexpected writer of the flag that lets the client skip certificate authentication", f.loc(st))
                continue
            atoms = f.guard_atoms_x(st)
            missing = [g for g in spec["guards"] if not Fn.find_guards(atoms, g["op"], g["holds"], g["contains"])]
            const_true = isinstance(v, ast.Constant) and v.value is True
            chk.ob(R3, f"{q}: `{norm(st)}` constant True under its authenticating test", const_true and not missing, f"value={norm(v)} missing guards={missing} path condition={atoms}", f.loc(st))
    for q in want_writers:
        chk.ob(R3, f"{q}: sets _session_resumed", q in found, "resumption can no longer be reported (writer vanished)", repo.loc(m.classes["Context"], m))

