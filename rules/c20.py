"""C20 - logging is observationally transparent (two-level non-interference, statically).

L (logging) locations: attributes `_quic_logger`, `quic_logger`, `quic_logger_frames`,
`secrets_log_file`, everything inside the classes of quic/logger.py, parameters with those names,
and locals that are assigned from an L expression or inside an L-guarded region.  Everything else
is H (protocol).

R1  every *use* of an L object (method call, attribute, subscript, iteration) is control-dependent
    on a test that the logger / log file is not None (or lies in a helper all of whose call sites
    are)
R2  code that is control-dependent on an L test has no H effect: it assigns only locals and L
    locations, calls only L methods and functions that are pure, and does not return / raise /
    break / continue / assert
R3  outside such regions an L value occurs only as the tested operand, as the value stored into an
    L location or passed to an L parameter - never in an H assignment, H call or return
R4  an L region, and every logger method, lets no modelled exception escape
R5  what is logged is JSON-serialisable (no bytes), and the packet-type table is total
R6  one packet_sent record per sent packet, one packet_received record per processed packet
"""
from __future__ import annotations

import ast
from typing import Optional

from sa.effects import MUTATORS, PURE_BUILTINS, PURE_EXT, PURE_METHODS, Purity, _calls_of, _flat, _own_exprs, _store_targets
from sa.excflow import Escape
from sa.flow import FuncRef, Program
from sa.pyfacts import Unknown, attr_chain, call_name, get_kw, norm, stmts_of, walk_no_nested
from sa.q import Fn, inside
from sa.report import AnalysisError

LEVEL = "other"

L_ATTRS = {"_quic_logger", "quic_logger", "quic_logger_frames", "secrets_log_file"}
L_PARAMS = {"quic_logger", "quic_logger_frames", "secrets_log_file"}
L_MODULE = "quic.logger"
CONTROL = (ast.Return, ast.Raise, ast.Break, ast.Continue, ast.Assert, ast.Delete, ast.Global, ast.Nonlocal, ast.Import, ast.ImportFrom)


def has_L_atom(e: ast.AST, l_locals: set) -> bool:
    for n in ast.walk(e):
        if isinstance(n, ast.Attribute) and n.attr in L_ATTRS:
            return True
        if isinstance(n, ast.Name) and n.id in l_locals:
            return True
    return False


def l_taints(e: ast.AST, l_locals: set) -> bool:
    """the value of e is derived from logging state (an L atom occurs outside an argument that is
    bound, by keyword, to a logging parameter)"""
    if is_L_atom(e, l_locals):
        return True
    if isinstance(e, ast.Call):
        if l_taints(e.func, l_locals):
            return True
        if any(l_taints(a, l_locals) for a in e.args):
            return True
        return any(l_taints(k.value, l_locals) for k in e.keywords if k.arg not in L_PARAMS)
    if isinstance(e, ast.Lambda):
        return False
    return any(l_taints(c, l_locals) for c in ast.iter_child_nodes(e) if isinstance(c, (ast.expr, ast.keyword, ast.comprehension)))


def is_L_atom(n: ast.AST, l_locals: set) -> bool:
    return (isinstance(n, ast.Attribute) and n.attr in L_ATTRS) or (isinstance(n, ast.Name) and n.id in l_locals)


def root_is_L(e: ast.AST, l_locals: set) -> bool:
    """the object denoted by e is (reached through) an L location: a.b.<L attr>.c[...]"""
    n = e
    while True:
        if is_L_atom(n, l_locals):
            return True
        if isinstance(n, ast.Attribute):
            n = n.value
        elif isinstance(n, ast.Subscript):
            n = n.value
        elif isinstance(n, ast.Call):
            n = n.func
        else:
            return False


class FnL:
    """per-function L facts"""

    def __init__(self, repo, prog, fr: FuncRef):
        self.fr = fr
        self.fn = Fn(repo, fr.ref)
        node = fr.node
        a = node.args
        self.l_locals = {x.arg for x in a.posonlyargs + a.args + a.kwonlyargs if x.arg in L_PARAMS}
        # L regions: bodies/orelse of if/while whose test mentions an L atom
        self.region_stmts: list[ast.stmt] = []  # If/While statements with an L test
        changed = True
        while changed:
            changed = False
            self.region_stmts = [st for st in stmts_of(node) if isinstance(st, (ast.If, ast.While)) and has_L_atom(st.test, self.l_locals)]
            # guard-clause form of a region: `if <L is None>: return` directly in the function body, in a function that
            # returns nothing - the rest of the body is what only runs with logging on (same as `if <L is not None>: rest`)
            self.tail_regions = []
            for i, st in enumerate(node.body):
                if st in self.region_stmts and isinstance(st, ast.If) and not st.orelse and len(st.body) == 1 and isinstance(st.body[0], ast.Return) and st.body[0].value is None:
                    tail = node.body[i + 1 :]
                    no_value = all(r.value is None for r in stmts_of(node) if isinstance(r, ast.Return))
                    only_L = all(has_L_atom(x, self.l_locals) for x in ([st.test] if not isinstance(st.test, ast.BoolOp) else st.test.values))
                    if tail and no_value and only_L:
                        self.tail_regions.append((st, tail))
            for st in stmts_of(node):
                tgts = []
                val = None
                if isinstance(st, ast.Assign):
                    tgts, val = st.targets, st.value
                elif isinstance(st, (ast.AnnAssign, ast.AugAssign)):
                    tgts, val = [st.target], st.value
                elif isinstance(st, (ast.For, ast.AsyncFor)):
                    tgts, val = [st.target], st.iter
                elif isinstance(st, (ast.With, ast.AsyncWith)):
                    for it in st.items:
                        if it.optional_vars is not None and l_taints(it.context_expr, self.l_locals):
                            for n in ast.walk(it.optional_vars):
                                if isinstance(n, ast.Name) and n.id not in self.l_locals:
                                    self.l_locals.add(n.id)
                                    changed = True
                    continue
                else:
                    continue
                tainted = (val is not None and l_taints(val, self.l_locals)) or self.in_region(st)
                if tainted:
                    for t in tgts:
                        for n in ast.walk(t):
                            if isinstance(n, ast.Name) and isinstance(n.ctx, ast.Store) and n.id not in self.l_locals:
                                self.l_locals.add(n.id)
                                changed = True

    def in_region(self, n: ast.AST) -> bool:
        return any(inside(n, st) and not inside(n, st.test) for st in self.region_stmts) or any(inside(n, t) for _, tail in self.tail_regions for t in tail)

    def regions_of(self, n):
        return [st for st in self.region_stmts if inside(n, st) and not inside(n, st.test)] + [st for st, tail in self.tail_regions if any(inside(n, t) for t in tail)]

    def region_body(self, st) -> list:
        """statements that only run when logging is on (or only when it is off) because of the test of `st`"""
        for h, tail in self.tail_regions:
            if h is st:
                return list(tail)
        return st.body + st.orelse


def run(repo, chk):
    chk.rule("R1", "every use of a logger object / logger frame list / secrets file is dominated by a not-None test of a logging location, or lies in a helper all of whose call sites are")
    chk.rule("R2", "statements control-dependent on a logging test assign only locals and logging locations, call only logger methods and pure functions, and contain no return/raise/break/continue/assert")
    chk.rule("R3", "outside logging regions a logging value occurs only as a tested operand, as the value stored to a logging location, or as an argument bound to a logging parameter")
    chk.rule("R4", "no modelled exception escapes a logging region or a logger method")
    chk.rule("R5", "logged values are JSON types (no bytes); PACKET_TYPE_NAMES covers every QuicPacketType")
    chk.rule("R6", "packet_sent is logged once per packet returned by flush(); packet_received once per packet that reaches payload processing, with the frame list the handlers append to")
    chk.decline("equality of two complete runs (events, frames, final state) with logging on and off: decided only through the non-interference conditions R1-R3, which imply it for the modelled effects")
    chk.assume("attribute names _quic_logger / quic_logger / quic_logger_frames / secrets_log_file denote logging state wherever they occur (checked: no other class defines them)")
    prog = Program(repo)
    facts: dict[int, FnL] = {}
    lmod = repo.mod(L_MODULE)
    l_class_funcs = set()
    for q, node in lmod.functions.items():
        if getattr(node, "_class", None) is not None:
            l_class_funcs.add(id(node))
    frs = [fr for fr in prog.funcs.values() if not fr.mod.path.endswith(".pyi")]
    for fr in frs:
        facts[id(fr.node)] = FnL(repo, prog, fr)

    # ---- L functions: all call sites inside L regions / L functions --------------------------------
    callers: dict[int, list] = {}  # id(callee node) -> [(caller fr, call)]
    for fr in frs:
        for n in walk_no_nested(fr.node):
            if isinstance(n, ast.Call):
                for cal in prog.resolve_call(fr, n):
                    if isinstance(cal, FuncRef):
                        callers.setdefault(id(cal.node), []).append((fr, n))
    l_funcs: set = set()
    changed = True
    while changed:
        changed = False
        for fr in frs:
            if id(fr.node) in l_funcs or id(fr.node) in l_class_funcs:
                continue
            cs = callers.get(id(fr.node), [])
            if not cs:
                continue
            if all(id(c_fr.node) in l_funcs or facts[id(c_fr.node)].in_region(call) for c_fr, call in cs if id(c_fr.node) not in l_class_funcs) and any(id(c_fr.node) not in l_class_funcs for c_fr, call in cs):
                # only helpers that themselves touch logging state count (pure helpers such as dump_cid stay H and are checked for purity)
                if any(is_L_atom(n, facts[id(fr.node)].l_locals) for n in walk_no_nested(fr.node)):
                    l_funcs.add(id(fr.node))
                    changed = True
    chk.count("logging_helper_functions", sorted(prog.funcs[i].ref for i in l_funcs))

    purity = Purity(prog, l_class_funcs)
    purity.l_funcs = l_funcs

    n_uses = n_regions = n_region_stmts = n_flows = 0
    guards_seen = set()
    for fr in frs:
        if id(fr.node) in l_class_funcs:
            continue
        fl = facts[id(fr.node)]
        fn = fl.fn
        is_lf = id(fr.node) in l_funcs
        short = fr.qual
        # ---------- R1: uses
        for n in walk_no_nested(fr.node):
            use = None
            if isinstance(n, ast.Attribute) and is_L_atom(n.value, fl.l_locals) and isinstance(n.ctx, ast.Load):
                use = n
            elif isinstance(n, ast.Subscript) and is_L_atom(n.value, fl.l_locals):
                use = n
            elif isinstance(n, (ast.For, ast.comprehension)) and is_L_atom(n.iter, fl.l_locals):
                use = n.iter
            if use is None:
                continue
            n_uses += 1
            atoms = fn.guard_atoms(use)
            ok = is_lf or _nonnull_guard(atoms, fl.l_locals)
            if ok and not is_lf:
                guards_seen.add((fr.ref, tuple(a for a in atoms if _is_L_text(a[0]))))
            chk.ob("R1", f"{short}: `{norm(use)[:70]}` only runs when logging is enabled", ok, "a logger object is used on a path where it may be None (raises with logging off) or unconditionally", fn.loc(use))
        if is_lf:
            for c_fr, call in callers.get(id(fr.node), []):
                cf = facts[id(c_fr.node)]
                ok = id(c_fr.node) in l_funcs or _nonnull_guard(cf.fn.guard_atoms(call), cf.l_locals)
                chk.ob("R1", f"{c_fr.qual}: call of logging helper `{fr.qual}` is guarded by a logger test", ok, "helper that uses the logger unguarded is called without a not-None test", cf.fn.loc(call))
        # ---------- R2: effects inside regions (and in the whole body of L helpers)
        region_nodes = list(fl.region_stmts)
        bodies = []
        for st in region_nodes:
            if any(inside(st, o) and not inside(st, o.test) for o in region_nodes if o is not st):
                continue  # nested region: covered by the outer one
            bodies.append((st, fl.region_body(st)))
        if is_lf:
            bodies = [(fr.node, fr.node.body)]
        for holder, body in bodies:
            n_regions += 1
            for st in _stmts_in(body):
                n_region_stmts += 1
                key = f"{short}: `{norm(st).splitlines()[0][:70]}` in a logging region"
                if isinstance(st, CONTROL) and not (is_lf and isinstance(st, ast.Return) and st.value is None):
                    chk.ob("R2", key + " does not alter control flow", False, f"{type(st).__name__} inside code that only runs when logging is on: behaviour differs from the logging-off run", fn.loc(st))
                    continue
                for t in _store_targets(st):
                    if isinstance(t, ast.Name):
                        continue
                    ok = root_is_L(t, fl.l_locals)
                    chk.ob("R2", key + " writes only logging state", ok, f"protocol location `{norm(t)[:60]}` is written under a logging test", fn.loc(st))
                for c in _calls_of(st):
                    ok, why = _call_ok(prog, purity, fr, fl, c)
                    chk.ob("R2", f"{short}: call `{norm(c.func)[:60]}` in a logging region has no protocol effect", ok, why, fn.loc(c))
        # ---------- R3: flows out of L
        for st in stmts_of(fr.node):
            if fl.in_region(st) or is_lf:
                continue
            for e, ctx in _stmt_exprs(st):
                if not has_L_atom(e, fl.l_locals):
                    continue
                n_flows += 1
                ok, why = _flow_ok(prog, fr, fl, st, e, ctx)
                chk.ob("R3", f"{short}: `{norm(e)[:70]}` ({ctx}) keeps logging state out of protocol state", ok, why, fn.loc(e))
    chk.count("logger_uses", n_uses)
    chk.count("logging_regions", n_regions)
    chk.count("statements_in_logging_regions", n_region_stmts)
    chk.count("logging_values_outside_regions", n_flows)
    if n_uses < 100 or n_regions < 50:
        raise AnalysisError(f"only {n_uses} logger uses / {n_regions} logging regions found: the logging-location model no longer matches the code")

    r2_logger_classes(repo, chk, prog, purity, lmod)
    r4(repo, chk, prog, facts, frs, l_class_funcs, l_funcs)
    r5(repo, chk, prog, lmod, frs, facts)
    r6(repo, chk)
    # the L attribute names are not reused for something else
    for m in repo.modules.values():
        for cq, c in m.classes.items():
            if m.name == L_MODULE:
                continue
            for st in c.body:
                if isinstance(st, ast.FunctionDef) and st.name in L_ATTRS:
                    chk.ob("R3", f"{m.name}:{cq}.{st.name} is not a method/property named like a logging location", False, "name collision breaks the logging-location model", repo.loc(st, m))


def _is_L_text(t: str) -> bool:
    return any(a in t for a in L_ATTRS)


def _nonnull_guard(atoms, l_locals) -> bool:
    for txt, pol in atoms:
        if pol and txt.endswith(" is not None") and (_is_L_text(txt) or txt.split(" ")[0] in l_locals):
            return True
        if pol and (_is_L_text(txt) or txt in l_locals) and " " not in txt:
            return True
    return False


def _stmts_in(body):
    for st in body:
        yield st
        if isinstance(st, (ast.FunctionDef, ast.AsyncFunctionDef, ast.ClassDef)):
            continue
        for f in ("body", "orelse", "finalbody"):
            yield from _stmts_in(getattr(st, f, []) or [])
        if isinstance(st, ast.Try):
            for h in st.handlers:
                yield from _stmts_in(h.body)


def _call_ok(prog, purity, fr, fl, c: ast.Call):
    f = c.func
    if isinstance(f, ast.Attribute) and root_is_L(f.value, fl.l_locals):
        return True, ""
    if isinstance(f, ast.Name) and f.id in PURE_BUILTINS:
        return True, ""
    if isinstance(f, ast.Attribute):
        root = f.value
        while isinstance(root, (ast.Attribute, ast.Subscript)):
            root = root.value
        if isinstance(root, ast.Name) and root.id in purity.fresh_locals(fr):
            return True, ""  # method of an object created in this function
    cn = call_name(c)
    if cn in PURE_EXT:
        return True, ""
    cals = purity.callees(fr, c)
    if cals:
        bad = []
        for cal in cals:
            if isinstance(cal, FuncRef):
                if id(cal.node) in purity.l_funcs or id(cal.node) in purity.l_class_funcs:
                    continue  # logging helper / logger method: checked as a logging region of its own
                p, why = purity.pure(cal)
                if not p:
                    bad.append(f"{cal.ref}: {why}")
            elif cal[0] == "ctor":
                p, why = purity.ctor_pure(cal[1])
                if not p:
                    bad.append(f"constructor {cal[1]}: {why}")
            elif cal[0] == "c":
                if cal[1].split(".")[-1] not in ("tell", "eof", "data_slice", "capacity", "data"):
                    bad.append(f"C method {cal[1]} mutates its buffer")
            elif cal[0] == "ext":
                if cal[1] not in PURE_EXT and cal[1].split(".")[-1] not in PURE_METHODS:
                    bad.append(f"external call {cal[1]} not known to be pure")
        return (not bad), "; ".join(bad)
    if isinstance(f, ast.Attribute) and f.attr in PURE_METHODS and f.attr not in MUTATORS:
        return True, ""
    return False, f"callee of `{norm(f)[:60]}` is not resolved and not in the pure tables"


def _stmt_exprs(st):
    """(expression, context) pairs of one statement, classified for R3"""
    if isinstance(st, (ast.If, ast.While)):
        yield st.test, "test"
        return
    if isinstance(st, ast.Assign):
        yield st, "assign"
        return
    if isinstance(st, (ast.AnnAssign, ast.AugAssign)):
        yield st, "assign"
        return
    if isinstance(st, (ast.FunctionDef, ast.AsyncFunctionDef, ast.ClassDef)):
        return
    for v in _own_exprs(st):
        yield v, type(st).__name__.lower()


def _flow_ok(prog, fr, fl, st, e, ctx):
    ll = fl.l_locals
    if ctx == "test":
        # the branches are a logging region (R2 applies); the test itself may only compare with None / test truth
        return True, ""
    if ctx == "assign":
        tgts = list(_store_targets(st))
        val = st.value
        if val is None:
            return True, ""
        if has_L_atom(val, ll) or any(has_L_atom(t, ll) for t in tgts):
            bad = [t for t in tgts if not (root_is_L(t, ll) or (isinstance(t, ast.Name) and t.id in ll))]
            if bad and l_taints(val, ll):
                return False, f"logging value stored into protocol location `{norm(bad[0])[:50]}`"
            # storing an H value into an L location is fine (H -> L)
            # but calls evaluated on the way must not use L arguments wrongly
            return _args_ok(prog, fr, fl, val)
        return True, ""
    if ctx in ("return",):
        return False, "a logging value is returned from a protocol function"
    # expression statements / other: every L atom must be an argument bound to an L parameter
    return _args_ok(prog, fr, fl, e)


def _args_ok(prog, fr, fl, e):
    """every L atom inside e (outside stores) sits in an argument bound to a logging parameter, or
    is the whole value being stored (checked by the caller)"""
    ll = fl.l_locals
    bad = []

    def visit(n, allowed):
        if is_L_atom(n, ll):
            if not allowed:
                bad.append(norm(n))
            return
        if isinstance(n, ast.Call):
            visit(n.func, False)
            pnames = _param_names(prog, fr, n)
            for i, a in enumerate(n.args):
                ok = pnames is not None and i < len(pnames) and pnames[i] in L_PARAMS
                visit(a, ok)
            for k in n.keywords:
                visit(k.value, k.arg in L_PARAMS)
            return
        if isinstance(n, ast.IfExp):
            visit(n.test, False)
            visit(n.body, allowed)
            visit(n.orelse, allowed)
            return
        for c in ast.iter_child_nodes(n):
            if isinstance(c, (ast.expr, ast.keyword, ast.comprehension)):
                visit(c, False)

    if isinstance(e, ast.stmt):
        for v in _own_exprs(e):
            visit(v, True)
    else:
        visit(e, True)
    return (not bad), ("logging value(s) " + ", ".join(bad[:3]) + " reach a protocol computation / non-logging parameter" if bad else "")


def _param_names(prog, fr, call) -> Optional[list]:
    for cal in prog.resolve_call(fr, call):
        if isinstance(cal, FuncRef):
            a = cal.node.args
            ps = [x.arg for x in a.posonlyargs + a.args]
            if ps and ps[0] in ("self", "cls") and isinstance(call.func, ast.Attribute):
                ps = ps[1:]
            return ps
        if cal[0] == "ctor":
            for m in prog.class_methods(cal[1], "__init__", with_subclasses=False):
                a = m.node.args
                return [x.arg for x in a.posonlyargs + a.args][1:]
            # dataclass: field order
            mc = prog.classes.get(cal[1])
            if mc:
                return [st.target.id for st in mc[1].body if isinstance(st, ast.AnnAssign) and isinstance(st.target, ast.Name)]
    return None


# ---- logger classes ------------------------------------------------------------------------------


def r2_logger_classes(repo, chk, prog, purity, lmod):
    n = 0
    for q, node in sorted(lmod.functions.items()):
        if getattr(node, "_class", None) is None or ".<locals>." in q:
            continue
        n += 1
        fn = Fn(repo, f"{L_MODULE}:{q}")
        a = node.args
        params = [x.arg for x in a.posonlyargs + a.args + a.kwonlyargs if x.arg != "self"]
        pure_expected = node.name.startswith("encode_") or node.name in ("packet_type", "to_dict", "_encode_http3_headers")
        for st in stmts_of(node):
            for t in _store_targets(st):
                if isinstance(t, ast.Name):
                    continue
                root = t
                while isinstance(root, (ast.Attribute, ast.Subscript)):
                    root = root.value
                rn = root.id if isinstance(root, ast.Name) else None
                if pure_expected:
                    ok = rn is not None and rn not in params and rn != "self"
                    chk.ob("R2", f"{q}: `{norm(st)[:60]}` (encoder) writes nothing but fresh locals", ok, "an encoder mutates logger state or its argument", fn.loc(st))
                else:
                    ok = rn == "self" or (rn is not None and rn not in params)
                    chk.ob("R2", f"{q}: `{norm(st)[:60]}` writes only the logger's own state", ok, "a logger method writes into an object passed from the protocol code", fn.loc(st))
            for c in _calls_of(st):
                f = c.func
                if isinstance(f, ast.Attribute) and f.attr in MUTATORS:
                    root = f.value
                    while isinstance(root, (ast.Attribute, ast.Subscript)):
                        root = root.value
                    rn = root.id if isinstance(root, ast.Name) else None
                    if rn in params:
                        chk.ob("R2", f"{q}: `{norm(c)[:60]}` does not mutate an argument", False, "a logger method mutates a value owned by the protocol code", fn.loc(c))
                    elif pure_expected and rn == "self":
                        chk.ob("R2", f"{q}: `{norm(c)[:60]}` (encoder) does not mutate logger state", False, "encoder with a side effect", fn.loc(c))
                    else:
                        chk.ob("R2", f"{q}: `{norm(c)[:60]}` mutates only logger-owned or fresh data", True, "", fn.loc(c))
                for cal in prog.resolve_call(prog.by_ref[f"{L_MODULE}:{q}"], c):
                    if isinstance(cal, FuncRef) and cal.mod.name != L_MODULE:
                        p, why = purity.pure(cal)
                        chk.ob("R2", f"{q}: callee {cal.ref} outside the logger module is pure", p, why, fn.loc(c))
    if n < 20:
        raise AnalysisError(f"only {n} logger methods found")
    chk.count("logger_methods", n)


# ---- R4 -------------------------------------------------------------------------------------------


def r4(repo, chk, prog, facts, frs, l_class_funcs, l_funcs):
    esc = Escape(prog)
    n = 0
    for fr in frs:
        if id(fr.node) in l_class_funcs:
            if ".<locals>." in fr.qual or (fr.node.name == "__init__" and not fr.qual.startswith("QuicLoggerTrace.")):
                continue  # QuicLogger / QuicFileLogger are constructed by the application, not by a connection
            items = esc.esc.get(id(fr.node), {})
            n += 1
            bad = [it for it in items.values() if it.pre is None or True]
            chk.ob("R4", f"{fr.qual}: no modelled exception escapes this logger method", not bad, "; ".join(f"{it.cls} from {it.origin[:90]}" for it in bad[:3]), repo.loc(fr.node, fr.mod))
            continue
        fl = facts[id(fr.node)]
        tops = [st for st in fl.region_stmts if not any(inside(st, o) and not inside(st, o.test) for o in fl.region_stmts if o is not st)]
        for st in tops:
            items = esc._block(fr, fl.region_body(st))
            # items of callees that the C05/C16 boundaries already discharge through call-site preconditions keep `pre`
            bad = [it for it in items if not _discharged_here(esc, fr, it)]
            n += 1
            chk.ob("R4", f"{fr.qual}: logging region `if {norm(st.test)[:50]}` raises nothing", not bad, "; ".join(f"{it.cls} from {it.origin[:90]}" for it in bad[:3]), fl.fn.loc(st))
    chk.count("R4_regions_and_methods", n)
    # values of other objects that exist only after some method ran (Optional, None after construction) and are
    # dereferenced inside a logging region: each needs a checked reason why it is set by then
    n_for = 0
    for fr in frs:
        if id(fr.node) in l_class_funcs:
            continue
        fl = facts[id(fr.node)]
        f = Fn(repo, fr.ref)
        for st in fl.region_stmts:
            for node in walk_no_nested(st):
                if isinstance(node, ast.Attribute) and isinstance(node.ctx, ast.Load) and isinstance(node.value, ast.Attribute) and not _is_L_text(norm(node.value)):
                    for it in esc.optional_foreign(fr, f, st, node):
                        n_for += 1
                        key = norm(node.value)
                        reason = _FOREIGN_FACTS.get(key)
                        ok = reason is not None and reason[1](repo)
                        chk.ob("R4", f"{fr.qual}: `{norm(node)[:60]}` in a logging region reads a value that is set by then", ok, (reason[0] if reason else it.why) + (": premise no longer holds" if reason and not ok else ""), f.loc(node))
    chk.count("R4_late_initialised_values_read_in_logging_regions", n_for)


def _client_random_premise(repo) -> bool:
    """Context.client_random: a client sets it in __init__; a server sets it in _server_handle_hello before any traffic
    key can be handed to the connection (whose key-log writer reads it); nobody else writes it"""
    m = repo.mod("tls")
    writers = {}
    for q in sorted(m.functions):
        if q.startswith("Context."):
            g = Fn(repo, "tls:" + q)
            for st, t, v in g.assigns(chain="self.client_random"):
                writers.setdefault(q.split(".")[-1], []).append((g, st, v))
    if set(writers) != {"__init__", "_server_handle_hello"}:
        return False
    ini = writers["__init__"]
    ok_init = any(("is_client", True) in g.lexical_guards(st, expand=False) and not (isinstance(v, ast.Constant) and v.value is None) for g, st, v in ini)
    g, st, v = writers["_server_handle_hello"][0]
    if len(writers["_server_handle_hello"]) != 1 or g.lexical_guards(st, expand=False) or (isinstance(v, ast.Constant) and v.value is None):
        return False
    releases = [c for c in g.calls() if call_name(c) in ("self.update_traffic_key_cb", "self._setup_traffic_protection", "self._server_expect_finished")]
    return ok_init and bool(releases) and all(g.before(st, c) for c in releases)


_FOREIGN_FACTS = {
    "self.tls.client_random": ("client_random is set by Context.__init__ (client) or at the top of _server_handle_hello, before any key release (checked)", _client_random_premise),
}


def _discharged_here(esc, fr, it):
    return False


# ---- R5 -------------------------------------------------------------------------------------------

JSON_OK = {"int", "float", "str", "bool", "None", "dict", "list"}


def r5(repo, chk, prog, lmod, frs, facts):
    # definite non-JSON values: bytes-typed expressions placed in a logged dict
    n = unknown = 0

    def typ(fr, e):
        if isinstance(e, ast.Constant):
            return type(e.value).__name__ if e.value is not None else "None"
        if isinstance(e, ast.JoinedStr):
            return "str"
        if isinstance(e, (ast.Dict, ast.DictComp)):
            return "dict"
        if isinstance(e, (ast.List, ast.ListComp)):
            return "list"
        if isinstance(e, ast.Compare) or (isinstance(e, ast.UnaryOp) and isinstance(e.op, ast.Not)):
            return "bool"
        if isinstance(e, ast.IfExp):
            a, b = typ(fr, e.body), typ(fr, e.orelse)
            return a if a == b else (a if b in (None, "None") else (b if a in (None, "None") else None))
        if isinstance(e, ast.BinOp) and isinstance(e.op, ast.Mod) and isinstance(e.left, ast.Constant) and isinstance(e.left.value, str):
            return "str"
        if isinstance(e, ast.Call):
            cn = call_name(e)
            if cn in ("str", "hex", "repr") or cn.endswith((".hex", ".decode", ".join", ".format")):
                return "str"
            if cn in ("int", "len"):
                return "int"
            if cn in ("float",):
                return "float"
            if cn == "bytes" or cn.endswith((".encode", "hexlify", "pull_bytes", "data_slice")):
                return "bytes"
            if cn in ("list", "sorted"):
                return "list"
            if cn == "dict":
                return "dict"
        t = prog.expr_type(fr, e)
        if t is None:
            return None
        t = t.replace("typing.", "")
        if t.startswith("Optional["):
            t = t[9:-1]
        base = t.split("[")[0]
        if base in ("int", "float", "str", "bool", "bytes", "bytearray", "memoryview"):
            return base
        if base in ("dict", "Dict"):
            return "dict"
        if base in ("list", "List", "Sequence", "Iterable"):
            return "list"
        cls = prog.classes.get(base)
        if cls is not None:
            bases = [attr_chain(b) for b in cls[1].bases]
            if any(b and b.split(".")[-1] in ("IntEnum", "IntFlag") for b in bases):
                return "int"
            return "object:" + base
        return None

    def check_value(fr, fn, e, where):
        nonlocal n, unknown
        if isinstance(e, ast.Dict):
            for k, v in zip(e.keys, e.values):
                if k is not None:
                    kt = typ(fr, k)
                    n += 1
                    chk.ob("R5", f"{where}: key `{norm(k)[:40]}` is a string", kt in ("str", None), f"dict key of type {kt}", fn.loc(k))
                    if kt is None:
                        unknown += 1
                check_value(fr, fn, v, where)
            return
        if isinstance(e, (ast.List, ast.Tuple)):
            for v in e.elts:
                check_value(fr, fn, v, where)
            return
        if isinstance(e, ast.ListComp):
            check_value(fr, fn, e.elt, where)
            return
        if isinstance(e, ast.IfExp):
            check_value(fr, fn, e.body, where)
            check_value(fr, fn, e.orelse, where)
            return
        t = typ(fr, e)
        n += 1
        if t is None:
            unknown += 1
        bad = t is not None and (t in ("bytes", "bytearray", "memoryview") or t.startswith("object:"))
        chk.ob("R5", f"{where}: value `{norm(e)[:50]}` is JSON-serialisable", not bad, f"value of type {t} is placed in a qlog record: json.dumps raises TypeError", fn.loc(e))

    for fr in frs:
        fn = facts[id(fr.node)].fn if id(fr.node) in facts else Fn(repo, fr.ref)
        for c in walk_no_nested(fr.node):
            if isinstance(c, ast.Call) and call_name(c).endswith("log_event"):
                d = get_kw(c, "data")
                if d is not None:
                    if isinstance(d, ast.Name):
                        for v in fn.local_defs(d.id):
                            check_value(fr, fn, v, f"{fr.qual} log_event data")
                        # later item stores into the dict
                        for st, t, v in fn._assigns_scan() and [(a, b, c2) for a, b, c2, _ in fn._assigns_scan()]:
                            pass
                    else:
                        check_value(fr, fn, d, f"{fr.qual} log_event data")
        # subscript stores into dicts that are logged (`data["x"] = ...`) and encoder returns
        if fr.mod.name == L_MODULE and getattr(fr.node, "_class", None) is not None and (fr.node.name.startswith("encode_") or fr.node.name == "packet_type"):
            for r in fn.returns():
                if r.value is not None:
                    v = r.value
                    if isinstance(v, ast.Name):
                        for dv in fn.local_defs(v.id):
                            check_value(fr, fn, dv, f"{fr.qual} return")
                        for st in fn.stmts(lambda s: isinstance(s, ast.Assign)):
                            for t in st.targets:
                                if isinstance(t, ast.Subscript) and isinstance(t.value, ast.Name) and t.value.id == v.id:
                                    check_value(fr, fn, st.value, f"{fr.qual} return[{norm(t.slice)[:20]}]")
                    else:
                        check_value(fr, fn, v, f"{fr.qual} return")
    for fr in frs:
        fn = facts[id(fr.node)].fn
        logged = set()
        for c in walk_no_nested(fr.node):
            if isinstance(c, ast.Call) and call_name(c).endswith("log_event"):
                d = get_kw(c, "data")
                if isinstance(d, ast.Name):
                    logged.add(d.id)
        for st in fn.stmts(lambda s: isinstance(s, ast.Assign)):
            for t in st.targets:
                if isinstance(t, ast.Subscript) and isinstance(t.value, ast.Name) and t.value.id in logged:
                    check_value(fr, fn, st.value, f"{fr.qual} log_event data[{norm(t.slice)[:20]}]")
    chk.count("R5_values_typed", n)
    chk.count("R5_values_of_unknown_type", unknown)
    # packet type table
    names = repo.const(lmod, lmod.assigns.get("PACKET_TYPE_NAMES")) if "PACKET_TYPE_NAMES" in lmod.assigns else Unknown
    pm = repo.mod("quic.packet")
    members = repo.enum_members(pm, repo.cls("quic.packet:QuicPacketType"))
    if names is Unknown:
        # keys are enum members: fold keys individually
        d = lmod.assigns.get("PACKET_TYPE_NAMES")
        keys = set()
        if isinstance(d, ast.Dict):
            for k in d.keys:
                v = repo.const(lmod, k)
                if v is not Unknown:
                    keys.add(v)
        names = {k: None for k in keys}
    missing = [m for m, v in members.items() if v not in names]
    chk.ob("R5", "PACKET_TYPE_NAMES has an entry for every QuicPacketType member", not missing and bool(members), f"missing {missing}", repo.loc(lmod.tree.body[0], lmod))
    pt = Fn(repo, f"{L_MODULE}:QuicLoggerTrace.packet_type")
    total = any(isinstance(n, ast.Call) and call_name(n).endswith(".get") and len(n.args) == 2 for n in pt.nodes(ast.Call)) or not missing
    chk.ob("R5", "QuicLoggerTrace.packet_type is total over QuicPacketType", total, "lookup can raise KeyError", pt.loc(pt.node))


# ---- R6 -------------------------------------------------------------------------------------------


def _log_calls(fn: Fn, event: str):
    out = []
    for c in fn.calls(suffix="log_event"):
        ev = get_kw(c, "event")
        if isinstance(ev, ast.Constant) and ev.value == event:
            out.append(c)
    return out


def r6(repo, chk):
    C = "quic.connection:QuicConnection."
    # a record that was logged stays in the trace: the container is unbounded, nothing removes from it, and the document
    # is built from all of it
    ti = Fn(repo, "quic.logger:QuicLoggerTrace.__init__")
    evs = [v for st, t, v in ti.assigns(chain="self._events")]
    ok = len(evs) == 1 and isinstance(evs[0], ast.Call) and call_name(evs[0]) in ("deque", "list", "collections.deque") and not evs[0].args and not evs[0].keywords or (len(evs) == 1 and isinstance(evs[0], ast.List) and not evs[0].elts)
    chk.ob("R6", "QuicLoggerTrace keeps its events in an unbounded container", ok, f"initialised as {[norm(v) for v in evs]}: a bounded container silently drops the oldest records, so the trace no longer has one record per packet", ti.loc(ti.node))
    lm = repo.mod("quic.logger")
    removers = []
    for q in sorted(lm.functions):
        if q.startswith("QuicLoggerTrace."):
            g = Fn(repo, "quic.logger:" + q)
            for c in g.calls():
                if isinstance(c.func, ast.Attribute) and norm(c.func.value) == "self._events" and c.func.attr in ("pop", "popleft", "clear", "remove", "rotate"):
                    removers.append(f"{q}: {norm(c)[:40]}")
            for st, t, v in g.assigns(chain="self._events"):
                if not q.endswith(".__init__"):
                    removers.append(f"{q}: {norm(st)[:40]}")
    chk.ob("R6", "nothing removes or replaces logged events", not removers, f"{removers}", "")
    le = Fn(repo, "quic.logger:QuicLoggerTrace.log_event")
    apps = [c for c in le.calls(name="self._events.append")]
    ok = len(apps) == 1 and le.cfg.postdominates(le.cfg.node_of(apps[0]), le.cfg.entry)
    chk.ob("R6", "log_event appends exactly one record on every path", ok, "", le.loc(le.node))
    td = Fn(repo, "quic.logger:QuicLoggerTrace.to_dict")
    ok = any("list(self._events)" in norm(st) for st in td.stmts())
    chk.ob("R6", "to_dict exports every recorded event", ok, "", td.loc(td.node))
    ds = Fn(repo, C + "datagrams_to_send")
    sent = _log_calls(ds, "packet_sent")
    chk.ob("R6", "datagrams_to_send logs packet_sent", len(sent) == 1, f"{len(sent)} packet_sent log sites", ds.loc(ds.node))
    for c in sent:
        loops = [st for st in ds.stmts(lambda s: isinstance(s, ast.For)) if inside(c, st)]
        flush_names = set()
        for st, t, v in ds._assigns_scan() and [(a, b, c2) for a, b, c2, _ in ds._assigns_scan()]:
            pass
        for st in ds.stmts(lambda s: isinstance(s, ast.Assign)):
            if isinstance(st.value, ast.Call) and call_name(st.value).endswith(".flush") and isinstance(st.targets[0], ast.Tuple) and len(st.targets[0].elts) == 2:
                flush_names.add(norm(st.targets[0].elts[1]))
        ok = any(norm(l.iter) in flush_names for l in loops)
        chk.ob("R6", "packet_sent is logged inside the loop over all packets returned by builder.flush()", ok, f"enclosing loops iterate {[norm(l.iter) for l in loops]}, flush() packets are {sorted(flush_names)}", ds.loc(c))
        loop = next((l for l in loops if norm(l.iter) in flush_names), None)
        if loop is not None:
            lg = [a for a in ds.lexical_guards(c, expand=False)]
            inner = []
            p = c
            while p is not loop:
                p = p._parent
                if isinstance(p, ast.If) and p is not loop:
                    inner.append(norm(p.test))
            chk.ob("R6", "inside that loop the record is conditional only on the logger being present", inner == ["self._quic_logger is not None"], f"conditions inside the loop: {inner}", ds.loc(c))
            early = [s for s in ds.stmts(lambda s: isinstance(s, (ast.Break, ast.Continue)) and inside(s, loop))]
            chk.ob("R6", "the packet loop has no break/continue", not early, "a packet can be skipped", ds.loc(loop))
            d = get_kw(c, "data")
            txt = norm(d) if d is not None else ""
            var = norm(loop.target)
            chk.ob("R6", "the record carries the packet's own frame list and number", f"{var}.quic_logger_frames" in txt and f"{var}.packet_number" in txt, "record does not reference the loop packet", ds.loc(c))
    rd = Fn(repo, C + "receive_datagram")
    recv = _log_calls(rd, "packet_received")
    pr = rd.calls(name="self._payload_received")
    if not pr:
        raise AnalysisError("receive_datagram: _payload_received call not found")
    main = [c for c in recv if any(rd.before(c._parent if False else _stmt_of(c), p) or _if_before(rd, c, p) for p in pr)]
    chk.ob("R6", "receive_datagram logs packet_received before payload processing of every packet", bool(main), "no packet_received record on the path to _payload_received", rd.loc(rd.node))
    # one packet record per arrival: within one trip round the packet loop no second packet_received / packet_dropped
    # record can follow a first one
    recs = recv + _log_calls(rd, "packet_dropped")
    ploops = [l for l in rd.stmts(lambda s: isinstance(s, ast.While)) if any(inside(c, l) for c in recv)]
    heads = {rd.cfg.begin[l] for l in ploops}
    twice = []
    for a in recs:
        for b in recs:
            if a is not b and rd.cfg.reaches(rd.cfg.done_of(a), rd.cfg.node_of(b), avoid=heads):
                twice.append(f"line {a.lineno} then line {b.lineno}")
    chk.ob("R6", "receive_datagram writes at most one packet record (received or dropped) per arriving packet", not twice and bool(ploops), f"{twice[:3]}: a packet that is discarded unprocessed (e.g. a duplicate) is also logged as received - the trace no longer has one record per packet", rd.loc(rd.node))
    for c in main:
        holder = _enclosing_if(c)
        ok = holder is not None and norm(holder.test) == "self._quic_logger is not None" and all(rd.before(holder, p) for p in pr)
        chk.ob("R6", "the packet_received record is conditional only on the logger and lies on every path to _payload_received", ok, "record conditional on something else or bypassed by a path", rd.loc(c))
        # frames list identity
        d = get_kw(c, "data")
        frames = None
        if isinstance(d, ast.Dict):
            for k, v in zip(d.keys, d.values):
                if isinstance(k, ast.Constant) and k.value == "frames":
                    frames = v
        ctxs = rd.calls(name="QuicReceiveContext")
        kw = [get_kw(x, "quic_logger_frames") for x in ctxs]
        ok = frames is not None and isinstance(frames, ast.Name) and all(k is not None and norm(k) == frames.id for k in kw) and bool(kw)
        chk.ob("R6", "the record's frame list is the list handed to the frame handlers", ok, "handlers append to a list that is not the one in the record", rd.loc(c))
        if holder is not None and isinstance(frames, ast.Name):
            news = [st for st in holder.body if isinstance(st, ast.Assign) and norm(st.targets[0]) == frames.id and isinstance(st.value, ast.List) and not st.value.elts]
            chk.ob("R6", "a fresh frame list is created for each received packet when logging", bool(news), "frame list not (re)created under the logger test: appending raises or mixes packets", rd.loc(holder))
    # retry / version negotiation records
    for name in ("_receive_retry_packet", "_receive_version_negotiation_packet"):
        if repo.has_func(C + name):
            f = Fn(repo, C + name)
            chk.ob("R6", f"{name} logs its own packet_received record", bool(_log_calls(f, "packet_received")), "no record for this packet kind", f.loc(f.node))
        else:
            hits = [c for c in recv if c not in main]
            chk.ob("R6", f"receive_datagram logs a packet_received record for {name.replace('_receive_', '').replace('_packet', '')} packets", len(hits) >= 1, "no record for this packet kind", rd.loc(rd.node))
    # the padding frame is logged by the builder
    eb = Fn(repo, "quic.packet_builder:QuicPacketBuilder._end_packet")
    pads = [c for c in eb.calls(suffix="encode_padding_frame")]
    chk.ob("R6", "_end_packet records the padding it adds", bool(pads), "padding added without a qlog frame", eb.loc(eb.node))


def _stmt_of(n):
    while not isinstance(n, ast.stmt):
        n = n._parent
    return n


def _enclosing_if(n):
    p = getattr(n, "_parent", None)
    while p is not None and not isinstance(p, (ast.FunctionDef, ast.AsyncFunctionDef)):
        if isinstance(p, ast.If):
            return p
        p = getattr(p, "_parent", None)
    return None


def _if_before(fn: Fn, c, p) -> bool:
    h = _enclosing_if(c)
    return h is not None and fn.before(h, p)
