"""C12: in _write_application the PATH_CHALLENGE for a new, unvalidated path was written before the ACK frame.
PATH_CHALLENGE is congestion controlled; with the congestion window exhausted its start_frame stopped the
packet builder and the ACK that was due (ACK frames are exempt from congestion control) was not sent until the
window reopened.  Scenario: the server has filled its window with stream data (the client's ACKs are lost),
the client's address changes, an ack-eliciting packet arrives from the new address; at the ACK deadline the
server must emit an ACK-bearing packet.  Exit 0 = it does, 1 = nothing is sent."""
import sys

from aioquic.quic.configuration import QuicConfiguration
from aioquic.quic.connection import QuicConnection
from aioquic.quic.logger import QuicLogger

A, B, S = ("192.0.2.1", 1111), ("192.0.2.9", 2222), ("192.0.2.2", 4433)
ccfg = QuicConfiguration(is_client=True, quic_logger=QuicLogger())
ccfg.load_verify_locations("/repo/tests/pycacert.pem")
ccfg.server_name = "localhost"
scfg = QuicConfiguration(is_client=False, quic_logger=QuicLogger())
scfg.load_cert_chain("/repo/tests/ssl_cert.pem", "/repo/tests/ssl_key.pem")
client = QuicConnection(configuration=ccfg)
client.connect(S, now=0.0)
first = client.datagrams_to_send(now=0.0)
from aioquic.buffer import Buffer
from aioquic.quic.packet import pull_quic_header

hdr = pull_quic_header(Buffer(data=first[0][0]), host_cid_length=8)
server = QuicConnection(configuration=scfg, original_destination_connection_id=hdr.destination_cid)
now = 0.0
flight = first
for _ in range(8):
    for d, a in flight:
        server.receive_datagram(d, A, now=now)
    back = server.datagrams_to_send(now=now)
    now += 0.01
    for d, a in back:
        client.receive_datagram(d, S, now=now)
    flight = client.datagrams_to_send(now=now)
    now += 0.01
assert server._handshake_complete and client._handshake_complete

# the server fills its congestion window; everything the client answers is lost
sid = server.get_next_available_stream_id(is_unidirectional=True)
server.send_stream_data(sid, b"x" * 200000)
for _ in range(50):
    out = server.datagrams_to_send(now=now)
    now += 0.001
    if not out:
        break
left = server._loss.congestion_window - server._loss.bytes_in_flight
print("window left on the server:", left)
assert left < 30, left

# the client's address changes; an ack-eliciting packet arrives from the new address
client.send_ping(uid=1)
ping = client.datagrams_to_send(now=now)
assert ping
for d, a in ping:
    server.receive_datagram(d, B, now=now)
space = server._spaces[list(server._spaces)[-1]]
deadline = space.ack_at
assert deadline is not None, "no ACK deadline armed"
assert server.get_timer() <= deadline + 1e-9
out = server.datagrams_to_send(now=deadline)
print("datagrams at the ACK deadline:", [(len(d), a) for d, a in out], "ack_at afterwards:", space.ack_at)
if not out or space.ack_at is not None:
    print("the due ACK was not sent: PATH_CHALLENGE (congestion controlled) was written first and stopped the builder")
    sys.exit(1)
print("OK")
