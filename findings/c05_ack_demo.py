"""A peer that leaves many gaps in its packet numbers makes the ACK frame outgrow the packet:
datagrams_to_send() raised BufferWriteError before the fix."""
import sys, time
sys.path.insert(0, "/repo")
from tests.test_connection import client_and_server
from aioquic.quic import events
with client_and_server() as (client, server):
    space = server._spaces[list(server._spaces)[-1]]
    # 700 single-packet ranges, as left by a peer that only sends even packet numbers
    for pn in range(1000, 2400, 2):
        space.ack_queue.add(pn)
    space.largest_received_packet = 2398
    space.largest_received_time = time.time()
    space.ack_at = time.time()
    try:
        out = server.datagrams_to_send(now=time.time() + 1)
        print("OK datagrams_to_send returned", len(out), "datagram(s) of", [len(d) for d, _ in out])
        assert all(len(d) <= 1280 for d, _ in out)
    except Exception as exc:
        print("DEFECT datagrams_to_send raised", type(exc).__name__, exc)
        sys.exit(1)
